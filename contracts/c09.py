"""C09 -- vertex reduction keeps the path within tolerance of the original (plot_utils.points_in_tolerance /
max_dist_from_n_points / supersample).

Spec function d2(p, a, b): squared distance from p to the straight segment ab (by the projection parameter).
  points_in_tolerance(pts, tol), len >= 3:  result <=> every interior point has d2(p, pts[0], pts[-1]) < tol^2
       PROVED for point lists of UNKNOWN length (abstract indexed sequence + loop invariant, pointwise at an arbitrary index).
  max_dist_from_n_points(pts): result >= 0, result^2 == max_i d2(...); agreement  tol > 0 => (points_in_tolerance <=> max_dist < tol)
       proved PER LENGTH 3..5 with symbolic coordinates (the ffgeom dependency is executed from site-packages, inline).
  supersample(vertices, tol): only deletes; in-order subsequence of the SAME vertex objects; first and last kept; every deleted vertex j
       between surviving neighbours a, b has d2(v_j, v_a, v_b) < tol^2; <= 2 vertices or tol <= 0: unchanged.
       proved PER LENGTH 0..6 with symbolic coordinates and tolerance (complete unrolling; points_in_tolerance used modularly):
       bounded in the LENGTH of the list only -- labelled so.
"""
import z3

from pyvc.harness import no_raise, oblige_at
from pyvc.engine import Ret, Raised, EngineError, Exec, Path
from pyvc.values import VInt, VFloat, VTuple, VNone, VBool, NONE, VRef, HList
from pyvc.absseq import VAbsSeq
from pyvc.session import native
from .c19 import CursorLoop

MOD = 'plotink.plot_utils'
PX = z3.Function('pt_x', z3.IntSort(), z3.RealSort())
PY = z3.Function('pt_y', z3.IntSort(), z3.RealSort())


def d2(px, py, ax, ay, bx, by):
    dx, dy = bx - ax, by - ay
    L2 = dx * dx + dy * dy
    t = (px - ax) * dx + (py - ay) * dy
    cross = (px - ax) * dy - dx * (py - ay)
    return z3.If(t <= 0, (px - ax) * (px - ax) + (py - ay) * (py - ay),
                 z3.If(t >= L2, (px - bx) * (px - bx) + (py - by) * (py - by), cross * cross / L2))


def pt_at(i):
    return VTuple([VFloat(PX(i)), VFloat(PY(i))]), [i]


def replay09(what):
    def fn(model, ob):
        out = native('n_c09', 'search', {'what': what})
        return {'native_input': out.get('input'), 'confirmed': bool(out.get('found')), 'observed': out.get('observed'),
                'expected': out.get('expected'), 'summary': f"{what}: {out.get('input')} -> {out.get('observed')} expected {out.get('expected')}"}
    return fn


def check_pit_unbounded(sess):
    ctx = sess.new_ctx()
    ex = Exec(ctx)
    p = Path()
    n, j = z3.Ints('n_points jstar')
    tol = z3.Real('tolerance')
    p.assume(n >= 0)
    p.ghost['jstar'] = j
    seq = VAbsSeq(n, lambda tag: pt_at(z3.Int(tag)), elem=pt_at, name='input_points')
    a = (PX(0), PY(0))
    b = (PX(n - 1), PY(n - 1))
    inner = lambda i: d2(PX(i + 1), PY(i + 1), a[0], a[1], b[0], b[1]) < tol * tol       # i indexes the slice [1:-1]
    ctx.loop_specs[(f'{MOD}.points_in_tolerance', 0)] = CursorLoop('interior', inner)
    outs = list(ex.run_function(p, MOD, 'points_in_tolerance', [seq, VFloat(tol)]))
    tag = 'points_in_tolerance'
    got = set()
    for q, out in outs:
        if isinstance(out, Raised) and out.cls == 'AssertionError':
            oblige_at(ex, q, tag, 'ensures', n < 3, 'asserts-only-for-fewer-than-3-points')
            continue
        if not no_raise(ex, q, out, tag):
            continue
        r = out.val
        if not (isinstance(r, VBool) and r.conc()):
            oblige_at(ex, q, tag, 'ensures', False, 'returns-True/False')
            continue
        got.add(r.b)
        if r.b:
            oblige_at(ex, q, tag, 'ensures', z3.Implies(z3.And(j >= 0, j < n - 2), inner(j)), 'True=>every-interior-point-is-within-tolerance')
        else:
            k = q.ghost.get('cursor_interior')
            oblige_at(ex, q, tag, 'ensures', z3.And(k >= 0, k < n - 2, z3.Not(inner(k))) if k is not None else False,
                      'False=>some-interior-point-is-at-or-beyond-the-tolerance')
    if got != {True, False}:
        raise EngineError(f'points_in_tolerance: result values reached {got}')
    sess.absorb(ctx, replay=replay09('pit'))
    # canary: a vertex exactly at the tolerance counts as within
    x = z3.Real('x')
    sess.canary('at-the-tolerance-is-within', [x >= 0], z3.Implies(x * x == tol * tol, x * x < tol * tol))


def sym_points(p, n, as_lists=True):
    xs = [z3.Real(f'x{i}') for i in range(n)]
    ys = [z3.Real(f'y{i}') for i in range(n)]
    refs = [p.alloc(HList([VFloat(xs[i]), VFloat(ys[i])]), 'list') for i in range(n)]
    return xs, ys, refs


class PitContract:
    """call-site contract of points_in_tolerance on a concrete-length list: len >= 3 required; result == conjunction over the interior"""
    def apply(self, ex, p, args, kwargs, node):
        pts, tol = args
        from pyvc import seqops
        res = list(seqops.iterate(ex, p, pts, node))
        if len(res) != 1 or isinstance(res[0][1], Raised):
            raise EngineError('points_in_tolerance on a non-concrete list')
        items = res[0][1]
        if len(items) < 3:
            ex.oblige(p, 'callee-requires', False, 'points_in_tolerance-needs-at-least-3-points')
            yield p, Raised('AssertionError', node=node)
            return

        def xy(v):
            it = list(seqops.iterate(ex, p, v, node))[0][1]
            return it[0].z(), it[1].z()
        a, b = xy(items[0]), xy(items[-1])
        t = tol.z() if hasattr(tol, 'z') else z3.RealVal(tol)
        conj = [d2(*xy(v), a[0], a[1], b[0], b[1]) < t * t for v in items[1:-1]]
        yield p, VBool(z3.And(*conj) if len(conj) > 1 else conj[0])


def check_supersample(sess, max_len):
    total_paths = 0
    for n in range(0, max_len + 1):
        for tolkind in ('positive', 'nonpositive'):
            ctx = sess.new_ctx()
            ctx.contracts[f'{MOD}.points_in_tolerance'] = PitContract()
            ctx.opts['unroll_limit'] = 40
            ctx.opts['prune_timeout_ms'] = 3000
            ex = Exec(ctx)
            p = Path()
            tol = z3.Real('tolerance')
            p.assume(tol > 0 if tolkind == 'positive' else tol <= 0)
            xs, ys, refs = sym_points(p, n)
            lst = p.alloc(HList(list(refs)), 'list')
            outs = list(ex.run_function(p, MOD, 'supersample', [lst, VFloat(tol)]))
            tag = f'supersample[n={n},tol-{tolkind}]'
            for q, out in outs:
                if not no_raise(ex, q, out, tag):
                    continue
                total_paths += 1
                final = q.heap[lst.ref].items
                idx = []
                ok_ids = True
                for v in final:
                    if isinstance(v, VRef) and v.ref in [r.ref for r in refs]:
                        idx.append([r.ref for r in refs].index(v.ref))
                    else:
                        ok_ids = False
                oblige_at(ex, q, tag, 'ensures', ok_ids and all(a < b for a, b in zip(idx, idx[1:])), 'result-is-an-in-order-subsequence-of-the-same-vertex-objects')
                if not ok_ids:
                    continue
                if n <= 2 or tolkind == 'nonpositive':
                    oblige_at(ex, q, tag, 'ensures', idx == list(range(n)), 'left-unchanged')
                    continue
                oblige_at(ex, q, tag, 'ensures', bool(idx) and idx[0] == 0 and idx[-1] == n - 1, 'first-and-last-vertex-kept')
                for a, b in zip(idx, idx[1:]):
                    for jdel in range(a + 1, b):
                        oblige_at(ex, q, tag, 'ensures', d2(xs[jdel], ys[jdel], xs[a], ys[a], xs[b], ys[b]) < tol * tol,
                                  f'deleted-vertex-{jdel}-is-within-tolerance-of-segment-{a}-{b}')
                # vertices are not moved
                same = all(q.heap[r.ref].items[0].z().eq(xs[i]) and q.heap[r.ref].items[1].z().eq(ys[i]) for i, r in enumerate(refs))
                oblige_at(ex, q, tag, 'ensures', same, 'vertex-coordinates-untouched')
            sess.absorb(ctx, replay=replay09('supersample'))
    return total_paths


class DistContract:
    """call-site contract of ffgeom.Segment.distanceToPoint(p): r >= 0 and r^2 == d2(p, e0, e1)  (proved of the real body below)"""
    def apply(self, ex, p, args, kwargs, node):
        seg, pt = args
        e = coords_of_segment(ex, p, seg)
        c = coords_of_point(ex, p, pt)
        from pyvc.engine import fresh_name
        r = z3.Real(fresh_name('dist'))
        p.assume(z3.And(r >= 0, r * r == d2(c[0], c[1], e[0], e[1], e[2], e[3])))
        yield p, VFloat(r)


def coords_of_point(ex, p, pt):
    h = p.heap[pt.ref]
    lst = [v for k, v in h.fields.items() if k.endswith('coordinates')][0]
    it = p.heap[lst.ref].items
    return it[0].z(), it[1].z()


def coords_of_segment(ex, p, seg):
    h = p.heap[seg.ref]
    lst = [v for k, v in h.fields.items() if k.endswith('endpoints')][0]
    e0, e1 = p.heap[lst.ref].items
    return coords_of_point(ex, p, e0) + coords_of_point(ex, p, e1)


def check_distance_to_point(sess):
    """the dependency ink_extensions.ffgeom.Segment.distanceToPoint (read from site-packages) against its contract"""
    FF = 'ink_extensions.ffgeom'
    ctx = sess.new_ctx()
    ctx.opts['inline_all'] = True
    ctx.opts['prune_timeout_ms'] = 3000
    ex = Exec(ctx)
    p = Path()
    px, py, ax, ay, bx, by = z3.Reals('px py ax ay bx by')
    from pyvc.values import HObj

    def point(x, y):
        lst = p.alloc(HList([VFloat(x), VFloat(y)]), 'list')
        return p.alloc(HObj(f'{FF}.Point', {'__coordinates': lst}), 'Point')
    e0, e1, pt = point(ax, ay), point(bx, by), point(px, py)
    seg = p.alloc(HObj(f'{FF}.Segment', {'__endpoints': p.alloc(HList([e0, e1]), 'list')}), 'Segment')
    outs = list(ex.run_function(p, FF, 'Segment.distanceToPoint', [seg, pt]))
    tag = 'ffgeom.Segment.distanceToPoint'
    n = 0
    for q, out in outs:
        if not no_raise(ex, q, out, tag):
            continue
        r = out.val
        if not isinstance(r, VFloat):
            oblige_at(ex, q, tag, 'ensures', False, 'returns-a-number(not-NaN)')
            continue
        oblige_at(ex, q, tag, 'ensures', r.z() >= 0, 'distance>=0')
        oblige_at(ex, q, tag, 'ensures', r.z() * r.z() == d2(px, py, ax, ay, bx, by), 'distance^2==d2')
        n += 1
    if n < 3:
        raise EngineError(f'distanceToPoint: {n} returning paths (expected the three regions)')
    sess.absorb(ctx, replay=replay09('maxdist'))


def check_max_dist(sess, lengths):
    check_distance_to_point(sess)
    # max of non-negative numbers commutes with squaring
    a, b = z3.Reals('a b')
    sess.add('lemma/max-commutes-with-squaring', 'spec', 'lemma', [a >= 0, b >= 0], z3.If(b > a, b, a) * z3.If(b > a, b, a) == z3.If(b * b > a * a, b * b, a * a))
    for n in lengths:
        ctx = sess.new_ctx()
        ctx.opts['inline_all'] = True        # ffgeom.Point / Segment constructors and item access run inline
        ctx.contracts['ink_extensions.ffgeom.Segment.distanceToPoint'] = DistContract()
        ctx.opts['prune_timeout_ms'] = 3000
        ex = Exec(ctx)
        p = Path()
        xs, ys, refs = sym_points(p, n)
        lst = p.alloc(HList(list(refs)), 'list')
        outs = list(ex.run_function(p, MOD, 'max_dist_from_n_points', [lst]))
        tag = f'max_dist_from_n_points[n={n}]'
        ds = [d2(xs[i], ys[i], xs[0], ys[0], xs[n - 1], ys[n - 1]) for i in range(1, n - 1)]
        tol = z3.Real('tolerance')
        pit = z3.And(*[d < tol * tol for d in ds])
        for q, out in outs:
            if not no_raise(ex, q, out, tag):
                continue
            r = out.val
            if not isinstance(r, VFloat):
                oblige_at(ex, q, tag, 'ensures', False, 'returns-a-number')
                continue
            rz = r.z()
            oblige_at(ex, q, tag, 'ensures', rz >= 0, 'result>=0')
            oblige_at(ex, q, tag, 'ensures', z3.And(*[rz * rz >= d for d in ds]), 'result^2>=every-squared-distance')
            oblige_at(ex, q, tag, 'ensures', z3.Or(*[rz * rz == d for d in ds]), 'result^2-is-one-of-the-squared-distances')
            ob = ex.oblige(q, 'relational', pit == (rz < tol), 'agrees-with-points_in_tolerance',
                           extra_hyps=[tol > 0, rz >= 0, z3.And(*[rz * rz >= d for d in ds]), z3.Or(*[rz * rz == d for d in ds])])
            ob.func = tag
        sess.absorb(ctx, replay=replay09('maxdist'))


def build(sess):
    sess.level = 'other'
    sess.trust(
        'pyvc symbolic executor and its model of the Python subset; abstract indexed sequence for the point list of points_in_tolerance',
        'floats are modelled as reals; math.sqrt is the exact non-negative root',
        'z3 nlsat / cvc5 (QF_NRA)',
        'ink_extensions.ffgeom (dependency) is read from site-packages and executed inline for max_dist_from_n_points',
    )
    check_pit_unbounded(sess)
    max_len = 5 if sess.tier == 'quick' else 7
    paths = check_supersample(sess, max_len)
    check_max_dist(sess, (3, 4) if sess.tier == 'quick' else (3, 4, 5))
    sess.bounded.append({'function': 'plot_utils.supersample', 'bound': f'vertex lists of length 0..{max_len}; coordinates and tolerance fully symbolic (all reals)',
                         'evaluations': paths, 'distinct_nontrivial': paths,
                         'rule': 'complete symbolic unrolling per list length: one evaluation = one feasible execution path, each checked by SMT for ALL coordinates'})
    sess.bounded.append({'function': 'plot_utils.max_dist_from_n_points + agreement clause', 'bound': 'point lists of length 3..' + ('4' if sess.tier == 'quick' else '5'),
                         'evaluations': 2, 'distinct_nontrivial': 2, 'rule': 'per length, symbolic coordinates'})
    sess.explanation = ('PROVED for any number of points: points_in_tolerance <=> every interior point is strictly within the tolerance of the '
                        'chord (loop invariant over an abstract sequence, three distance regions against the spec d2, dead zero-length exit). '
                        f'PROVED PER LENGTH (bounded in the list length only, coordinates/tolerance symbolic): supersample for lists of 0..{max_len} '
                        'vertices (subsequence of the same objects, ends kept, every deleted vertex within tolerance of the surviving segment), '
                        'max_dist_from_n_points and its agreement with points_in_tolerance. Unbounded-length supersample is NOT proved.')


def fallback(sess):
    out = []
    for what in ('pit', 'supersample', 'maxdist'):
        r = native('n_c09', 'search', {'what': what})
        r['what'] = f'n_c09.search[{what}]'
        out.append(r)
    return out
