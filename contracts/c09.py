"""C09 -- vertex reduction keeps the path within tolerance of the original (plot_utils.points_in_tolerance /
max_dist_from_n_points / supersample).

Spec function d2(p, a, b): squared distance from p to the straight segment ab (by the projection parameter).
  points_in_tolerance(pts, tol), len >= 3:  result <=> every interior point has d2(p, pts[0], pts[-1]) < tol^2
       PROVED for point lists of UNKNOWN length (abstract indexed sequence + loop invariant, pointwise at an arbitrary index).
  max_dist_from_n_points(pts): result >= 0, result^2 == max_i d2(...); agreement  tol > 0 => (points_in_tolerance <=> max_dist < tol)
       PROVED for any length (map comprehensions evaluated on demand, max() contract, distanceToPoint contract proved of the dependency).
  supersample(vertices, tol): only deletes; in-order subsequence of the SAME vertex objects; first and last kept; every deleted vertex j
       between surviving neighbours a, b has d2(v_j, v_a, v_b) < tol^2; <= 2 vertices or tol <= 0: unchanged.
       PROVED for lists of UNKNOWN length (OuterSS / InnerSS invariants over the arrangement f, points_in_tolerance used modularly);
       additionally per length on concrete heap lists (complete unrolling).
"""
import z3

from pyvc.harness import no_raise, oblige_at
from pyvc.engine import Ret, Raised, EngineError, Exec, Path, LoopSpec, fresh_name, NORMAL
from pyvc.values import Val, VInt, VFloat, VTuple, VNone, VBool, NONE, VRef, HList
from pyvc.absseq import VAbsSeq
from pyvc.session import native
from .c19 import CursorLoop

MOD = 'plotink.plot_utils'
PX = z3.Function('pt_x', z3.IntSort(), z3.RealSort())
PY = z3.Function('pt_y', z3.IntSort(), z3.RealSort())


def d2(px, py, ax, ay, bx, by):
    dx, dy = bx - ax, by - ay
    L2 = dx * dx + dy * dy
    t = (px - ax) * dx + (py - ay) * dy
    cross = (px - ax) * dy - dx * (py - ay)
    return z3.If(t <= 0, (px - ax) * (px - ax) + (py - ay) * (py - ay),
                 z3.If(t >= L2, (px - bx) * (px - bx) + (py - by) * (py - by), cross * cross / L2))


def pt_at(i):
    return VTuple([VFloat(PX(i)), VFloat(PY(i))]), [i]


def replay09(what):
    def fn(model, ob):
        out = native('n_c09', 'search', {'what': what})
        return {'native_input': out.get('input'), 'confirmed': bool(out.get('found')), 'observed': out.get('observed'),
                'expected': out.get('expected'), 'summary': f"{what}: {out.get('input')} -> {out.get('observed')} expected {out.get('expected')}"}
    return fn


def check_pit_unbounded(sess):
    ctx = sess.new_ctx()
    ex = Exec(ctx)
    p = Path()
    n, j = z3.Ints('n_points jstar')
    tol = z3.Real('tolerance')
    p.assume(n >= 0)
    p.ghost['jstar'] = j
    seq = VAbsSeq(n, lambda tag: pt_at(z3.Int(tag)), elem=pt_at, name='input_points')
    a = (PX(0), PY(0))
    b = (PX(n - 1), PY(n - 1))
    inner = lambda i: d2(PX(i + 1), PY(i + 1), a[0], a[1], b[0], b[1]) < tol * tol       # i indexes the slice [1:-1]
    ctx.loop_specs[(f'{MOD}.points_in_tolerance', 0)] = CursorLoop('interior', inner)
    outs = list(ex.run_function(p, MOD, 'points_in_tolerance', [seq, VFloat(tol)]))
    tag = 'points_in_tolerance'
    got = set()
    for q, out in outs:
        if isinstance(out, Raised) and out.cls == 'AssertionError':
            oblige_at(ex, q, tag, 'ensures', n < 3, 'asserts-only-for-fewer-than-3-points')
            continue
        if not no_raise(ex, q, out, tag):
            continue
        r = out.val
        if not (isinstance(r, VBool) and r.conc()):
            oblige_at(ex, q, tag, 'ensures', False, 'returns-True/False')
            continue
        got.add(r.b)
        if r.b:
            oblige_at(ex, q, tag, 'ensures', z3.Implies(z3.And(j >= 0, j < n - 2), inner(j)), 'True=>every-interior-point-is-within-tolerance')
        else:
            k = q.ghost.get('cursor_interior')
            oblige_at(ex, q, tag, 'ensures', z3.And(k >= 0, k < n - 2) if k is not None else False, 'False=>the-offending-index-is-interior')
            oblige_at(ex, q, tag, 'ensures', z3.Not(inner(k)) if k is not None else False,
                      'False=>some-interior-point-is-at-or-beyond-the-tolerance')
    if got != {True, False}:
        raise EngineError(f'points_in_tolerance: result values reached {got}')
    # hint (Lagrange identity, a lemma obligation below): (u.v)^2 + (u x v)^2 == |u|^2 |v|^2 for u = point - end, v = chord, at every index
    # term an obligation talks about.  It lets boundary-equivalent variants of the region tests (t <= 0 vs t < 0, ...) verify.
    def lagrange(k, end):
        ux, uy = PX(k) - end[0], PY(k) - end[1]
        vx, vy = b[0] - a[0], b[1] - a[1]
        dot, cr = ux * vx + uy * vy, ux * vy - vx * uy
        return dot * dot + cr * cr == (ux * ux + uy * uy) * (vx * vx + vy * vy)
    for ob in ctx.obligations:
        ks = {}
        for h in list(ob.hyps) + [ob.goal]:
            for c in z3.z3util.get_vars(h):
                if c.sort() == z3.IntSort() and (str(c).startswith('cursor_interior') or str(c) == 'jstar'):
                    ks[str(c)] = c
        for k in ks.values():
            ob.hyps.append(lagrange(k + 1, a))
            ob.hyps.append(lagrange(k + 1, b))
    ux, uy, vx, vy = z3.Reals('ux uy vx vy')
    sess.add('lemma/lagrange-identity', 'spec', 'lemma', [], (ux * vx + uy * vy) * (ux * vx + uy * vy) + (ux * vy - vx * uy) * (ux * vy - vx * uy)
             == (ux * ux + uy * uy) * (vx * vx + vy * vy))
    sess.absorb(ctx, replay=replay09('pit'))
    # canary: a vertex exactly at the tolerance counts as within
    x = z3.Real('x')
    sess.canary('at-the-tolerance-is-within', [x >= 0], z3.Implies(x * x == tol * tol, x * x < tol * tol))


def sym_points(p, n, as_lists=True):
    xs = [z3.Real(f'x{i}') for i in range(n)]
    ys = [z3.Real(f'y{i}') for i in range(n)]
    refs = [p.alloc(HList([VFloat(xs[i]), VFloat(ys[i])]), 'list') for i in range(n)]
    return xs, ys, refs


class PitContract:
    """call-site contract of points_in_tolerance on a concrete-length list: len >= 3 required; result == conjunction over the interior"""
    def apply(self, ex, p, args, kwargs, node):
        pts, tol = args
        from pyvc import seqops
        res = list(seqops.iterate(ex, p, pts, node))
        if len(res) != 1 or isinstance(res[0][1], Raised):
            raise EngineError('points_in_tolerance on a non-concrete list')
        items = res[0][1]
        if len(items) < 3:
            ex.oblige(p, 'callee-requires', False, 'points_in_tolerance-needs-at-least-3-points')
            yield p, Raised('AssertionError', node=node)
            return

        def xy(v):
            it = list(seqops.iterate(ex, p, v, node))[0][1]
            return it[0].z(), it[1].z()
        a, b = xy(items[0]), xy(items[-1])
        t = tol.z() if hasattr(tol, 'z') else z3.RealVal(tol)
        conj = [d2(*xy(v), a[0], a[1], b[0], b[1]) < t * t for v in items[1:-1]]
        yield p, VBool(z3.And(*conj) if len(conj) > 1 else conj[0])


def check_supersample(sess, max_len):
    total_paths = 0
    for n in range(0, max_len + 1):
        for tolkind in ('positive', 'nonpositive'):
            ctx = sess.new_ctx()
            ctx.contracts[f'{MOD}.points_in_tolerance'] = PitContract()
            ctx.opts['unroll_limit'] = 40
            ctx.opts['prune_timeout_ms'] = 3000
            ex = Exec(ctx)
            p = Path()
            tol = z3.Real('tolerance')
            p.assume(tol > 0 if tolkind == 'positive' else tol <= 0)
            xs, ys, refs = sym_points(p, n)
            lst = p.alloc(HList(list(refs)), 'list')
            outs = list(ex.run_function(p, MOD, 'supersample', [lst, VFloat(tol)]))
            tag = f'supersample[n={n},tol-{tolkind}]'
            for q, out in outs:
                if not no_raise(ex, q, out, tag):
                    continue
                total_paths += 1
                final = q.heap[lst.ref].items
                idx = []
                ok_ids = True
                for v in final:
                    if isinstance(v, VRef) and v.ref in [r.ref for r in refs]:
                        idx.append([r.ref for r in refs].index(v.ref))
                    else:
                        ok_ids = False
                oblige_at(ex, q, tag, 'ensures', ok_ids and all(a < b for a, b in zip(idx, idx[1:])), 'result-is-an-in-order-subsequence-of-the-same-vertex-objects')
                if not ok_ids:
                    continue
                if n <= 2 or tolkind == 'nonpositive':
                    oblige_at(ex, q, tag, 'ensures', idx == list(range(n)), 'left-unchanged')
                    continue
                oblige_at(ex, q, tag, 'ensures', bool(idx) and idx[0] == 0 and idx[-1] == n - 1, 'first-and-last-vertex-kept')
                for a, b in zip(idx, idx[1:]):
                    for jdel in range(a + 1, b):
                        oblige_at(ex, q, tag, 'ensures', d2(xs[jdel], ys[jdel], xs[a], ys[a], xs[b], ys[b]) < tol * tol,
                                  f'deleted-vertex-{jdel}-is-within-tolerance-of-segment-{a}-{b}')
                # vertices are not moved
                same = all(q.heap[r.ref].items[0].z().eq(xs[i]) and q.heap[r.ref].items[1].z().eq(ys[i]) for i, r in enumerate(refs))
                oblige_at(ex, q, tag, 'ensures', same, 'vertex-coordinates-untouched')
            sess.absorb(ctx, replay=replay09('supersample'))
    return total_paths



# ------------------------------------------------------------------------------ supersample for lists of UNKNOWN length
# W(j, a, b): original vertex j is strictly within the tolerance of the straight segment from original vertex a to original vertex b.
# It is a NAME for  d2(P_j, P_a, P_b) < tol^2  (definitional): the loop proof below never needs its arithmetic content, and
# points_in_tolerance -- proved above for any length -- is used through exactly this statement.
WITHIN = z3.Function('within_tolerance_of_segment', z3.IntSort(), z3.IntSort(), z3.IntSort(), z3.BoolSort())


class HSubseq:
    """state of the vertex list while supersample edits it: current length L and  f: current index -> ORIGINAL index;
    the element at current index i is the original vertex object number f(i)"""
    def __init__(self, L, f):
        self.L, self.f = L, f

    def copy(self):
        return HSubseq(self.L, self.f)


def clip(t, L):
    return z3.If(t < 0, z3.If(t + L < 0, 0, t + L), z3.If(t > L, L, t))


class VVertList(Val):
    """the list handed to supersample.  Supported: len, slice read (a view), slice assignment of [] (deletion).  Anything else is an
    engine limit -- so whatever the code does, the list always consists of original vertex objects in some arrangement f."""
    pytype = 'list'

    def __init__(self, ref):
        self.ref = ref

    def length(self, ex, p):
        return VInt(p.heap[self.ref].L)

    def _bounds(self, p, lo, hi):
        from pyvc.engine import to_int_val
        st = p.heap[self.ref]
        a = z3.IntVal(0) if lo is None or isinstance(lo, VNone) else clip(to_int_val(lo).z(), st.L)
        b = st.L if hi is None or isinstance(hi, VNone) else clip(to_int_val(hi).z(), st.L)
        return st, z3.simplify(a), z3.simplify(b)

    def getslice(self, ex, p, lo, hi, node=None):
        st, a, b = self._bounds(p, lo, hi)
        yield p, VVertView(a, b, st.f)

    def setslice(self, ex, p, lo, hi, v, node=None):
        if not (isinstance(v, VRef) and isinstance(p.heap.get(v.ref), HList) and not p.heap[v.ref].items):
            raise EngineError('slice assignment of something other than [] to the vertex list')
        st, a, b = self._bounds(p, lo, hi)
        cnt = z3.If(b > a, b - a, 0)
        old = st.f
        st.f = (lambda i, _o=old, _a=a, _c=cnt: _o(z3.If(i < _a, i, i + _c)))
        st.L = z3.simplify(st.L - cnt)
        yield p, NORMAL


class VVertView(Val):
    """vertices[a:b] (already clipped), a snapshot"""
    pytype = 'list'

    def __init__(self, a, b, f):
        self.a, self.b, self.f = a, b, f

    def length(self, ex, p):
        return VInt(z3.If(self.b > self.a, self.b - self.a, 0))


class PitAbs:
    """points_in_tolerance(view, tol) at its call site in supersample (contract proved in check_pit_unbounded for any length):
       requires len(view) >= 3 (else AssertionError);  result r:  r  <=>  every interior element is WITHIN the chord first-last.
       Instances of the quantified right-hand side are added at the current-index terms in p.ghost['pit_inst']; for not r a skolem witness."""
    def apply(self, ex, p, args, kwargs, node):
        pts, tol = args
        if not isinstance(pts, VVertView):
            raise EngineError('points_in_tolerance on something that is not a slice of the vertex list')
        if not (hasattr(tol, 'z') and tol.z().eq(p.ghost['tol'])):
            ex.oblige(p, 'callee-requires', False, 'points_in_tolerance-is-called-with-the-caller\'s-tolerance')
        a, b, f = pts.a, pts.b, pts.f
        for q, r in ex.raise_unless(p, b - a >= 3, 'AssertionError', node):
            if r is not None:
                yield q, r
                continue
            res = z3.Bool(fresh_name('pit'))
            for k in q.ghost.get('pit_inst', []):
                q.assume(z3.Implies(z3.And(res, a < k, k < b - 1), WITHIN(f(k), f(a), f(b - 1))))
            k0 = z3.Int(fresh_name('offender'))
            q.assume(z3.Implies(z3.Not(res), z3.And(a < k0, k0 < b - 1, z3.Not(WITHIN(f(k0), f(a), f(b - 1))))))
            q.ghost['last_pit'] = (res, a, b)
            yield q, VBool(res)


class OuterSS(LoopSpec):
    """while start_index < len(vertices) - 2.   Invariant over (s, L, f), skolems i1, i2, w in p.ghost['sk']:
         0 <= s <= L, 2 <= L <= n;  f(0) == 0, f(L-1) == n-1;  tail untouched: i >= s => f(i) == i + n - L;
         prefix increasing: i < s => 0 <= f(i) < f(i+1) and f(i) < f(s);  deleted within: i < s and f(i) < w < f(i+1) => WITHIN(w, f(i), f(i+1))"""
    modifies = frozenset({'start_index'})

    def state(self, p):
        v = p.env.get('vertices')
        if not isinstance(v, VVertList):
            return None
        return p.heap[v.ref]

    def inv(self, p, s, L, f):
        i1, i2, w = p.ghost['sk']
        n = p.ghost['n']
        return [('0<=start<=len,2<=len<=n', z3.And(s >= 0, s <= L, L >= 2, L <= n)),
                ('first-vertex-kept', f(z3.IntVal(0)) == 0),
                ('last-vertex-kept', f(L - 1) == n - 1),
                ('tail-not-yet-touched', z3.Implies(z3.And(i2 >= s, i2 < L), f(i2) == i2 + n - L)),
                ('prefix-strictly-increasing', z3.Implies(z3.And(i1 >= 0, i1 < s), z3.And(f(i1) >= 0, f(i1) < f(i1 + 1)))),
                ('prefix-lies-before-the-tail', z3.And(*[z3.Implies(z3.And(j >= 0, j < s), f(j) < s + n - L) for j in (i1, i1 + 1)])),
                ('every-deleted-vertex-within-tolerance-of-its-surviving-segment',
                 z3.Implies(z3.And(i1 >= 0, i1 < s, f(i1) < w, w < f(i1 + 1)), WITHIN(w, f(i1), f(i1 + 1))))]

    def establish(self, ex, p):
        st = self.state(p)
        s = p.env.get('start_index')
        if st is None or not isinstance(s, VInt):
            return [('loop-state-is-(start_index:int,vertices)', z3.BoolVal(False))]
        return [(f'outer:{n}', g) for n, g in self.inv(p, s.z(), st.L, st.f)]

    def head(self, ex, p):
        st = self.state(p)
        n = p.ghost['n']
        s = z3.Int(fresh_name('start_index'))
        L = z3.Int(fresh_name('len_now'))
        Fh = z3.Function(fresh_name('orig_index_at_head'), z3.IntSort(), z3.IntSort())
        p.env['start_index'] = VInt(s)
        st.L = L
        st.f = (lambda i, _s=s, _L=L: z3.If(i >= _s, i + n - _L, Fh(i)))
        p.ghost['outer_head'] = (s, L)
        _, _, w = p.ghost['sk']
        p.ghost['pit_inst'] = [w - (n - L)]           # the current index of the witness vertex while it is in the untouched tail
        for _, g in self.inv(p, s, L, st.f):
            p.assume(g)

    def preserve(self, ex, p):
        st = self.state(p)
        s = p.env.get('start_index')
        if st is None or not isinstance(s, VInt):
            return [('loop-state-is-(start_index:int,vertices)', z3.BoolVal(False))]
        s0, L0 = p.ghost['outer_head']
        obs = [(f'outer:{n}', g) for n, g in self.inv(p, s.z(), st.L, st.f)]
        obs.append(('outer:variant-len-2-start-decreases', z3.And(st.L - 2 - s.z() < L0 - 2 - s0, L0 - 2 - s0 > 0)))
        return obs


class InnerSS(LoopSpec):
    """while points_in_tolerance(vertices[s:e+1], tol) and e < len(vertices).   Invariant over e:
         s+2 <= e <= L;   e > s+2  =>  every k with s < k < e-1 is WITHIN the chord (s, e-1)   [instantiated at p.ghost['pit_inst']]"""
    modifies = frozenset({'end_index'})

    def inv(self, p, e):
        st = p.heap[p.env['vertices'].ref]
        s = p.env['start_index'].z()
        f = st.f
        out = [('start+2<=end<=len', z3.And(e >= s + 2, e <= st.L))]
        for k in p.ghost.get('pit_inst', []):
            out.append(('vertices-strictly-between-start-and-end-1-are-within-tolerance-of-that-chord',
                        z3.Implies(z3.And(e > s + 2, s < k, k < e - 1), WITHIN(f(k), f(s), f(e - 1)))))
        return out

    def ok(self, p):
        return isinstance(p.env.get('vertices'), VVertList) and isinstance(p.env.get('start_index'), VInt) and isinstance(p.env.get('end_index'), VInt)

    def establish(self, ex, p):
        if not self.ok(p):
            return [('loop-state-is-(start_index,end_index:int,vertices)', z3.BoolVal(False))]
        p.ghost['inner_len'] = p.heap[p.env['vertices'].ref].L
        return [(f'inner:{n}', g) for n, g in self.inv(p, p.env['end_index'].z())]

    def head(self, ex, p):
        e = z3.Int(fresh_name('end_index'))
        p.env['end_index'] = VInt(e)
        p.ghost['inner_head'] = e
        for _, g in self.inv(p, e):
            p.assume(g)

    def preserve(self, ex, p):
        if not self.ok(p):
            return [('loop-state-is-(start_index,end_index:int,vertices)', z3.BoolVal(False))]
        st = p.heap[p.env['vertices'].ref]
        e0 = p.ghost['inner_head']
        same = st.L is p.ghost['inner_len'] or z3.is_true(z3.simplify(st.L == p.ghost['inner_len']))
        obs = [(f'inner:{n}', g) for n, g in self.inv(p, p.env['end_index'].z())]
        obs.append(('inner:the-list-is-not-edited-while-the-end-advances', z3.BoolVal(bool(same))))
        obs.append(('inner:variant-len-end-decreases', z3.And(st.L - p.env['end_index'].z() < st.L - e0, st.L - e0 > 0)))
        return obs


def check_supersample_unbounded(sess):
    ctx = sess.new_ctx()
    ctx.contracts[f'{MOD}.points_in_tolerance'] = PitAbs()
    ctx.loop_specs[(f'{MOD}.supersample', 0)] = OuterSS()
    ctx.loop_specs[(f'{MOD}.supersample', 1)] = InnerSS()
    ex = Exec(ctx)
    p = Path()
    n, i1, i2, w = z3.Ints('n_vertices any_position any_tail_position any_vertex')
    tol = z3.Real('tolerance')
    p.assume(n >= 0)
    ident = (lambda i: i)
    ref = p.alloc(HSubseq(n, ident), 'vertices').ref
    p.ghost.update(n=n, tol=tol, sk=(i1, i2, w))
    outs = list(ex.run_function(p, MOD, 'supersample', [VVertList(ref), VFloat(tol)]))
    tag = 'supersample[any-length]'
    kinds = set()
    for q, out in outs:
        if not no_raise(ex, q, out, tag):
            continue
        oblige_at(ex, q, tag, 'ensures', isinstance(out.val, VNone), 'returns-None(edits-in-place)')
        st = q.heap[ref]
        L, f = st.L, st.f
        through_loop = any(t.startswith('loop0') for t in q.trail)
        if not through_loop:
            kinds.add('unchanged')
            oblige_at(ex, q, tag, 'ensures', z3.Or(n <= 2, tol <= 0), 'returns-early-only-for-short-lists-or-non-positive-tolerance')
            oblige_at(ex, q, tag, 'ensures', bool(st.f is ident and st.L is n), 'short-list-or-non-positive-tolerance:left-unchanged')
            continue
        kinds.add('edited')
        oblige_at(ex, q, tag, 'ensures', z3.And(n > 2, tol > 0), 'edits-only-longer-lists-with-positive-tolerance')
        oblige_at(ex, q, tag, 'ensures', z3.And(L >= 2, L <= n, f(z3.IntVal(0)) == 0, f(L - 1) == n - 1), 'first-and-last-vertex-kept')
        oblige_at(ex, q, tag, 'ensures', z3.Implies(z3.And(i1 >= 0, i1 < L - 1), z3.And(f(i1) >= 0, f(i1) < f(i1 + 1), f(i1 + 1) <= n - 1)),
                  'result-is-an-in-order-subsequence-of-the-same-vertex-objects')
        oblige_at(ex, q, tag, 'ensures', z3.Implies(z3.And(i1 >= 0, i1 < L - 1, f(i1) < w, w < f(i1 + 1)), WITHIN(w, f(i1), f(i1 + 1))),
                  'every-deleted-vertex-is-within-tolerance-of-the-surviving-segment-around-it')
        sess.cover(f'supersample[any-length]/exit-path-{len(kinds)}-reachable', list(q.pc))
    if kinds != {'unchanged', 'edited'}:
        raise EngineError(f'supersample: result kinds reached {kinds}')
    sess.absorb(ctx, replay=replay09('supersample'))
    # canary: the claim fails if "within" were demanded of the segment between the ORIGINAL neighbours instead of the surviving ones
    sess.canary('deleted-vertex-within-tolerance-of-its-original-neighbours', [n >= 3, w >= 1, w < n - 1, WITHIN(w, 0, n - 1)], WITHIN(w, w - 1, w + 1))


class DistContract:
    """call-site contract of ffgeom.Segment.distanceToPoint(p): r >= 0 and r^2 == d2(p, e0, e1)  (proved of the real body below)"""
    def apply(self, ex, p, args, kwargs, node):
        seg, pt = args
        e = coords_of_segment(ex, p, seg)
        c = coords_of_point(ex, p, pt)
        from pyvc.engine import fresh_name
        r = z3.Real(fresh_name('dist'))
        p.assume(z3.And(r >= 0, r * r == d2(c[0], c[1], e[0], e[1], e[2], e[3])))
        yield p, VFloat(r)


def coords_of_point(ex, p, pt):
    h = p.heap[pt.ref]
    lst = [v for k, v in h.fields.items() if k.endswith('coordinates')][0]
    it = p.heap[lst.ref].items
    return it[0].z(), it[1].z()


def coords_of_segment(ex, p, seg):
    h = p.heap[seg.ref]
    lst = [v for k, v in h.fields.items() if k.endswith('endpoints')][0]
    e0, e1 = p.heap[lst.ref].items
    return coords_of_point(ex, p, e0) + coords_of_point(ex, p, e1)


def check_distance_to_point(sess):
    """the dependency ink_extensions.ffgeom.Segment.distanceToPoint (read from site-packages) against its contract"""
    FF = 'ink_extensions.ffgeom'
    ctx = sess.new_ctx()
    ctx.opts['inline_all'] = True
    ctx.opts['prune_timeout_ms'] = 3000
    ex = Exec(ctx)
    p = Path()
    px, py, ax, ay, bx, by = z3.Reals('px py ax ay bx by')
    from pyvc.values import HObj

    def point(x, y):
        lst = p.alloc(HList([VFloat(x), VFloat(y)]), 'list')
        return p.alloc(HObj(f'{FF}.Point', {'__coordinates': lst}), 'Point')
    e0, e1, pt = point(ax, ay), point(bx, by), point(px, py)
    seg = p.alloc(HObj(f'{FF}.Segment', {'__endpoints': p.alloc(HList([e0, e1]), 'list')}), 'Segment')
    outs = list(ex.run_function(p, FF, 'Segment.distanceToPoint', [seg, pt]))
    tag = 'ffgeom.Segment.distanceToPoint'
    n = 0
    for q, out in outs:
        if not no_raise(ex, q, out, tag):
            continue
        r = out.val
        if not isinstance(r, VFloat):
            oblige_at(ex, q, tag, 'ensures', False, 'returns-a-number(not-NaN)')
            continue
        oblige_at(ex, q, tag, 'ensures', r.z() >= 0, 'distance>=0')
        # staged (assert-then-assume): which of the three regions of d2 this return path is in, the value in that region without the
        # division, then the contract clause from those two facts -- each step is easy and reproducible for nlsat, whereas the
        # un-staged clause took 25 s (of a 30 s budget) on the perpendicular path
        dx, dy = bx - ax, by - ay
        L2 = dx * dx + dy * dy
        tt = (px - ax) * dx + (py - ay) * dy
        cr = (px - ax) * dy - dx * (py - ay)
        rz = r.z()
        regions = [('before-the-first-end', tt <= 0, rz * rz == (px - ax) * (px - ax) + (py - ay) * (py - ay)),
                   ('beyond-the-second-end', z3.And(tt > 0, tt >= L2), rz * rz == (px - bx) * (px - bx) + (py - by) * (py - by)),
                   ('beside-the-segment', z3.And(tt > 0, tt < L2), z3.And(L2 > 0, rz * rz * L2 == cr * cr))]
        staged = []
        for nm, reg, val in regions:
            sv = z3.Solver()
            sv.set('timeout', 3000)
            sv.add(*q.pc)
            sv.add(z3.Not(reg))
            if sv.check() == z3.unsat:
                oblige_at(ex, q, tag, 'lemma', reg, f'this-return-path-is-the-region-{nm}')
                q.pc.append(reg)
                oblige_at(ex, q, tag, 'lemma', val, f'value-in-the-region-{nm}')
                q.pc.append(val)
                staged = [reg, val]
                break
        oblige_at(ex, q, tag, 'ensures', rz * rz == d2(px, py, ax, ay, bx, by), 'distance^2==d2')
        if staged:
            del q.pc[-2:]
        n += 1
    if n < 3:
        raise EngineError(f'distanceToPoint: {n} returning paths (expected the three regions)')
    sess.absorb(ctx, replay=replay09('maxdist'))


def check_max_dist(sess, lengths, with_dependency=True):
    if with_dependency:
        check_distance_to_point(sess)
    # max of non-negative numbers commutes with squaring
    a, b = z3.Reals('a b')
    sess.add('lemma/max-commutes-with-squaring', 'spec', 'lemma', [a >= 0, b >= 0], z3.If(b > a, b, a) * z3.If(b > a, b, a) == z3.If(b * b > a * a, b * b, a * a))
    for n in lengths:
        ctx = sess.new_ctx()
        ctx.opts['inline_all'] = True        # ffgeom.Point / Segment constructors and item access run inline
        ctx.contracts['ink_extensions.ffgeom.Segment.distanceToPoint'] = DistContract()
        ctx.opts['prune_timeout_ms'] = 3000
        ex = Exec(ctx)
        p = Path()
        xs, ys, refs = sym_points(p, n)
        lst = p.alloc(HList(list(refs)), 'list')
        outs = list(ex.run_function(p, MOD, 'max_dist_from_n_points', [lst]))
        tag = f'max_dist_from_n_points[n={n}]'
        ds = [d2(xs[i], ys[i], xs[0], ys[0], xs[n - 1], ys[n - 1]) for i in range(1, n - 1)]
        tol = z3.Real('tolerance')
        pit = z3.And(*[d < tol * tol for d in ds])
        for q, out in outs:
            if not no_raise(ex, q, out, tag):
                continue
            r = out.val
            if not isinstance(r, VFloat):
                oblige_at(ex, q, tag, 'ensures', False, 'returns-a-number')
                continue
            rz = r.z()
            oblige_at(ex, q, tag, 'ensures', rz >= 0, 'result>=0')
            oblige_at(ex, q, tag, 'ensures', z3.And(*[rz * rz >= d for d in ds]), 'result^2>=every-squared-distance')
            oblige_at(ex, q, tag, 'ensures', z3.Or(*[rz * rz == d for d in ds]), 'result^2-is-one-of-the-squared-distances')
            ob = ex.oblige(q, 'relational', pit == (rz < tol), 'agrees-with-points_in_tolerance',
                           extra_hyps=[tol > 0, rz >= 0, z3.And(*[rz * rz >= d for d in ds]), z3.Or(*[rz * rz == d for d in ds])])
            ob.func = tag
        sess.absorb(ctx, replay=replay09('maxdist'))



# ------------------------------------------------------------------------------ max_dist_from_n_points for lists of UNKNOWN length
DISTF = z3.Function('distance_point_to_segment', *([z3.RealSort()] * 7))


class DistFn:
    """call-site contract of ffgeom.Segment.distanceToPoint (proved of the real body in check_distance_to_point), as a FUNCTION of the
    six coordinates: r = DISTF(p, e0, e1) with r >= 0 and r^2 == d2(p, e0, e1)"""
    def apply(self, ex, p, args, kwargs, node):
        seg, pt = args
        e = coords_of_segment(ex, p, seg)
        c = coords_of_point(ex, p, pt)
        r = DISTF(c[0], c[1], e[0], e[1], e[2], e[3])
        p.assume(z3.And(r >= 0, r * r == d2(c[0], c[1], e[0], e[1], e[2], e[3])))
        yield p, VFloat(r)


class HMapState:
    def __init__(self, lo, hi):
        self.lo, self.hi = lo, hi

    def copy(self):
        return HMapState(self.lo, self.hi)


class VMapSeq(Val):
    """[elt(x) for x in base]: element k is the comprehension's element expression evaluated on base[k] (on demand: the expression must be
    pure); a window lo..hi of it is live (pop(0) / pop() shrink the window)."""
    pytype = 'list'

    def __init__(self, ref, comp, base_elem):
        self.ref, self.comp, self.base_elem = ref, comp, base_elem

    def elem_at(self, ex, p, t, node):
        gen = self.comp.generators[0]
        saved = {n: p.env.get(n) for n in _names(gen.target)}
        n_pc = len(p.pc)
        res = list(ex.assign(p, gen.target, self.base_elem(ex, p, t, node)))
        if len(res) != 1 or res[0][1] is not NORMAL:
            raise EngineError('comprehension target does not match the element shape')
        r = list(ex.ev(self.comp.elt, p))
        if len(r) != 1 or isinstance(r[0][1], Raised) or r[0][0] is not p:
            raise EngineError('comprehension element expression forks / raises: not modelled on abstract sequences')
        for n, v in saved.items():
            if v is None:
                p.env.pop(n, None)
            else:
                p.env[n] = v
        return r[0][1]

    def length(self, ex, p):
        st = p.heap[self.ref]
        return VInt(z3.If(st.hi > st.lo, st.hi - st.lo, 0))

    def method(self, ex, p, name, args, kwargs, node):
        st = p.heap[self.ref]
        if name == 'pop' and (not args or (isinstance(args[0], VInt) and args[0].conc() and args[0].t == 0)):
            for q, r in ex.raise_unless(p, st.hi > st.lo, 'IndexError', node):
                if r is not None:
                    yield q, r
                    continue
                st2 = q.heap[self.ref]
                if args:
                    v = self.elem_at(ex, q, st2.lo, node)
                    st2.lo = z3.simplify(st2.lo + 1)
                else:
                    v = self.elem_at(ex, q, z3.simplify(st2.hi - 1), node)
                    st2.hi = z3.simplify(st2.hi - 1)
                yield q, v
            return
        raise EngineError(f'list method {name} on a mapped abstract sequence')

    def minmax(self, ex, p, which, node):
        """library contract of max()/min() on a non-empty list of numbers: the result is an element and bounds every element"""
        st = p.heap[self.ref]
        for q, r in ex.raise_unless(p, st.hi > st.lo, 'ValueError', node):
            if r is not None:
                yield q, r
                continue
            st2 = q.heap[self.ref]
            k0 = z3.Int(fresh_name(f'arg{which}'))
            q.assume(z3.And(k0 >= st2.lo, k0 < st2.hi))
            v0 = self.elem_at(ex, q, k0, node)
            if not isinstance(v0, VFloat):
                raise EngineError('max over non-float elements')
            q.ghost['argmax'] = k0
            for k in q.ghost.get('max_inst', []):
                vk = self.elem_at(ex, q, k, node)
                q.assume(z3.Implies(z3.And(k >= st2.lo, k < st2.hi), (v0.z() >= vk.z()) if which == 'max' else (v0.z() <= vk.z())))
            yield q, v0


def _names(t):
    import ast
    return [n.id for n in ast.walk(t) if isinstance(n, ast.Name)]


def maxdist_listcomp(ex, p, e, it):
    """comprehensions of max_dist_from_n_points over abstract sequences: a map, evaluated on demand"""
    if len(e.generators) != 1 or e.generators[0].ifs:
        return None
    if isinstance(it, VAbsSeq) and it.elem is not None:
        ref = p.alloc(HMapState(z3.IntVal(0), it.n), 'mapped').ref
        return VMapSeq(ref, e, lambda ex_, p_, t, node, _it=it: _it.elem(t)[0])
    if isinstance(it, VMapSeq):
        st = p.heap[it.ref]
        ref = p.alloc(HMapState(st.lo, st.hi), 'mapped').ref
        return VMapSeq(ref, e, lambda ex_, p_, t, node, _it=it: _it.elem_at(ex_, p_, t, node))
    return None


def check_max_dist_unbounded(sess):
    ctx = sess.new_ctx()
    ctx.opts['inline_all'] = True
    ctx.contracts['ink_extensions.ffgeom.Segment.distanceToPoint'] = DistFn()
    ctx.opts['listcomp_hook'] = maxdist_listcomp
    ctx.opts['prune_timeout_ms'] = 3000
    ex = Exec(ctx)
    p = Path()
    n, j = z3.Ints('n_points jstar')
    tol = z3.Real('tolerance')
    p.assume(n >= 0)
    p.ghost['max_inst'] = [j]
    seq = VAbsSeq(n, lambda tag: pt_at(z3.Int(tag)), elem=pt_at, name='input_points')
    dsq = lambda i: d2(PX(i), PY(i), PX(0), PY(0), PX(n - 1), PY(n - 1))
    outs = list(ex.run_function(p, MOD, 'max_dist_from_n_points', [seq]))
    tag = 'max_dist_from_n_points[any-length]'
    got = 0
    for q, out in outs:
        if isinstance(out, Raised) and out.cls == 'AssertionError':
            oblige_at(ex, q, tag, 'ensures', n < 3, 'asserts-only-for-fewer-than-3-points')
            continue
        if not no_raise(ex, q, out, tag):
            continue
        r = out.val
        if not isinstance(r, VFloat):
            oblige_at(ex, q, tag, 'ensures', False, 'returns-a-number')
            continue
        got += 1
        rz = r.z()
        k0 = q.ghost.get('argmax')
        interior = lambda k: z3.And(k >= 1, k < n - 1)
        # hint (lemma below): the distance does not depend on the order of the segment's ends
        dsw = lambda i: d2(PX(i), PY(i), PX(n - 1), PY(n - 1), PX(0), PY(0))
        q.pc.append(dsw(j) == dsq(j))
        if k0 is not None:
            q.pc.append(dsw(k0) == dsq(k0))
        oblige_at(ex, q, tag, 'ensures', rz >= 0, 'result>=0')
        oblige_at(ex, q, tag, 'ensures', z3.Implies(interior(j), rz * rz >= dsq(j)), 'result^2>=squared-distance-of-every-interior-point')
        oblige_at(ex, q, tag, 'ensures', z3.And(interior(k0), rz * rz == dsq(k0)) if k0 is not None else False, 'result^2-is-the-squared-distance-of-some-interior-point')
        # agreement with points_in_tolerance (whose contract -- result <=> every interior point has d2 < tol^2 -- is proved above)
        post = [rz >= 0, z3.Implies(interior(j), rz * rz >= dsq(j)), z3.And(interior(k0), rz * rz == dsq(k0))] if k0 is not None else [z3.BoolVal(False)]
        ob = ex.oblige(q, 'relational', rz < tol, 'points_in_tolerance=>max_dist<tolerance', extra_hyps=post + [tol > 0, dsq(k0) < tol * tol])
        ob.func = tag
        ob = ex.oblige(q, 'relational', z3.Implies(interior(j), dsq(j) < tol * tol), 'max_dist<tolerance=>points_in_tolerance', extra_hyps=post + [tol > 0, rz < tol])
        ob.func = tag
        # satisfiability witness of the path condition (a concrete triangle makes the non-linear part trivial for the solver)
        sess.cover(f'max_dist_from_n_points[any-length]/exit-path-{got}-reachable',
                   list(q.pc) + [n == 3, PX(0) == 0, PY(0) == 0, PX(1) == 1, PY(1) == 1, PX(2) == 2, PY(2) == 0, j == 1])
    if got == 0:
        raise EngineError('max_dist_from_n_points: no returning path')
    sess.absorb(ctx, replay=replay09('maxdist'))
    px, py, ax, ay, bx, by = z3.Reals('px py ax ay bx by')
    sess.add('lemma/distance-to-a-segment-is-symmetric-in-its-ends', 'spec', 'lemma', [], d2(px, py, ax, ay, bx, by) == d2(px, py, bx, by, ax, ay))


def build(sess):
    sess.level = 'proof'
    sess.trust(
        'pyvc symbolic executor and its model of the Python subset; abstract indexed sequence for the point list of points_in_tolerance and '
        'max_dist_from_n_points; abstract editable vertex list for supersample (len, slice read, slice deletion; anything else is an engine limit)',
        'floats are modelled as reals; math.sqrt is the exact non-negative root',
        'z3 nlsat / cvc5 (QF_NRA; QF_UFLIA for the supersample loop proof)',
        'ink_extensions.ffgeom (dependency) is read from site-packages: Point/Segment constructors run inline, distanceToPoint is proved against '
        'its contract and used through it',
        'library contracts: max() of a non-empty list returns an element that bounds every element; a list comprehension without filter maps '
        'element k to the element expression evaluated on base[k] (expression must be pure: checked)',
    )
    check_pit_unbounded(sess)
    check_supersample_unbounded(sess)
    check_distance_to_point(sess)
    check_max_dist_unbounded(sess)
    # supplementary, per length, on concrete heap lists (object identity of the vertices, coordinates untouched, real list semantics)
    max_len = 4 if sess.tier == 'quick' else 7
    paths = check_supersample(sess, max_len)
    check_max_dist(sess, (3,) if sess.tier == 'quick' else (3, 4, 5), with_dependency=False)
    sess.bounded.append({'function': 'plot_utils.supersample (supplementary to the any-length proof)', 'bound': f'vertex lists of length 0..{max_len} as concrete heap lists; coordinates and tolerance fully symbolic',
                         'evaluations': paths, 'distinct_nontrivial': paths,
                         'rule': 'complete symbolic unrolling per list length: one evaluation = one feasible execution path, each checked by SMT for ALL coordinates'})
    sess.explanation = ('PROVED for any number of points: points_in_tolerance <=> every interior point is strictly within the tolerance of the '
                        'chord (loop invariant over an abstract sequence, three distance regions against the spec d2, dead zero-length exit); '
                        'supersample on a vertex list of UNKNOWN length (two nested loop invariants over the arrangement f: current index -> original '
                        'index; points_in_tolerance used through its contract): only deletes, in-order subsequence of the same objects, first and '
                        'last kept, every deleted vertex within tolerance of the surviving segment around it, short lists / non-positive tolerance '
                        'unchanged, both loops terminate (variants); max_dist_from_n_points for any length (map comprehensions on demand, max() '
                        'contract, distanceToPoint contract proved of the dependency) and its agreement with points_in_tolerance. '
                        f'Additionally per length 0..{max_len} on concrete heap lists.')


def fallback(sess):
    out = []
    for what in ('pit', 'supersample', 'maxdist'):
        r = native('n_c09', 'search', {'what': what})
        r['what'] = f'n_c09.search[{what}]'
        out.append(r)
    return out
