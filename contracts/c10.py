"""C10 -- plot_utils.subdivideCubicPath refines the same curve until every piece is flat (partial correctness over the reals).

The node list is an ABSTRACT sequence of unknown length (six coordinate functions of the node index, updated
functionally by the real code's handle stores and its slice insertion).  Ghost per piece k (between node k-1 and k): the original
piece o(k) it comes from and the parameter interval [u(k), v(k)].  Loop invariant (both loops), proved pointwise:
   (I2) control points of piece k == restrict(original piece o(k), u(k), v(k))          0 <= u(k) < v(k) <= 1
   (I1) consecutive pieces tile: (same original, u(k+1) == v(k)) or (next original, v(k) == 1, u(k+1) == 0); ends at 0 and 1
   (I3) every piece before the cursor i is flat (contract of points_in_tolerance, C09)
   (I4) frame: s_p[0][0] and s_p[-1][2] never change; nodes before i-1 are untouched by an iteration
   (Imid) every split is at the midpoint of its interval (=> all intervals are dyadic, by induction on the number of splits)
The dependency bezmisc.beziersplitatt is read from site-packages, executed inline, and proved to return
restrict(b,0,1/2), restrict(b,1/2,1).  TERMINATION IS NOT DECIDED (DESIGN C10): partial correctness only.
"""
import z3

from pyvc.harness import no_raise, oblige_at
from pyvc.engine import Ret, Raised, EngineError, Exec, Path, LoopSpec, fresh_name, NORMAL
from pyvc.values import Val, VInt, VFloat, VTuple, VNone, VBool, NONE, VRef, HList
from pyvc.session import native
from .c09 import PitContract, d2

MOD = 'plotink.plot_utils'
FIELDS = ('h0x', 'h0y', 'px', 'py', 'h1x', 'h1y')
RS, IS = z3.RealSort(), z3.IntSort()
ORIG = {f: z3.Function('orig_' + f, IS, RS) for f in FIELDS}
HALF = z3.RealVal('1/2')


# ------------------------------------------------------------------------------ geometry spec
def blossom(b, t1, t2, t3):
    l = lambda a, c, t: a + t * (c - a)
    p01, p12, p23 = l(b[0], b[1], t1), l(b[1], b[2], t1), l(b[2], b[3], t1)
    q0, q1 = l(p01, p12, t2), l(p12, p23, t2)
    return l(q0, q1, t3)


def restrict(b, u, v):
    """control points of the cubic b restricted to [u, v]"""
    return [blossom(b, u, u, u), blossom(b, u, u, v), blossom(b, u, v, v), blossom(b, v, v, v)]


def orig_piece(m, axis):
    s = 'x' if axis == 0 else 'y'
    return [ORIG['p' + s](m - 1), ORIG['h1' + s](m - 1), ORIG['h0' + s](m), ORIG['p' + s](m)]


# ------------------------------------------------------------------------------ abstract node list
class HNodes:
    def __init__(self, n, f):
        self.n = n
        self.f = dict(f)

    def copy(self):
        return HNodes(self.n, self.f)

    def ctrl(self, k, axis):
        s = 'x' if axis == 0 else 'y'
        return [self.f['p' + s](k - 1), self.f['h1' + s](k - 1), self.f['h0' + s](k), self.f['p' + s](k)]


class VNodeSeq(Val):
    pytype = 'list'

    def __init__(self, ref):
        self.ref = ref

    def st(self, p):
        return p.heap[self.ref]

    def length(self, ex, p):
        return VInt(self.st(p).n)

    def getitem(self, ex, p, idx, node=None):
        from pyvc.engine import to_int_val
        idx = to_int_val(idx)
        t = idx.z()
        n = self.st(p).n
        for q, r in ex.raise_unless(p, z3.And(t >= -n, t < n), 'IndexError', node):
            if r is not None:
                yield q, r
            elif not ex.feasible(q, t < 0):
                yield q, VNodeRef(self, z3.simplify(t))        # non-negative index on this path: no wrap-around
            else:
                yield q, VNodeRef(self, z3.simplify(z3.If(t < 0, t + n, t)))

    def setslice(self, ex, p, lo, hi, v, node=None):
        """s_p[a:b] = [node]  -- Python: a slice whose stop lies before its start is empty and located at start"""
        from pyvc.engine import to_int_val
        lo, hi = to_int_val(lo), to_int_val(hi)
        st = self.st(p)
        a, b = lo.z(), hi.z()
        items = p.heap[v.ref].items if isinstance(v, VRef) and isinstance(p.heap[v.ref], HList) else None
        if items is None or len(items) != 1:
            raise EngineError('slice store on the node list: right-hand side is not a one-element list')
        # the insertion model needs: 0 <= a <= n and normalised stop <= a  (then exactly one node is inserted at a)
        stop = z3.If(b < 0, z3.If(b + st.n < 0, 0, b + st.n), z3.If(b > st.n, st.n, b))
        ex.oblige(p, 'ensures', z3.And(a >= 0, a <= st.n, stop <= a), 'slice-store-is-a-pure-insertion(stop<=start<=len)')
        p.assume(z3.And(a >= 0, a <= st.n, stop <= a))
        new = point_triple(ex, p, items[0])
        f2 = {}
        for name, val in zip(FIELDS, new):
            old = st.f[name]
            f2[name] = (lambda k, _o=old, _a=a, _v=val: z3.If(k < _a, _o(k), z3.If(k == _a, _v, _o(k - 1))))
        st.f = f2
        st.n = st.n + 1
        p.ghost['inserted_at'] = a
        yield p, NORMAL


class VNodeRef(Val):
    pytype = 'list'

    def __init__(self, seq, idx):
        self.seq, self.idx = seq, idx

    def getitem(self, ex, p, j, node=None):
        if not (isinstance(j, VInt) and j.conc() and 0 <= j.t <= 2):
            raise EngineError('node[j] with j outside 0..2')
        f = self.seq.st(p).f
        nm = ('h0', 'p', 'h1')[j.t]
        yield p, VTuple([VFloat(f[nm + 'x'](self.idx)), VFloat(f[nm + 'y'](self.idx))])

    def setitem(self, ex, p, j, v, node=None):
        if not (isinstance(j, VInt) and j.conc() and 0 <= j.t <= 2):
            raise EngineError('node[j] = ... with j outside 0..2')
        x, y = point_xy(ex, p, v)
        st = self.seq.st(p)
        nm = ('h0', 'p', 'h1')[j.t]
        for s, val in (('x', x), ('y', y)):
            old = st.f[nm + s]
            st.f[nm + s] = (lambda k, _o=old, _i=self.idx, _v=val: z3.If(k == _i, _v, _o(k)))
        p.ghost['stores'] = p.ghost.get('stores', []) + [(nm, self.idx)]
        yield p, NORMAL


def point_xy(ex, p, v):
    from pyvc import seqops
    it = list(seqops.iterate(ex, p, v, None))[0][1]
    if len(it) != 2:
        raise EngineError('a point must have two coordinates')
    return it[0].z(), it[1].z()


def point_triple(ex, p, v):
    from pyvc import seqops
    pts = list(seqops.iterate(ex, p, v, None))[0][1]
    if len(pts) != 3:
        raise EngineError('a node must have three points')
    out = []
    for q in pts:
        out.extend(point_xy(ex, p, q))
    return out


# ------------------------------------------------------------------------------ invariant
class Ghost:
    """piece ghosts as functions of the piece index"""
    def __init__(self, o, u, v):
        self.o, self.u, self.v = o, u, v

    @staticmethod
    def fresh(tag):
        return Ghost(z3.Function(fresh_name(f'o_{tag}'), IS, IS), z3.Function(fresh_name(f'u_{tag}'), IS, RS), z3.Function(fresh_name(f'v_{tag}'), IS, RS))


def inv_piece(st, g, k):
    cs = []
    for axis in (0, 1):
        want = restrict(orig_piece(g.o(k), axis), g.u(k), g.v(k))
        cs += [a == b for a, b in zip(st.ctrl(k, axis), want)]
    cs += [g.u(k) >= 0, g.u(k) < g.v(k), g.v(k) <= 1]
    return z3.And(*cs)


def tiling(st, g, k):
    return z3.Or(z3.And(g.o(k + 1) == g.o(k), g.u(k + 1) == g.v(k)),
                 z3.And(g.o(k + 1) == g.o(k) + 1, g.v(k) == 1, g.u(k + 1) == 0))


def flat_piece(st, k, flat):
    c = [st.ctrl(k, 0), st.ctrl(k, 1)]
    a = (c[0][0], c[1][0])
    b = (c[0][3], c[1][3])
    return z3.And(*[d2(c[0][m], c[1][m], a[0], a[1], b[0], b[1]) < flat * flat for m in (1, 2)])


def full_inv(st, g, i, i0, n0, flat, at):
    """instances of the invariant at the piece indices in `at`"""
    cs = [st.n >= 1, i >= i0, i0 >= 1]
    for k in at:
        rng = z3.And(k >= i0, k < st.n)
        cs.append(z3.Implies(rng, inv_piece(st, g, k)))
        cs.append(z3.Implies(z3.And(rng, k + 1 < st.n), tiling(st, g, k)))
        cs.append(z3.Implies(z3.And(rng, k < i), flat_piece(st, k, flat)))
    cs.append(z3.Implies(i0 < st.n, z3.And(g.o(i0) == i0, g.u(i0) == 0, g.o(st.n - 1) == n0 - 1, g.v(st.n - 1) == 1)))
    return cs


def int_feasible(p, cond):
    """satisfiability of cond with the INTEGER-ONLY part of the path condition (index reasoning); dropping the real-valued
    conjuncts only makes more things look feasible, i.e. fewer Ifs get resolved -- never an unsound rewrite"""
    from .c03 import has_real
    key = id(p)
    s = z3.Solver()
    s.set('timeout', 2000)
    for c in p.pc:
        if not has_real(c):
            s.add(c)
    s.add(cond)
    return s.check() != z3.unsat


def resolve_ifs(ex, p, extra, term, cache=None):
    """replace every If(c, a, b) whose condition is decided by the path condition + extra by the branch taken (sound rewriting)"""
    cache = {} if cache is None else cache
    key = term.get_id()
    if key in cache:
        return cache[key]
    if z3.is_app(term) and term.decl().kind() == z3.Z3_OP_ITE:
        c, a, b = term.children()
        c = resolve_ifs(ex, p, extra, c, cache)
        if not int_feasible(p, z3.And(*extra, z3.Not(c))):
            out = resolve_ifs(ex, p, extra, a, cache)
        elif not int_feasible(p, z3.And(*extra, c)):
            out = resolve_ifs(ex, p, extra, b, cache)
        else:
            out = z3.If(c, resolve_ifs(ex, p, extra, a, cache), resolve_ifs(ex, p, extra, b, cache))
    elif z3.is_app(term) and term.num_args() > 0:
        kids = [resolve_ifs(ex, p, extra, k, cache) for k in term.children()]
        if all(k.eq(o) for k, o in zip(kids, term.children())):
            out = term
        else:
            out = term.decl()(*kids)
    else:
        out = term
    cache[key] = out
    return out


class SubdivLoop(LoopSpec):
    def __init__(self, which):
        self.which = which

    def establish(self, ex, p):
        G = p.ghost
        st = p.heap[G['seq'].ref]
        j, i0, n0, flat = G['jstar'], G['i0'], G['n0'], G['flat']
        i = p.env['i'].z()
        if 'g' not in G:
            # first entry: the untouched list is an instance with o(k) = k, [u, v] = [0, 1]
            g = Ghost(lambda k: k, lambda k: z3.RealVal(0), lambda k: z3.RealVal(1))
        else:
            g = G['g']      # the inner loop is entered from the state of the enclosing head: same ghosts
        cs = full_inv(st, g, i, i0, n0, flat, [j])
        cs.append(z3.And(st.f['h0x'](0) == ORIG['h0x'](0), st.f['h0y'](0) == ORIG['h0y'](0),
                         st.f['h1x'](st.n - 1) == ORIG['h1x'](n0 - 1), st.f['h1y'](st.n - 1) == ORIG['h1y'](n0 - 1)))
        return [(f'{self.which}-invariant-holds-on-entry#{k}', c) for k, c in enumerate(cs)]

    def head(self, ex, p):
        G = p.ghost
        seq = G['seq']
        n = z3.Int(fresh_name('n_nodes'))
        i = z3.Int(fresh_name('cursor_i'))
        f = {name: z3.Function(fresh_name('cur_' + name), IS, RS) for name in FIELDS}
        st = HNodes(n, {k: (lambda t, _f=v: _f(t)) for k, v in f.items()})
        p.heap[seq.ref] = st
        p.env['i'] = VInt(i)
        for nm in ('p_0', 'p_1', 'p_2', 'p_3', 'b_list', 'one', 'two', 'p_list'):
            p.env.pop(nm, None)
        g = Ghost.fresh(self.which)
        G['g'], G['i_head'], G['st_head'] = g, i, st.copy()
        j = G['jstar']
        for c in full_inv(st, g, i, G['i0'], G['n0'], G['flat'], [i, i - 1, i + 1, j, j + 1, j - 1]):
            p.assume(c)
        # frame facts carried by the invariant
        p.assume(z3.And(st.f['h0x'](0) == ORIG['h0x'](0), st.f['h0y'](0) == ORIG['h0y'](0),
                        st.f['h1x'](n - 1) == ORIG['h1x'](G['n0'] - 1), st.f['h1y'](n - 1) == ORIG['h1y'](G['n0'] - 1)))
        p.ghost['stores'] = []
        p.ghost.pop('inserted_at', None)

    def preserve(self, ex, p):
        G = p.ghost
        st = p.heap[G['seq'].ref]
        g, i0, n0, flat, j = G['g'], G['i0'], G['n0'], G['flat'], G['jstar']
        i_old, st_old = G['i_head'], G['st_head']
        i_new = p.env['i'].z()
        obs = []
        ins = G.get('inserted_at')
        if ins is None:
            # inner loop iteration: nothing stored, cursor advanced by one over a flat piece
            obs.append(('no-store-in-a-scan-iteration', z3.BoolVal(not G.get('stores'))))
            obs.append(('cursor-advances-by-one', i_new == i_old + 1))
            obs.append(('scanned-piece-is-flat', flat_piece(st, i_old, flat)))
            return obs
        # outer loop iteration: piece i was split at its midpoint, a node inserted at i
        mid = (g.u(i_old) + g.v(i_old)) / 2
        g2 = Ghost(lambda k: z3.If(k <= i_old, g.o(k), g.o(k - 1)),
                   lambda k: z3.If(k < i_old, g.u(k), z3.If(k == i_old, g.u(i_old), z3.If(k == i_old + 1, mid, g.u(k - 1)))),
                   lambda k: z3.If(k < i_old, g.v(k), z3.If(k == i_old, mid, z3.If(k == i_old + 1, g.v(i_old), g.v(k - 1)))))
        obs.append(('insertion-at-the-cursor', ins == i_old))
        # progress (termination argument, DESIGN C10): a piece is split only when it is NOT flat -- together with the lemmas
        # T1-T4 of check_termination_lemmas this bounds the width of every piece from below
        obs.append(('only-a-non-flat-piece-is-split', z3.Not(flat_piece(st_old, i_old, flat))))
        obs.append(('cursor-stays-on-the-first-half', i_new == i_old))
        obs.append(('length-grows-by-one', st.n == st_old.n + 1))
        obs.append(('first-half==restriction-to-[u,mid]', inv_piece(st, g2, i_old)))
        obs.append(('second-half==restriction-to-[mid,v]', inv_piece(st, g2, i_old + 1)))
        obs.append(('halves-tile', z3.And(tiling(st, g2, i_old), z3.Implies(i_old + 2 < st.n, tiling(st, g2, i_old + 1)),
                                          z3.Implies(i_old - 1 >= i0, tiling(st, g2, i_old - 1)))))
        # every other piece: unchanged (before the split) or shifted by one (after it), pointwise at j*
        before = z3.And(j >= i0, j < i_old)
        after = z3.And(j > i_old + 1, j < st.n)
        # (the functional updates are nests of If over the node index: they are resolved under the case assumption first, so that
        #  the new-state instance becomes literally the old-state instance the invariant provided at j* resp. j*-1)
        g_b = z3.And(inv_piece(st, g2, j), flat_piece(st, j, flat))
        obs.append(('pieces-before-the-split-unchanged', z3.Implies(before, resolve_ifs(ex, p, [before], g_b))))
        obs.append(('pieces-before-the-split-still-tile', z3.Implies(z3.And(before, j + 1 < i_old), resolve_ifs(ex, p, [before, j + 1 < i_old], tiling(st, g2, j)))))
        g_a = inv_piece(st, g2, j)
        obs.append(('pieces-after-the-split-shifted', z3.Implies(after, resolve_ifs(ex, p, [after], g_a))))
        obs.append(('pieces-after-the-split-still-tile', z3.Implies(z3.And(after, j + 1 < st.n), resolve_ifs(ex, p, [after, j + 1 < st.n], tiling(st, g2, j)))))
        obs.append(('ends-stay-at-0-and-1', z3.And(g2.o(i0) == i0, g2.u(i0) == 0, g2.o(st.n - 1) == n0 - 1, g2.v(st.n - 1) == 1)))
        obs.append(('outer-handles-untouched', z3.And(st.f['h0x'](0) == ORIG['h0x'](0), st.f['h0y'](0) == ORIG['h0y'](0),
                                                      st.f['h1x'](st.n - 1) == ORIG['h1x'](n0 - 1), st.f['h1y'](st.n - 1) == ORIG['h1y'](n0 - 1))))
        obs.append(('nodes-before-the-piece-untouched', z3.Implies(z3.And(j >= 0, j < i_old - 1),
                                                                   z3.And(*[st.f[nm](j) == st_old.f[nm](j) for nm in FIELDS]))))
        return obs


def replay10(model, ob):
    out = native('n_c10', 'search', {})
    return {'native_input': out.get('input'), 'confirmed': bool(out.get('found')), 'observed': out.get('observed'),
            'expected': out.get('expected'), 'summary': f"subdivideCubicPath{out.get('input')} -> {out.get('observed')} expected {out.get('expected')}"}


def check_split(sess):
    """dependency: bezmisc.beziersplitatt(b, 0.5) == (restrict(b,0,1/2), restrict(b,1/2,1))"""
    BZ = 'ink_extensions.bezmisc'
    ctx = sess.new_ctx()
    ctx.opts['inline_all'] = True
    ex = Exec(ctx)
    p = Path()
    bx = [z3.Real(f'bx{k}') for k in range(4)]
    by = [z3.Real(f'by{k}') for k in range(4)]
    b = VTuple([VTuple([VFloat(bx[k]), VFloat(by[k])]) for k in range(4)])
    for q, out in ex.run_function(p, BZ, 'beziersplitatt', [b, VFloat(HALF)]):
        tag = 'bezmisc.beziersplitatt'
        if not no_raise(ex, q, out, tag):
            continue
        r = out.val
        ok = isinstance(r, VTuple) and len(r.items) == 2 and all(isinstance(x, VTuple) and len(x.items) == 4 for x in r.items)
        if not ok:
            oblige_at(ex, q, tag, 'ensures', False, 'returns-two-quadruples-of-points')
            continue
        for h, (u, v) in enumerate(((z3.RealVal(0), HALF), (HALF, z3.RealVal(1)))):
            for axis, bb in ((0, bx), (1, by)):
                want = restrict(bb, u, v)
                got = [pt.items[axis].z() for pt in r.items[h].items]
                oblige_at(ex, q, tag, 'ensures', z3.And(*[a == c for a, c in zip(got, want)]), f'half{h}-axis{axis}==restrict')
    sess.absorb(ctx, replay=replay10)
    sess.canary('split-at-one-third', [bx[0] != bx[1]], restrict(bx, z3.RealVal(0), HALF)[1] == restrict(bx, z3.RealVal(0), z3.RealVal('1/3'))[1])
    # restriction composes: restrict(restrict(b,u,v),0,1/2) == restrict(b,u,(u+v)/2)  (and the second half)
    u, v = z3.Reals('u v')
    for h, (a, c) in enumerate(((z3.RealVal(0), HALF), (HALF, z3.RealVal(1)))):
        inner = restrict(restrict(bx, u, v), a, c)
        lo = u if h == 0 else (u + v) / 2
        hi = (u + v) / 2 if h == 0 else v
        sess.add(f'lemma/restrict-composes[half{h}]', 'spec', 'lemma', [], z3.And(*[x == y for x, y in zip(inner, restrict(bx, lo, hi))]))


def check_subdivide(sess):
    ctx = sess.new_ctx()
    ctx.opts['inline_all'] = False
    ctx.inline.add('ink_extensions.bezmisc.beziersplitatt')
    ctx.inline.add('ink_extensions.bezmisc.tpoint')
    ctx.contracts[f'{MOD}.points_in_tolerance'] = PitContract()
    ctx.loop_specs[(f'{MOD}.subdivideCubicPath', 0)] = SubdivLoop('outer')
    ctx.loop_specs[(f'{MOD}.subdivideCubicPath', 1)] = SubdivLoop('inner')
    ctx.opts['prune_timeout_ms'] = 3000
    ex = Exec(ctx)
    p = Path()
    n0, i0, j = z3.Ints('n_original i_start jstar')
    flat = z3.Real('flat')
    p.assume(z3.And(n0 >= 1, i0 >= 1, flat > 0))
    st0 = HNodes(n0, {k: (lambda t, _f=v: _f(t)) for k, v in ORIG.items()})
    ref = p.alloc(st0, 'list').ref
    seq = VNodeSeq(ref)
    p.ghost.update(seq=seq, i0=i0, n0=n0, flat=flat, jstar=j)
    # establish: the initial state is an instance of the invariant with o(k)=k, u=0, v=1 (restrict(b,0,1) == b)
    bx = [z3.Real(f'bx{k}') for k in range(4)]
    sess.add('establish/restrict(b,0,1)==b', 'spec', 'lemma', [], z3.And(*[a == b for a, b in zip(restrict(bx, z3.RealVal(0), z3.RealVal(1)), bx)]))
    outs = list(ex.run_function(p, MOD, 'subdivideCubicPath', [seq, VFloat(flat), VInt(i0)]))
    tag = 'subdivideCubicPath'
    n_ret = 0
    for q, out in outs:
        if not no_raise(ex, q, out, tag):
            continue
        n_ret += 1
        if 'g' not in q.ghost:
            continue
        st, g = q.heap[ref], q.ghost['g']
        ih = q.ghost['i_head']
        rng = z3.And(j >= i0, j < st.n)
        oblige_at(ex, q, tag, 'ensures', ih >= st.n, 'returns-only-when-the-cursor-passed-the-last-piece')
        oblige_at(ex, q, tag, 'ensures', z3.Implies(rng, flat_piece(st, j, flat)), 'every-piece-is-flat')
        oblige_at(ex, q, tag, 'ensures', z3.Implies(rng, inv_piece(st, g, j)), 'every-piece-is-a-restriction-of-its-original-piece')
        oblige_at(ex, q, tag, 'ensures', z3.Implies(z3.And(rng, j + 1 < st.n), tiling(st, g, j)), 'pieces-tile-the-original-curve')
    if n_ret == 0:
        raise EngineError('subdivideCubicPath: no returning path')
    sess.absorb(ctx, replay=replay10)


def check_termination_lemmas(sess):
    """Termination over the reals, reduced to a counting step (DESIGN C10).  Lemmas over the spec functions `restrict` and the flatness
    predicate of the points_in_tolerance contract (both tied to the real code by check_split / check_pit_unbounded / the loop invariant):
      T1  second differences of restrict(b,u,v) = (v-u)^2 * (convex combination of the second differences of b)
      T2  hence bounded by (v-u)^2 * m when those of b are bounded by m
      T3  distance to a segment <= distance to any point of the segment; the inner control points sit within sqrt(2)*m of the
          points at 1/3 and 2/3 of the chord  =>  second differences below flat/sqrt(2) make the piece flat
      T4  with omega in (0,1], 32*omega^4*m^2 <= flat^2: a piece of width < 2*omega is flat
    With the loop obligation `only-a-non-flat-piece-is-split` every split piece has width >= 2*omega, so every piece ever present has
    width >= omega; the pieces tile [0,1] per original piece (I1), so at most n0/omega pieces exist, each iteration either adds a piece or
    advances the cursor: at most 2*n0/omega iterations.  The last (counting) step is NOT mechanised."""
    b = z3.Reals('tb0 tb1 tb2 tb3')
    u, v, m, flat, om = z3.Reals('tu tv tm tflat tomega')
    D0, D1 = b[0] - 2 * b[1] + b[2], b[1] - 2 * b[2] + b[3]
    r = restrict(b, u, v)
    w2 = (v - u) * (v - u)
    R0, R1 = r[0] - 2 * r[1] + r[2], r[1] - 2 * r[2] + r[3]
    sess.add('termination/T1-second-differences-of-restrict', 'spec', 'lemma', [],
             z3.And(R0 == w2 * ((1 - u) * D0 + u * D1), R1 == w2 * ((1 - v) * D0 + v * D1)))
    ab = lambda e, bound: z3.And(e <= bound, -bound <= e)
    dom = [u >= 0, u < v, v <= 1, m >= 0, ab(D0, m), ab(D1, m)]
    c0, c1 = z3.Reals('tc0 tc1')
    # staged: the convex combinations are bounded by m (linear in D0, D1 for fixed u: stated with the combination as a fresh symbol)
    sess.add('termination/T2a-convex-combination-bounded', 'spec', 'lemma', dom + [c0 == (1 - u) * D0 + u * D1, c1 == (1 - v) * D0 + v * D1],
             z3.And(ab(c0, m), ab(c1, m)))
    w = z3.Real('tw2')
    sess.add('termination/T2b-scaled-bound', 'spec', 'lemma', [w >= 0, m >= 0, ab(c0, m)], ab(w * c0, w * m))
    sess.cover('termination/T2-domain', dom + [m > 0])
    # T3: geometry
    px, py, ax, ay, bx, by, s_ = z3.Reals('tpx tpy tax tay tbx tby ts')
    qx, qy = ax + s_ * (bx - ax), ay + s_ * (by - ay)
    sess.add('termination/T3a-segment-distance-is-minimal', 'spec', 'lemma', [s_ >= 0, s_ <= 1],
             d2(px, py, ax, ay, bx, by) <= (px - qx) * (px - qx) + (py - qy) * (py - qy))
    P = [z3.Reals(f'tx{k} ty{k}') for k in range(4)]
    X, Y = [q[0] for q in P], [q[1] for q in P]
    Dx0, Dx1 = X[0] - 2 * X[1] + X[2], X[1] - 2 * X[2] + X[3]
    Dy0, Dy1 = Y[0] - 2 * Y[1] + Y[2], Y[1] - 2 * Y[2] + Y[3]
    hy = [m >= 0, ab(Dx0, m), ab(Dx1, m), ab(Dy0, m), ab(Dy1, m)]
    e1 = (X[1] - (2 * X[0] + X[3]) / 3, Y[1] - (2 * Y[0] + Y[3]) / 3)
    e2 = (X[2] - (X[0] + 2 * X[3]) / 3, Y[2] - (Y[0] + 2 * Y[3]) / 3)
    sess.add('termination/T3b-inner-control-points-near-the-chord', 'spec', 'lemma', hy,
             z3.And(e1[0] * e1[0] + e1[1] * e1[1] <= 2 * m * m, e2[0] * e2[0] + e2[1] * e2[1] <= 2 * m * m))
    # T3c: chain (instances of T3a at s = 1/3, 2/3 and T3b as hypotheses; the d2 terms generalised to fresh reals: only weakens)
    dd1, dd2, ee1, ee2 = z3.Reals('td1 td2 te1 te2')
    sess.add('termination/T3c-small-second-differences=>flat', 'spec', 'lemma',
             [dd1 <= ee1, dd2 <= ee2, ee1 <= 2 * m * m, ee2 <= 2 * m * m, 2 * m * m < flat * flat], z3.And(dd1 < flat * flat, dd2 < flat * flat))
    # T4: narrow pieces are flat.  bound of the piece's second differences: mm = w2*m (T2); claim 2*mm^2 < flat^2
    sess.add('termination/T4-narrow-piece-is-flat', 'spec', 'lemma',
             [u >= 0, u < v, v <= 1, m >= 0, flat > 0, om > 0, om <= 1, 32 * om * om * om * om * m * m <= flat * flat, v - u < 2 * om],
             2 * (w2 * m) * (w2 * m) < flat * flat)
    sess.cover('termination/T4-domain', [u >= 0, u < v, v <= 1, m > 0, flat > 0, om > 0, om <= 1, 32 * om * om * om * om * m * m <= flat * flat, v - u < 2 * om])
    sess.canary('termination/width-threshold-is-sharp', [u >= 0, u < v, v <= 1, m >= 0, flat > 0, om > 0, om <= 1, 32 * om * om * om * om * m * m <= flat * flat, v - u < 3 * om],
                2 * (w2 * m) * (w2 * m) < flat * flat)


def build(sess):
    sess.level = 'other'
    sess.trust(
        'pyvc symbolic executor and its model of the Python subset; abstract node list (coordinate functions of the index, functional '
        'updates for item stores and the one-node slice insertion, Python slice-clipping rule)',
        'floats are modelled as reals',
        'contract of points_in_tolerance (proved in C09) used modularly; bezmisc.beziersplitatt / tpoint read from site-packages, inline',
        'z3 nlsat (polynomial identities of the blossom / restriction)',
        'TERMINATION NOT DECIDED: lemmas T1-T4 and the loop obligation only-a-non-flat-piece-is-split are discharged (every piece ever present has width >= omega); the counting step (at most n0/omega pieces, hence at most 2*n0/omega iterations), the existence of the bound m over all original pieces, and binary64 are not mechanised',
    )
    check_split(sess)
    check_subdivide(sess)
    check_termination_lemmas(sess)
    # the flatness predicate the invariant leans on is re-verified here against the contract used above (same obligations as C09):
    # a change inside points_in_tolerance is then a failed obligation of THIS property too, not only a bounded finding
    from .c09 import check_pit_unbounded
    check_pit_unbounded(sess)
    r = native('n_c10', 'search', {'seed': sess.seed})
    sess.bounded.append({'function': 'plot_utils.subdivideCubicPath (termination + end-to-end cross-check)', 'bound': r.get('bound'),
                         'evaluations': r.get('tried', 0), 'distinct_nontrivial': r.get('distinct', 0),
                         'rule': 'seeded random / degenerate cubic node lists run natively with a growth cap; non-trivial = at least one split happened'})
    if r.get('found'):
        sess.native_violations.append({'obligation': 'C10/bounded/terminates-and-agrees-with-the-exact-oracle', 'native_input': r.get('input'),
                                       'observed': r.get('observed'), 'expected': r.get('expected'), 'summary': f"{r.get('input')} -> {r.get('observed')}"})
    sess.explanation = ('PROVED (partial correctness, node lists of any length, any subdivision depth): loop invariant I1-I4 + midpoint '
                        'splits (and: only a non-flat piece is split), established / preserved / used at return: every piece is the restriction of its original piece to '
                        '[u,v], pieces tile, every piece flat, outer handles untouched. Termination lemmas T1-T4 discharged. NOT DECIDED: termination (counting step, binary64). BOUNDED (labelled): '
                        'termination and the end-to-end result on seeded curves against an exact-rational oracle.')


def fallback(sess):
    r = native('n_c10', 'search', {})
    r['what'] = 'n_c10.search'
    return [r]
