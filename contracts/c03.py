"""C03 -- ebb_calc.calculate_lm: step-limited (LM) move duration.   HYBRID (DESIGN section 6, C03).

PROVED (obligations from the real source):
  O1  requests that cannot move (steps == 0; rate == accel == 0; steps < 0 with rate < 0) return (0, 0, 0)
  O2  the legacy negative-step form mirrors the move: the state after the prologue of (steps, rate, accel) with steps < 0 <= rate is
      the state after the prologue of (-steps, -rate, -accel); the remainder of the body is deterministic in that state
  O3  on EVERY path, whatever duration T and position P the root selection produced (they are havoc'd: sqrt / ceil of inexact
      values return arbitrary numbers), the reported accumulator is  S_T - 2^31 * P  with S_T the C01 closed form for the same
      start accumulator (same clear rule): "feeding the reported duration to the timed-move predictor reproduces position and
      accumulator" <=> the reported accumulator lies in [0, 2^31)
  O4a for CONSTANT-RATE moves (accel == 0) the full statement: the duration is the first tick at which the steps taken reach the budget
      (minimality included), the position is the recurrence's position at that tick, the accumulator lies in [0, 2^31)
  W   moveTimeLM(rate, steps, accel) == calculate_lm(steps, rate, accel, "clear")[0]   (modular)
BOUNDED (never counted as proved):
  O4b for ACCELERATED moves: T is the FIRST tick at which the steps taken reach the budget, P the net position there: run-time check of the real function
      against the tick-by-tick recurrence on exhaustive small scopes, boundary-directed and seeded random moves (native/n_c03.py);
      disagreements are attributed to the frozen regions KF-C03-1..3 (known findings) or reported as violations.
"""
import ast
import z3

from pyvc.harness import run, no_raise, oblige_at
from pyvc.engine import Ret, Raised, EngineError, Exec, Path, Frame, fresh_name, NORMAL
from pyvc.values import VInt, VFloat, VMpf, VTuple, VNone
from pyvc.strings import S
from pyvc import front
from pyvc.session import native
from . import specs
from .specs import M

MOD = 'plotink.ebb_calc'


def replay_lm(model, ob):
    def g(n, d=0):
        try:
            return int(model.get(n, d))
        except (TypeError, ValueError):
            return d
    kind = ob.info.get('accum_kind', 'int')
    inp = [g('steps', 1), g('rate'), g('accel'), ('clear' if kind == 'clear' else g('accum', 0))]
    out = native('n_c03', 'replay', {'input': inp})
    return {'native_input': {'input': inp}, 'confirmed': bool(out.get('fails')) and not out.get('kf'), 'observed': out.get('observed'),
            'expected': out.get('expected'), 'summary': f'calculate_lm{tuple(inp)} -> {out.get("observed")} expected {out.get("expected")}'}


def free_vars(e):
    out, seen, stack = set(), set(), [e]
    while stack:
        t = stack.pop()
        if t.get_id() in seen:
            continue
        seen.add(t.get_id())
        if z3.is_const(t) and t.decl().kind() == z3.Z3_OP_UNINTERPRETED:
            out.add(t.decl().name())
        stack.extend(t.children())
    return out


def has_real(e):
    seen, stack = set(), [e]
    while stack:
        t = stack.pop()
        if t.get_id() in seen:
            continue
        seen.add(t.get_id())
        if z3.is_real(t):
            return True
        stack.extend(t.children())
    return False


def check_trivial(sess):
    steps, rate, accel, accum = z3.Ints('steps rate accel accum')
    cases = [('steps==0', [steps == 0]), ('rate==accel==0', [rate == 0, accel == 0]), ('steps<0-and-rate<0', [steps < 0, rate < 0])]
    for label, req in cases:
        for kind, acc in (('int', VInt(accum)), ('clear', S('clear'))):
            ctx = sess.new_ctx()
            ctx.opts['mpf_checks'] = False
            ex, outs = run(ctx, MOD, 'calculate_lm', [VInt(steps), VInt(rate), VInt(accel), acc], requires=req)
            tag = f'calculate_lm[{label},{kind}]'
            for q, out in outs:
                if not no_raise(ex, q, out, tag):
                    continue
                r = out.val
                ok = isinstance(r, VTuple) and len(r.items) == 3 and all(isinstance(x, VInt) and x.conc() and x.t == 0 for x in r.items)
                oblige_at(ex, q, tag, 'ensures', ok, 'cannot-move=>(0,0,0)')
            for ob in ctx.obligations:
                ob.info['accum_kind'] = kind
            sess.absorb(ctx, replay=replay_lm)


def prologue_index(fn):
    for i, st in enumerate(fn.body):
        if isinstance(st, ast.Assign) and any(isinstance(t, ast.Attribute) and t.attr == 'dps' for t in st.targets):
            return i
    raise EngineError('calculate_lm: the statement setting mpmath.mp.dps was not found (prologue boundary)')


def check_mirror(sess):
    """O2: relational, on the real prologue (the statements before `mpmath.mp.dps = 30`)"""
    ctx = sess.new_ctx()
    fn = front.load(MOD).func('calculate_lm')
    ctx.note_function(MOD, 'calculate_lm')
    k = prologue_index(fn)
    steps, rate, accel, accum = z3.Ints('steps rate accel accum')
    req = [steps < 0, rate >= 0, z3.Not(z3.And(rate == 0, accel == 0))]

    def prefix(args):
        ex = Exec(ctx)
        p = Path()
        for r in req:
            p.assume(r)
        ex.bind_args(p, fn, args, {}, MOD, 'calculate_lm')
        outs = list(ex.exec_block(fn.body[:k], p))
        return ex, outs
    exA, A = prefix([VInt(steps), VInt(rate), VInt(accel), VInt(accum)])
    exB, B = prefix([VInt(-steps), VInt(-rate), VInt(-accel), VInt(accum)])
    n = 0
    for qa, oa in A:
        for qb, ob_ in B:
            hyps = list(qa.pc) + list(qb.pc)
            if oa is not NORMAL or ob_ is not NORMAL:
                sess.add(f'calculate_lm/mirror/no-early-exit#{n}', 'calculate_lm', 'relational', hyps, z3.BoolVal(False), replay=replay_lm)
                n += 1
                continue
            goals = []
            for nm in ('steps', 'rate', 'accel', 'accum'):
                va, vb = qa.env.get(nm), qb.env.get(nm)
                goals.append(va.z() == vb.z() if isinstance(va, VInt) and isinstance(vb, VInt) else z3.BoolVal(False))
            same_names = set(qa.env) == set(qb.env)
            sess.add(f'calculate_lm/mirror/state-after-prologue-equals-mirrored-call#{n}', 'calculate_lm', 'relational', hyps,
                     z3.And(z3.BoolVal(same_names), *goals), replay=replay_lm)
            n += 1
    if n == 0:
        raise EngineError('mirror: no prologue path')
    sess.stats['paths'] += len(A) + len(B)
    sess.functions.update(ctx.functions)
    sess.assumptions |= ctx.assumptions
    # canary: without mirroring the rate the states differ
    sess.canary('mirror-without-negating-rate', req + [rate > 0], -rate == rate)


def check_accumulator(sess, accum_kind):
    """O3"""
    ctx = sess.new_ctx()
    ctx.opts['mpf_checks'] = False
    ctx.opts['mpf_inexact'] = 'real'
    ctx.opts['prune_timeout_ms'] = 400
    steps, rate, accel = z3.Ints('steps rate accel')
    req = [steps != 0, z3.Not(z3.And(rate == 0, accel == 0)), z3.Not(z3.And(steps < 0, rate < 0))]
    if accum_kind == 'int':
        accum = z3.Int('accum')
        acc_arg = VInt(accum)
    else:
        acc_arg = S('clear')
    fresh_T = []

    def toint_hook(ex, p, v, mode):
        # inexact value (a root, a general quotient): the integer it is rounded to is havoc'd -- O3 must hold for every T
        t = z3.Int(fresh_name(f'havoc_{mode}'))
        hh = z3.Int(fresh_name('half'))
        p.assume(t * (t + 1) == 2 * hh)        # every integer satisfies this (lemma T(T+1)-even below)
        fresh_T.append(t)
        return VInt(t)

    def sqrt_hook(ex, p, v, node):
        s = z3.Real(fresh_name('sqrt'))
        p.assume(s >= 0)
        yield p, VMpf(None, 1, t=s, err=None)
    ctx.opts['mpf_toint_hook'] = toint_hook
    ctx.opts['mpf_sqrt_hook'] = sqrt_hook

    def setup(ex, p):
        p.ghost['mp_dps'] = VInt(z3.Int('mp_dps0'))
    ex, outs = run(ctx, MOD, 'calculate_lm', [VInt(steps), VInt(rate), VInt(accel), acc_arg], requires=req, setup=setup)
    T = z3.Int('T')
    wit = z3.If(T % 2 == 0, (T / 2) * (T + 1), T * ((T + 1) / 2))
    sess.add(f'lemma/T(T+1)-even[{accum_kind}]', 'spec', 'lemma', [], T * (T + 1) == 2 * wit)
    # mirrored parameters of the move
    neg = steps < 0
    rate_m = z3.If(neg, -rate, rate)
    accel_m = z3.If(neg, -accel, accel)
    a0 = accum if accum_kind == 'int' else specs.lt_clear_a0(rate_m, accel_m)
    n = 0
    tag = f'calculate_lm[{accum_kind}]'
    for q, out in outs:
        if not no_raise(ex, q, out, tag):
            continue
        r = out.val
        if not (isinstance(r, VTuple) and len(r.items) == 3 and all(isinstance(x, VInt) for x in r.items)):
            oblige_at(ex, q, tag, 'result-shape', False, '(int,int,int)')
            continue
        dur, pos, acc = [x.z() for x in r.items]
        # when dur is a constant (the fallback 0) the evenness hint is trivial
        hyps = []
        if z3.is_int_value(z3.simplify(dur)):
            pass
        goal = 2 * (acc + M * pos) == specs.lt_S2(rate_m, accel_m, dur, a0)
        ob = ex.oblige(q, 'ensures', goal,
                       'reported-accumulator==S_T-2^31*position(closed-form-of-the-recurrence-at-the-reported-duration)')
        ob.func = tag
        # the claim does not depend on how the roots compared: keep only the hypotheses over the inputs, the reported
        # duration/position and their evenness hints (dropping hypotheses only strengthens the obligation)
        allowed = free_vars(goal) | {'steps', 'rate', 'accel', 'accum'}
        keep = []
        for c_ in q.pc:
            fv = free_vars(c_)
            if has_real(c_):
                continue        # comparisons among the (real-valued) roots: irrelevant to the accumulator identity
            if fv <= allowed or (len(fv - allowed) == 1 and any(v.startswith('half!') for v in fv - allowed) and (fv & allowed)):
                keep.append(c_)
        ob.hyps = keep
        n += 1
    if n == 0:
        raise EngineError('calculate_lm: no returning path')
    for ob in ctx.obligations:
        ob.info['accum_kind'] = accum_kind
    sess.absorb(ctx, replay=replay_lm)
    return n


def check_constant_rate(sess, accum_kind):
    """O4a (PROOF): for accel == 0 the reported duration IS the first tick at which the steps taken reach the budget, the reported
    position is the recurrence's position there, and the accumulator lies in [0, 2^31).

    With a constant rate r' (after mirroring) S_t = a0 + r' t.  The body computes T = ceil(q), q = (2^31 * P - accum_adj) / r'.
    Model of that one mpmath step: T is the exact ceiling of the ideal quotient (lemma 'quotient-rounding' below: an integer
    quotient below 2^63 is computed exactly at 103 bits; a non-integer one is at least 1/|r'| >= 2^-32 from the nearest integer while
    the rounding error is at most 2^-40).  Everything else is obligations over the products r'*T (linear in them)."""
    ctx = sess.new_ctx()
    ctx.opts['mpf_checks'] = False
    ctx.opts['mpf_inexact'] = 'real'
    ctx.opts['track_float'] = True       # a binary64 quotient feeding the ceiling must be exact (obligation float-exact), cf. lemma below
    steps, rate, accel = z3.Ints('steps rate accel')
    req = [accel == 0, rate != 0, rate <= M - 1, rate >= -(M - 1), steps != 0, steps <= M, steps >= -M, z3.Not(z3.And(steps < 0, rate < 0))]
    if accum_kind == 'int':
        accum = z3.Int('accum')
        req += [accum >= 0, accum < M]
        acc_arg = VInt(accum)
    else:
        acc_arg = S('clear')
    info = {}

    def toint_hook(ex, p, v, mode):
        if mode != 'ceil' or v.rational():
            return None
        q = v.z()
        if not (z3.is_app(q) and q.decl().kind() == z3.Z3_OP_DIV):
            return None
        num, den = q.children()
        t = z3.Int(fresh_name('T_ceil'))
        # exact ceiling of num/den, stated without division
        p.assume(z3.If(den > 0, z3.And(den * (z3.ToReal(t) - 1) < num, num <= den * z3.ToReal(t)),
                       z3.And(den * (z3.ToReal(t) - 1) > num, num >= den * z3.ToReal(t))))
        p.ghost['ceil_T'] = t
        return VInt(t)
    ctx.opts['mpf_toint_hook'] = toint_hook
    ctx.opts['mpf_sqrt_hook'] = lambda ex, p, v, node: iter([(p, VMpf(None, 1, t=z3.Real(fresh_name('sqrt')), err=None))])

    def setup(ex, p):
        p.ghost['mp_dps'] = VInt(z3.Int('mp_dps0'))
    ex, outs = run(ctx, MOD, 'calculate_lm', [VInt(steps), VInt(rate), VInt(accel), acc_arg], requires=req, setup=setup)
    sess.cover(f'calculate_lm[constant-rate,{accum_kind}]/requires', req)
    neg = steps < 0
    r_m = z3.If(neg, -rate, rate)
    st_m = z3.If(neg, -steps, steps)
    a0 = accum if accum_kind == 'int' else specs.lt_clear_a0(r_m, z3.IntVal(0))
    tag = f'calculate_lm[constant-rate,{accum_kind}]'
    n = 0
    for q, out in outs:
        if not no_raise(ex, q, out, tag):
            continue
        r = out.val
        if not (isinstance(r, VTuple) and len(r.items) == 3 and all(isinstance(x, VInt) for x in r.items)):
            oblige_at(ex, q, tag, 'result-shape', False, '(int,int,int)')
            continue
        T, P, A = [x.z() for x in r.items]
        S_T = a0 + r_m * T
        S_prev = a0 + r_m * (T - 1)
        fl = lambda x: x / M            # z3 Int division by a positive constant is floor division
        zabs = lambda x: z3.If(x >= 0, x, -x)
        sess.cover(f'calculate_lm[constant-rate,{accum_kind}]/path#{q.sig()}', list(q.pc))
        oblige_at(ex, q, tag, 'ensures', T >= 1, 'duration>=1')
        oblige_at(ex, q, tag, 'ensures', fl(S_T) == P, 'reported-position==floor(S_T/2^31)')
        oblige_at(ex, q, tag, 'ensures', zabs(P) == st_m, 'steps-taken-at-T==budget')
        oblige_at(ex, q, tag, 'ensures', zabs(fl(S_prev)) < st_m, 'one-tick-earlier-the-budget-is-not-reached(minimality)')
        oblige_at(ex, q, tag, 'ensures', z3.And(A >= 0, A < M, A == S_T - M * P), 'accumulator==S_T-mod-2^31-in-[0,2^31)')
        n += 1
    if n == 0:
        raise EngineError('calculate_lm constant rate: no returning path')
    for ob in ctx.obligations:
        ob.info['accum_kind'] = accum_kind
    sess.absorb(ctx, replay=replay_lm)


def quotient_rounding_lemma(sess):
    """the 103-bit quotient does not move the ceiling (DESIGN C03, stage ii): N, r ints, 0 < |r| <= 2^32, |N| <= 2^63; qhat within
    2^-40 of N/r and equal to it when r divides N  =>  ceil(qhat) == ceil(N/r)"""
    N, r, n, rem = z3.Ints('N r n rem')
    qh = z3.Real('qhat')
    eps = z3.RealVal(1) / (2 ** 40)
    hyp = [r > 0, r <= 2 ** 32, N == n * r + rem, rem >= 0, rem < r,
           qh - (z3.ToReal(n) + z3.ToReal(rem) / z3.ToReal(r)) <= eps, (z3.ToReal(n) + z3.ToReal(rem) / z3.ToReal(r)) - qh <= eps,
           z3.Implies(rem == 0, qh == z3.ToReal(n))]
    ceil_true = z3.If(rem == 0, n, n + 1)
    sess.add('lemma/quotient-rounding-does-not-move-the-ceiling[r>0]', 'spec', 'lemma', hyp,
             z3.And(z3.ToReal(ceil_true) - 1 < qh, qh <= z3.ToReal(ceil_true)))
    sess.notes.append('O4a: "the 103-bit quotient of two integers below 2^63 is within 2^-40 of the exact quotient, and exact when the division is '
                      'exact" is the assumed mpmath contract (DESIGN 3.2); the lemma shows the ceiling is then the exact ceiling (negative r by symmetry)')


LM = [z3.Function(f'calculate_lm.{k}', z3.IntSort(), z3.IntSort(), z3.IntSort(), z3.IntSort()) for k in range(3)]


class LmContract:
    def apply(self, ex, p, args, kwargs, node):
        names = ['steps', 'rate', 'accel', 'accum']
        vals = dict(zip(names, args))
        vals.update(kwargs)
        acc = vals.get('accum')
        is_clear = acc is None or (hasattr(acc, 'is_lit') and acc.is_lit() and acc.lit() == 'clear')
        ex.oblige(p, 'callee-requires', is_clear, 'moveTimeLM-calls-calculate_lm-with-accum=="clear"')
        enc = [vals[n].z() for n in names[:3]]
        yield p, VTuple([VInt(f(*enc)) for f in LM])


def check_wrapper(sess):
    ctx = sess.new_ctx()
    ctx.contracts[f'{MOD}.calculate_lm'] = LmContract()
    rate, steps, accel = z3.Ints('rate steps accel')
    ex, outs = run(ctx, 'plotink.ebb_motion', 'moveTimeLM', [VInt(rate), VInt(steps), VInt(accel)])
    for q, out in outs:
        if not no_raise(ex, q, out, 'moveTimeLM'):
            continue
        r = out.val
        oblige_at(ex, q, 'moveTimeLM', 'ensures', (r.z() == LM[0](steps, rate, accel)) if isinstance(r, VInt) else False,
                  'duration-of-calculate_lm(steps,rate,accel,"clear")')
    sess.absorb(ctx, replay=lambda model, ob: {'confirmed': bool(native('n_c03', 'wrapper', {}).get('found')), 'summary': 'moveTimeLM vs calculate_lm'})


def check_bounded(sess):
    st = native('n_c03', 'witnesses', {})
    sess.known_status = {k: bool(st.get(k)) for k in ('KF-C03-1', 'KF-C03-2', 'KF-C03-3')}
    res = native('n_c03', 'bounded', {'tier': sess.tier, 'seed': sess.seed}, timeout=7200)
    sess.bounded.append({'function': 'ebb_calc.calculate_lm (O4: minimal duration / position at that tick)', 'bound': res['bound'],
                         'evaluations': res['evaluations'], 'distinct_nontrivial': res['distinct'],
                         'rule': 'real function vs tick-by-tick recurrence with step counting; distinct = branch signatures (moves, reverses, '
                                 'constant rate, legacy form, clear) reached with agreement', 'known_finding_hits': res['kf_counts'],
                         'known_finding_examples': res['kf_examples']})
    for u in res['unknown']:
        sess.native_violations.append({'obligation': 'C03/bounded/duration-is-the-first-tick-exhausting-the-budget', 'native_input': {'input': u['input']},
                                       'observed': u['observed'], 'expected': u['expected'],
                                       'summary': f"calculate_lm{tuple(u['input'])} -> {u['observed']} expected {u['expected']} (outside every known-finding region)"})
    # a known finding whose witness no longer fails while hits remain in its region would be inconsistent; hits with an inactive
    # witness are reported as violations (the region is then no longer excused)
    for k, active in sess.known_status.items():
        if not active and res['kf_counts'].get(k):
            ex_ = res['kf_examples'][k]
            sess.native_violations.append({'obligation': f'C03/bounded/{k}-region', 'native_input': {'input': ex_['input']}, 'observed': ex_['observed'],
                                           'expected': ex_['expected'], 'summary': f'{k}: witness no longer fails but the region still does'})



def check_default_accum(sess, module, qualname, param='accum', want='clear'):
    """a call that omits the start accumulator is the call with the parameter's default: the default must be the text "clear"
    (the clear-rule paths are verified above for an explicit "clear")"""
    import ast
    from pyvc import front
    fn = front.load(module).func(qualname)
    names = [a.arg for a in fn.args.args]
    ok = False
    if param in names:
        j = names.index(param) - (len(names) - len(fn.args.defaults))
        if j >= 0:
            d = fn.args.defaults[j]
            ok = isinstance(d, ast.Constant) and d.value == want
    sess.add(f'{qualname}/default-of-{param}-is-"{want}"', f'{module}.{qualname}', 'ensures', [], z3.BoolVal(bool(ok)))

def build(sess):
    sess.level = 'other'
    sess.trust(
        'pyvc symbolic executor and its model of the Python subset',
        'C03 proof part: mpmath arithmetic is treated as exact rational / real arithmetic (no precision obligations here); sqrt and the '
        'ceil/floor of inexact values are HAVOC (arbitrary), so O3 holds for whatever duration the root selection yields',
        't_rev = floor(0.5 - rate/accel) over the reals (binary64 quotient not modelled)',
        'bounded part: executable recurrence oracle (native/n_c03.py); bounds and counts in coverage.bounded',
    )
    check_trivial(sess)
    check_mirror(sess)
    for kind in ('int', 'clear'):
        check_accumulator(sess, kind)
    for kind in ('int', 'clear'):
        check_constant_rate(sess, kind)
    quotient_rounding_lemma(sess)
    check_wrapper(sess)
    check_default_accum(sess, MOD, 'calculate_lm')
    check_bounded(sess)
    sess.explanation = ('PROVED: O1 (cannot-move exits), O2 (legacy form mirrors: relational on the real prologue), O3 (reported '
                        'accumulator is the closed form of the recurrence at the reported duration and position, for every duration the '
                        'root selection could yield), W (moveTimeLM delegates). BOUNDED, NOT PROVED: O4 (the duration is the FIRST tick '
                        'reaching the step budget) -- z3/cvc5 do not decide ceil-of-a-103-bit-root minimality; run-time check against the '
                        'recurrence with the stated bound. Three known findings (reversal between tick 1 and 2; exact boundary '
                        'coincidences) are genuine defects of the unchanged tree, delimited by region and signature.')


def fallback(sess):
    res = native('n_c03', 'bounded', {'tier': 'quick', 'seed': sess.seed}, timeout=7200)
    out = []
    for u in res['unknown'][:3]:
        out.append({'found': True, 'what': 'n_c03.bounded', 'input': u['input'], 'observed': u['observed'], 'expected': u['expected'], 'tried': res['evaluations']})
    if not out:
        out.append({'found': False, 'what': 'n_c03.bounded', 'tried': res['evaluations']})
    return out
