"""C18 -- travel-limit helpers (plot_utils.checkLimits / checkLimitsTol / constrainLimits / point_in_bounds).

Contracts (postconditions taken from the property statement), proved twice: over the reals and over
IEEE-754 binary64 (QF_FP, NaN excluded, +-inf allowed).
"""
import z3

from pyvc.harness import run, no_raise, oblige_at, num, zb
from pyvc.engine import Ret, Raised
from pyvc.values import VFloat, VTuple, VBool, HList
from pyvc.session import native

MOD = 'plotink.plot_utils'


class Num:
    """arithmetic/comparison vocabulary in one of the two models"""
    def __init__(self, mode):
        self.mode = mode

    def var(self, name):
        if self.mode == 'real':
            return z3.Real(name)
        return z3.FP(name, z3.Float64())

    def valid(self, x):
        return z3.BoolVal(True) if self.mode == 'real' else z3.Not(z3.fpIsNaN(x))

    def lt(self, a, b):
        return a < b if self.mode == 'real' else z3.fpLT(a, b)

    def le(self, a, b):
        return a <= b if self.mode == 'real' else z3.fpLEQ(a, b)

    def gt(self, a, b):
        return a > b if self.mode == 'real' else z3.fpGT(a, b)

    def eq(self, a, b):
        return a == b if self.mode == 'real' else z3.fpEQ(a, b)

    def add(self, a, b):
        return a + b if self.mode == 'real' else z3.fpAdd(z3.RNE(), a, b)

    def sub(self, a, b):
        return a - b if self.mode == 'real' else z3.fpSub(z3.RNE(), a, b)

    def zero(self):
        return z3.RealVal(0) if self.mode == 'real' else z3.FPVal(0.0, z3.Float64())


def spec_clamp(N, v, l, u):
    # "the value itself when it is inside the closed range and the nearer bound otherwise"
    return z3.If(N.gt(v, u), u, z3.If(N.lt(v, l), l, v))


def spec_flag(N, v, l, u):
    return z3.Or(N.lt(v, l), N.gt(v, u))


def spec_flag_tol(N, v, l, u, t):
    return z3.Or(N.gt(v, N.add(u, t)), N.lt(v, N.sub(l, t)))


def replay_fn(fname, names):
    def fn(model, ob):
        args = []
        for n in names:
            s = model.get(n, '0')
            x = num(s)
            args.append(float(x))
        out = native('n_c18', 'replay', {'fn': fname, 'args': args})
        return {'native_input': {'fn': fname, 'args': args}, 'confirmed': bool(out.get('fails')),
                'observed': out.get('observed'), 'expected': out.get('expected'),
                'summary': f'{fname}{tuple(args)} -> {out.get("observed")} expected {out.get("expected")}'}
    return fn


def check_tuple_fn(sess, N, fname, with_tol, canary=False):
    ctx = sess.new_ctx()
    ctx.opts['float_mode'] = N.mode
    sfx = '' if N.mode == 'real' else '_fp'
    v, l, u, t = N.var('value'), N.var('lower'), N.var('upper'), N.var('tol')
    req = [N.valid(v), N.valid(l), N.valid(u), N.le(l, u)]
    args = [VFloat(v), VFloat(l), VFloat(u)]
    names = ['value', 'lower', 'upper']
    if with_tol:
        req += [N.valid(t), N.le(N.zero(), t)]
        if N.mode == 'fp':
            req.append(z3.Not(z3.fpIsInf(t)))
        args.append(VFloat(t))
        names.append('tol')
    ex, outs = run(ctx, MOD, fname, args, requires=req)
    sess.cover(f'{fname}{sfx}/requires', req)
    for q, out in outs:
        if not no_raise(ex, q, out):
            continue
        res = out.val
        if not (isinstance(res, VTuple) and len(res.items) == 2 and isinstance(res.items[0], VFloat)
                and isinstance(res.items[1], VBool)):
            oblige_at(ex, q, fname, 'result-shape', False, 'tuple(float,bool)')
            continue
        val, flag = res.items[0].t if N.mode == 'fp' else res.items[0].z(), res.items[1].z()
        oblige_at(ex, q, fname + sfx, 'ensures', N.eq(val, spec_clamp(N, v, l, u)), 'value==clamp')
        oblige_at(ex, q, fname + sfx, 'ensures', z3.And(N.le(l, val), N.le(val, u)), 'result-in-range')
        sf = spec_flag_tol(N, v, l, u, t) if with_tol else spec_flag(N, v, l, u)
        oblige_at(ex, q, fname + sfx, 'ensures', flag == sf, 'flag==outside')
    sess.absorb(ctx, replay=replay_fn(fname, names))
    # canary: a wrong spec (strict bound treated as outside) must be refuted
    hy = req + [N.eq(v, u)]
    sess.canary(f'{fname}{sfx}/on-bound-is-flagged', hy, spec_flag(N, v, l, u) if not with_tol else spec_flag_tol(N, v, l, u, t))


def check_constrain(sess, N):
    ctx = sess.new_ctx()
    ctx.opts['float_mode'] = N.mode
    sfx = '' if N.mode == 'real' else '_fp'
    v, l, u = N.var('value'), N.var('lower'), N.var('upper')
    req = [N.valid(v), N.valid(l), N.valid(u), N.le(l, u)]
    ex, outs = run(ctx, MOD, 'constrainLimits', [VFloat(v), VFloat(l), VFloat(u)], requires=req)
    for q, out in outs:
        if not no_raise(ex, q, out):
            continue
        res = out.val
        if not isinstance(res, VFloat):
            oblige_at(ex, q, 'constrainLimits', 'result-shape', False, 'float')
            continue
        val = res.t if N.mode == 'fp' else res.z()
        oblige_at(ex, q, 'constrainLimits' + sfx, 'ensures', N.eq(val, spec_clamp(N, v, l, u)), 'value==clamp')
        oblige_at(ex, q, 'constrainLimits' + sfx, 'ensures', z3.And(N.le(l, val), N.le(val, u)), 'result-in-range')
    sess.absorb(ctx, replay=replay_fn('constrainLimits', ['value', 'lower', 'upper']))


def pib_args(N, p, ex):
    x, y = N.var('x'), N.var('y')
    xmin, ymin, xmax, ymax, t = N.var('x_min'), N.var('y_min'), N.var('x_max'), N.var('y_max'), N.var('tol')
    return (x, y, xmin, ymin, xmax, ymax, t)


def check_point_in_bounds(sess, N):
    ctx = sess.new_ctx()
    ctx.opts['float_mode'] = N.mode
    sfx = '' if N.mode == 'real' else '_fp'
    x, y, xmin, ymin, xmax, ymax, t = pib_args(N, None, None)
    req = [N.valid(a) for a in (x, y, xmin, ymin, xmax, ymax, t)] + [N.le(xmin, xmax), N.le(ymin, ymax), N.le(N.zero(), t)]
    if N.mode == 'fp':
        req.append(z3.Not(z3.fpIsInf(t)))
    holder = {}

    def setup(ex, p):
        holder['point'] = p.alloc(HList([VFloat(x), VFloat(y)]), 'list')
        lo = p.alloc(HList([VFloat(xmin), VFloat(ymin)]), 'list')
        hi = p.alloc(HList([VFloat(xmax), VFloat(ymax)]), 'list')
        holder['bounds'] = p.alloc(HList([lo, hi]), 'list')
    # build args lazily: run() calls setup before binding, so allocate there
    from pyvc.engine import Exec, Path
    ex = Exec(ctx)
    p = Path()
    for r in req:
        p.assume(r)
    setup(ex, p)
    outs = list(ex.run_function(p, MOD, 'point_in_bounds', [holder['point'], holder['bounds'], VFloat(t)]))
    pib_paths = []
    for q, out in outs:
        if not no_raise(ex, q, out):
            continue
        res = out.val
        if not isinstance(res, VBool):
            oblige_at(ex, q, 'point_in_bounds', 'result-shape', False, 'bool')
            continue
        spec = z3.And(z3.Not(spec_flag_tol(N, x, xmin, xmax, t)), z3.Not(spec_flag_tol(N, y, ymin, ymax, t)))
        oblige_at(ex, q, 'point_in_bounds' + sfx, 'ensures', res.z() == spec, 'inside==within-tolerance-on-both-axes')
        pib_paths.append((q, res.z()))
    names = ['x', 'y', 'x_min', 'y_min', 'x_max', 'y_max', 'tol']
    sess.absorb(ctx, replay=replay_fn('point_in_bounds', names))

    # relational clause: agrees with the tolerant checker applied to each coordinate.  Both real bodies
    # are executed on the same symbolic inputs and compared path by path (no spec function involved).
    if N.mode == 'fp':
        # over binary64 the agreement follows from the two discharged contracts (same spec_flag_tol terms);
        # the path-by-path product is run over the reals only (125 QF_FP queries with two roundings each
        # cost ~10 s apiece and add nothing the two contracts do not already give)
        return
    ctx2 = sess.new_ctx()
    ctx2.opts['float_mode'] = N.mode
    ex2, ox = run(ctx2, MOD, 'checkLimitsTol', [VFloat(x), VFloat(xmin), VFloat(xmax), VFloat(t)], requires=req)
    ex3, oy = run(ctx2, MOD, 'checkLimitsTol', [VFloat(y), VFloat(ymin), VFloat(ymax), VFloat(t)], requires=req)
    k = 0
    for q, r in pib_paths:
        for qx, outx in ox:
            for qy, outy in oy:
                if isinstance(outx, Raised) or isinstance(outy, Raised):
                    continue
                fx, fy = outx.val.items[1].z(), outy.val.items[1].z()
                hyps = list(q.pc) + list(qx.pc) + list(qy.pc)
                sess.add(f'point_in_bounds{sfx}/agrees-with-checkLimitsTol#{k}', 'point_in_bounds', 'relational',
                         hyps, r == z3.And(z3.Not(fx), z3.Not(fy)), replay=replay_fn('point_in_bounds', names))
                k += 1
    sess.functions.update(ctx2.functions)


def build(sess):
    sess.level = 'proof'
    sess.trust(
        'pyvc symbolic executor (own AST->SMT generator): its model of Python statements/expressions',
        'z3 4/5 (QF_LRA, QF_FP) and cvc5 as back ends',
        'Python float comparison / addition = IEEE-754 binary64 round-to-nearest-even (QF_FP run); = exact reals (real run)',
        'inputs are floats (or ints that compare like them); NaN excluded by precondition',
    )
    for mode in ('real', 'fp'):
        N = Num(mode)
        check_tuple_fn(sess, N, 'checkLimits', False)
        check_tuple_fn(sess, N, 'checkLimitsTol', True)
        check_constrain(sess, N)
        check_point_in_bounds(sess, N)
    sess.explanation = ('Every return path of the four real functions is checked against the clamp / flag specification '
                        'taken from the property, over the reals and again over binary64; the agreement clause is a '
                        'path-by-path comparison of point_in_bounds with checkLimitsTol on the same symbolic inputs.')


def fallback(sess):
    r = native('n_c18', 'search', {})
    r['what'] = 'n_c18.search'
    return [r]
