"""C08 -- plot_utils.clip_segment returns exactly the part of the segment inside the rectangle (over the reals).

P, Q the input ends, B = [x_min,x_max] x [y_min,y_max] (closed, min <= max), P(t) = P + t (Q - P).
  accept  <=>  exists t in [0,1] : P(t) in B
  accept   =>  result = [P(a), P(b)], 0 <= a <= b <= 1, P(a), P(b) in B, and every t in [0,1] with P(t) in B has a <= t <= b
  no division by zero; the loop exits within its own bound; the `iterations > 3` failsafe exit is unreachable
The Cohen-Sutherland loop carries its own bound, so it is unrolled completely with solver pruning; clip_code is
executed inline (region codes stay concrete on every path) and also checked against its own 4-bit contract.
"""
import ast
import z3

from pyvc.harness import run, no_raise, oblige_at
from pyvc.engine import Ret, Raised, EngineError, Exec, Path
from pyvc.values import VInt, VFloat, VTuple, VNone, VBool, VRef, HList
from pyvc import front
from pyvc.session import native

MOD = 'plotink.plot_utils'


def replay_clip(model, ob):
    from pyvc.harness import num
    names = ['x_1', 'y_1', 'x_2', 'y_2', 'x_min', 'y_min', 'x_max', 'y_max']
    vals = []
    for n in names:
        try:
            vals.append(str(num(model.get(n, '0'))))
        except Exception:
            vals.append('0')
    out = native('n_c08', 'replay', {'vals': vals})
    if not out.get('fails'):
        alt = native('n_c08', 'search', {})
        if alt.get('found'):
            out = alt
            vals = alt['input']
    return {'native_input': {'vals': vals}, 'confirmed': bool(out.get('fails') or out.get('found')), 'observed': out.get('observed'),
            'expected': out.get('expected'), 'summary': f"clip_segment({vals}) -> {out.get('observed')} expected {out.get('expected')}"}


def check_clip_code(sess):
    ctx = sess.new_ctx()
    x, y, x0, x1, y0, y1 = z3.Reals('x_in y_in x_min x_max y_min y_max')
    ex, outs = run(ctx, MOD, 'clip_code', [VFloat(v) for v in (x, y, x0, x1, y0, y1)], requires=[x0 <= x1, y0 <= y1])
    for q, out in outs:
        if not no_raise(ex, q, out):
            continue
        r = out.val
        if not (isinstance(r, VInt) and r.conc()):
            # symbolic code (e.g. arithmetic encoding): compare as integer
            want = z3.If(x < x0, 1, 0) + z3.If(x > x1, 2, 0) + z3.If(y < y0, 4, 0) + z3.If(y > y1, 8, 0)
            oblige_at(ex, q, 'clip_code', 'ensures', r.z() == want if isinstance(r, VInt) else False, 'code==bits(left,right,top,bottom)')
            continue
        c = r.t
        oblige_at(ex, q, 'clip_code', 'ensures', z3.And((x < x0) == bool(c & 1), (x > x1) == bool(c & 2), (y < y0) == bool(c & 4),
                                                        (y > y1) == bool(c & 8), z3.BoolVal(0 <= c <= 15)), 'code==bits(left,right,top,bottom)')
    sess.absorb(ctx, replay=replay_clip)


def failsafe_lines():
    fn = front.load(MOD).func('clip_segment')
    out = []
    for n in ast.walk(fn):
        if isinstance(n, ast.If) and isinstance(n.test, ast.Compare) and isinstance(n.test.left, ast.Name) and n.test.left.id == 'iterations':
            out.append(n.lineno)
    return out


def check_clip(sess):
    ctx = sess.new_ctx()
    ctx.inline.add(f'{MOD}.clip_code')
    ctx.opts['unroll_limit'] = 12
    ctx.opts['prune_timeout_ms'] = 5000
    x1, y1, x2, y2 = z3.Reals('x_1 y_1 x_2 y_2')
    x0, y0, xm, ym = z3.Reals('x_min y_min x_max y_max')
    ex = Exec(ctx)
    p = Path()
    p.assume(z3.And(x0 <= xm, y0 <= ym))
    seg = p.alloc(HList([p.alloc(HList([VFloat(x1), VFloat(y1)]), 'list'), p.alloc(HList([VFloat(x2), VFloat(y2)]), 'list')]), 'list')
    bnd = p.alloc(HList([p.alloc(HList([VFloat(x0), VFloat(y0)]), 'list'), p.alloc(HList([VFloat(xm), VFloat(ym)]), 'list')]), 'list')
    outs = list(ex.run_function(p, MOD, 'clip_segment', [seg, bnd]))
    fs = failsafe_lines()
    t = z3.Real('t_any')
    inB = lambda px, py: z3.And(x0 <= px, px <= xm, y0 <= py, py <= ym)
    Px = lambda s: x1 + s * (x2 - x1)
    Py = lambda s: y1 + s * (y2 - y1)
    tag = 'clip_segment'
    n_acc = n_rej = 0
    for q, out in outs:
        if not no_raise(ex, q, out, tag):
            continue
        if any(f'L{ln}T' in q.trail for ln in fs):
            oblige_at(ex, q, tag, 'ensures', False, 'failsafe-exit(iterations>3)-is-unreachable')
            continue
        res = out.val
        ok_shape = isinstance(res, VTuple) and len(res.items) == 2 and isinstance(res.items[0], VBool) and res.items[0].conc() \
            and isinstance(res.items[1], VRef)
        if not ok_shape:
            oblige_at(ex, q, tag, 'result-shape', False, '(bool,[[x,y],[x,y]])')
            continue
        acc = res.items[0].b
        pts = []
        try:
            for k in range(2):
                pt = q.heap[q.heap[res.items[1].ref].items[k].ref].items
                pts.append((pt[0].z(), pt[1].z()))
        except Exception:
            oblige_at(ex, q, tag, 'result-shape', False, '(bool,[[x,y],[x,y]])')
            continue
        hyp_t = [t >= 0, t <= 1, inB(Px(t), Py(t))]
        if not acc:
            n_rej += 1
            ob = ex.oblige(q, 'ensures', z3.BoolVal(False), 'reject-only-if-no-point-of-the-segment-is-inside', extra_hyps=hyp_t)
            ob.func = tag
            continue
        n_acc += 1
        (ax, ay), (bx, by) = pts
        # witnesses for the parameters of the returned end points on the input segment
        dx, dy = x2 - x1, y2 - y1
        par = lambda px, py: z3.If(dx != 0, (px - x1) / dx, z3.If(dy != 0, (py - y1) / dy, z3.RealVal(0)))
        a, b = par(ax, ay), par(bx, by)
        oblige_at(ex, q, tag, 'ensures', z3.And(ax == Px(a), ay == Py(a)), 'first-end-lies-on-the-input-segment')
        oblige_at(ex, q, tag, 'ensures', z3.And(bx == Px(b), by == Py(b)), 'second-end-lies-on-the-input-segment')
        oblige_at(ex, q, tag, 'ensures', z3.And(0 <= a, a <= b, b <= 1), 'orientation-kept(0<=a<=b<=1)')
        oblige_at(ex, q, tag, 'ensures', z3.And(inB(ax, ay), inB(bx, by)), 'returned-ends-are-inside-the-rectangle')
        # (for a zero-length input segment every t names the same point, which the on-segment clauses already pin down)
        ob = ex.oblige(q, 'ensures', z3.Or(z3.And(dx == 0, dy == 0), z3.And(a <= t, t <= b)), 'covers-all-of-the-inside-part', extra_hyps=hyp_t)
        ob.func = tag
    if n_acc == 0 or n_rej == 0:
        raise EngineError(f'clip_segment: accept paths {n_acc}, reject paths {n_rej}')
    sess.extra_cov['clip_exits'] = {'accept': n_acc, 'reject': n_rej}
    sess.absorb(ctx, replay=replay_clip)
    # canaries: wrong contract variants that must be refuted
    done = set()
    for q, out in outs:
        if not (isinstance(out, Ret) and isinstance(out.val, VTuple) and isinstance(out.val.items[0], VBool) and out.val.items[0].conc()):
            continue
        if out.val.items[0].b and 'unchanged' not in done:
            pt = q.heap[q.heap[out.val.items[1].ref].items[0].ref].items
            if not pt[0].z().eq(x1) or not pt[1].z().eq(y1):
                sess.canary('clipped-first-end-equals-input-first-end', list(q.pc), z3.And(pt[0].z() == x1, pt[1].z() == y1))
                done.add('unchanged')
        if (not out.val.items[0].b) and 'reject' not in done and ex.feasible(q, z3.Not(z3.And(x1 < x0, x2 < x0))):
            # "reject implies both ends outside on the left" is not what the code does in general
            sess.canary('reject-only-left-of-the-rectangle', list(q.pc), z3.And(x1 < x0, x2 < x0))
            done.add('reject')
    if len(done) < 2:
        raise EngineError('C08: canary paths not found')


def build(sess):
    sess.level = 'proof'
    sess.trust(
        'pyvc symbolic executor and its model of the Python subset (complete unrolling of the bounded loop with solver pruning)',
        'z3 nlsat / cvc5 (QF_NRA)',
        'Python floats are modelled as mathematical reals: the tolerance clauses are proved in their limit form (tolerance 0, exact '
        'clipping); the size of the binary64 deviation is not addressed. A divisor proved non-zero over the reals as a difference '
        'of two distinct operands is non-zero in IEEE-754 (gradual underflow)',
        'inputs finite, x_min <= x_max, y_min <= y_max',
    )
    check_clip_code(sess)
    check_clip(sess)
    # binary64 stand-in (BOUNDED, labelled): the proof above is over the reals; corner-grazing segments at the precision limit are
    # swept natively against an exact-rational clip with the property's tolerance
    fs = native('n_c08', 'float_sweep', {'seed': sess.seed})
    sess.extra_cov['binary64_stand_in'] = {'bounded': True, 'evaluations': fs.get('tried'), 'bound': fs.get('bound'), 'failing': bool(fs.get('found'))}
    sess.notes.append('binary64 behaviour of clip_segment (failsafe exit, corner-grazing inputs) is only SAMPLED: ' + str(fs.get('bound')))
    if fs.get('found'):
        sess.native_violations.append({'obligation': 'C08/bounded/binary64-corner-lines', 'native_input': fs.get('input'), 'observed': fs.get('observed'),
                                       'expected': fs.get('expected'), 'summary': f"clip_segment{fs.get('input')} -> {fs.get('observed')} expected {fs.get('expected')}"})
    sess.explanation = ('clip_segment (with clip_code inline) is unrolled completely; at every exit the accept/reject decision, '
                        'the position of the returned ends on the input segment (explicit parameter witnesses), containment, '
                        'orientation and maximality (for an arbitrary t) are obligations; division-by-zero paths and the failsafe '
                        'exit are proved unreachable.')


def fallback(sess):
    r = native('n_c08', 'search', {})
    r['what'] = 'n_c08.search'
    return [r]
