"""C06 -- motion / pen / motor / IO / configuration helpers emit exactly the documented EBB command text.

Template table below is transcribed from the property statement and the EBB command reference (NOT from the
code).  Each helper is executed symbolically against an acknowledging device through the call-site contract of
command (EBB3 layer: writes ascii(strip(text)+CR) once) / ebb_serial.command (legacy: writes ascii(text) once);
the resulting write trace must equal the template, chunk list against chunk list.
"""
import z3

from pyvc.harness import no_raise, oblige_at
from pyvc.engine import Ret, Raised, EngineError, Exec, Path, LoopSpec, fresh_name
from pyvc.values import VInt, VTuple, VNone, VBool, NONE, VRef, VHandle
from pyvc.strings import VStr, S, sym_str, concat, Atom, str_of_int
from pyvc import strops
from pyvc.session import native
from . import serialmodel as sm
from .methods import METHODS, variants, sym_args, method_home

LEG = 'plotink.ebb_motion'


# ------------------------------------------------------------------------------ template language
def T(*parts):
    """build the expected text from literals and integer terms"""
    out = VStr([])
    for x in parts:
        if isinstance(x, str):
            out = concat(out, S(x))
        elif isinstance(x, VInt):
            out = concat(out, str_of_int(x))
        else:
            out = concat(out, str_of_int(VInt(x)))
    return out


def clamp05(r):
    return z3.If(r < 0, 0, z3.If(r > 5, 5, r))


# EBB3 layer: method -> function(args dict name->VInt|None) -> list of expected command texts (without CR)
def _abs(a):
    if a['position1'] is not None and a['position2'] is not None:
        return [T('HM,', a['rate'], ',', a['position1'], ',', a['position2'])]
    return [T('HM,', a['rate'])]


def _pen(code):
    def f(a):
        if a['pin'] is not None:
            return [T(f'SP,{code},', a['pen_delay'], ',', a['pin'])]
        return [T(f'SP,{code},', a['pen_delay'])]
    return f


def _sr(a):
    if a['state'] is not None:
        return [T('SR,', a['timeout_ms'], ',', a['state'])]
    return [T('SR,', a['timeout_ms'])]


EBB3_TEMPLATES = {
    'xy_move': lambda a: [T('SM,', a['duration'], ',', a['delta_y'], ',', a['delta_x'])],
    'abs_move': _abs,
    'motors_disable': lambda a: [T('EM,0,0')],
    'clear_steps': lambda a: [T('CS')],
    'clear_accumulators': lambda a: [T('T3,1,0,0,0,0,0,0,3')],
    'pen_lower': _pen(0),
    'pen_raise': _pen(1),
    'dio_b_config': lambda a: [T('PO,B,', a['pin'], ',', a['state']), T('PD,B,', a['pin'], ',', a['direction'])],
    'dio_b_set': lambda a: [T('PO,B,', a['pin'], ',', a['state'])],
    'dio_b_read': lambda a: [T('PI,B,', a['pin'])],
    'pen_pos_down': lambda a: [T('SC,5,', a['servo_max'])],
    'pen_pos_up': lambda a: [T('SC,4,', a['servo_min'])],
    'pen_rate_down': lambda a: [T('SC,12,', a['pen_down_rate'])],
    'pen_rate_up': lambda a: [T('SC,11,', a['pen_up_rate'])],
    'servo_timeout': _sr,
    'var_write': lambda a: [T('SL,', a['value'], ',', a['index'])],
    'var_read': lambda a: [T('QL,', a['index'])],
    'query_steps': lambda a: [T('QS')],
    'motors_query_enabled': lambda a: [T('QE')],
    'query_voltage': lambda a: [T('QC')],
    'query_current': lambda a: [T('QC')],
    'query_nickname': lambda a: [T('QT')],
}

# legacy layer: function -> (parameter list, template); texts end in CR themselves
LEG_PARAMS = {
    'doABMove': [('delta_a', 'int'), ('delta_b', 'int'), ('duration', 'int')],
    'doXYMove': [('delta_x', 'int'), ('delta_y', 'int'), ('duration', 'int')],
    'doAbsMove': [('rate', 'int'), ('position1', 'optint'), ('position2', 'optint')],
    'doLowLevelMove': [('rate1', 'int'), ('steps1', 'int'), ('accel1', 'int'), ('rate2', 'int'), ('steps2', 'int'),
                       ('accel2', 'int'), ('clear', 'optint')],
    'sendDisableMotors': [], 'sendEnableMotors': [('res', 'int')],
    'sendPenDown': [('pen_delay', 'int'), ('pin', 'optint')], 'sendPenUp': [('pen_delay', 'int'), ('pin', 'optint')],
    'PBOutConfig': [('pin', 'int'), ('state', 'int')], 'PBOutValue': [('pin', 'int'), ('state', 'int')],
    'TogglePen': [], 'setPenDownPos': [('servo_max', 'int')], 'setPenDownRate': [('pen_down_rate', 'int')],
    'setPenUpPos': [('servo_min', 'int')], 'setPenUpRate': [('pen_up_rate', 'int')], 'setEBBLV': [('ebb_lv', 'int')],
    'QueryPRGButton': [], 'queryEBBLV': [],
}


def _lm(a):
    base = ['LM,', a['rate1'], ',', a['steps1'], ',', a['accel1'], ',', a['rate2'], ',', a['steps2'], ',', a['accel2']]
    if a['clear'] is not None:
        base += [',', a['clear']]
    return [T(*base)]


LEG_TEMPLATES = {
    'doABMove': lambda a: [T('XM,', a['duration'], ',', a['delta_a'], ',', a['delta_b'])],
    'doXYMove': lambda a: [T('SM,', a['duration'], ',', a['delta_y'], ',', a['delta_x'])],
    'doAbsMove': _abs,
    'doLowLevelMove': _lm,
    'sendDisableMotors': lambda a: [T('EM,0,0')],
    'sendEnableMotors': lambda a: [T('EM,', VInt(clamp05(a['res'].z())), ',', VInt(clamp05(a['res'].z())))],
    'sendPenDown': _pen(0), 'sendPenUp': _pen(1),
    'PBOutConfig': lambda a: [T('PO,B,', a['pin'], ',', a['state']), T('PD,B,', a['pin'], ',0')],
    'PBOutValue': lambda a: [T('PO,B,', a['pin'], ',', a['state'])],
    'TogglePen': lambda a: [T('TP')],
    'setPenDownPos': lambda a: [T('SC,5,', a['servo_max'])],
    'setPenDownRate': lambda a: [T('SC,12,', a['pen_down_rate'])],
    'setPenUpPos': lambda a: [T('SC,4,', a['servo_min'])],
    'setPenUpRate': lambda a: [T('SC,11,', a['pen_up_rate'])],
    'setEBBLV': lambda a: [T('SL,', a['ebb_lv'])],
    'QueryPRGButton': lambda a: [T('QB')],
    'queryEBBLV': lambda a: [T('QL')],
}

# the same request in both layers: (legacy function, EBB3 method, argument renaming legacy->ebb3)
LAYER_PAIRS = [
    ('doXYMove', 'xy_move', {}), ('doAbsMove', 'abs_move', {}), ('sendDisableMotors', 'motors_disable', {}),
    ('sendPenDown', 'pen_lower', {}), ('sendPenUp', 'pen_raise', {}), ('PBOutValue', 'dio_b_set', {}),
    ('setPenDownPos', 'pen_pos_down', {}), ('setPenUpPos', 'pen_pos_up', {}),
    ('setPenDownRate', 'pen_rate_down', {}), ('setPenUpRate', 'pen_rate_up', {}),
]


# ------------------------------------------------------------------------------ pause chunking loop
class PauseLoop(LoopSpec):
    """while n > 0: d = min(n,750) (at least 1); send SM,d,0,0; n -= d
    invariant over ghost values: emitted + n == n0, emitted >= 0, (n >= 0 or emitted == 0)"""
    def __init__(self, var, legacy, strict=True):
        self.var = var
        self.legacy = legacy
        self.strict = strict

    def establish(self, ex, p):
        n = p.env[self.var]
        p.ghost['pause_n0'] = n.z()
        return []

    def head(self, ex, p):
        n0 = p.ghost['pause_n0']
        pt = z3.Int(fresh_name('pause_left'))
        em = z3.Int(fresh_name('pause_emitted'))
        p.env[self.var] = VInt(pt)
        p.env.pop('time_delay', None)
        p.assume(z3.And(em + pt == n0, em >= 0, z3.Or(pt >= 0, em == 0)))
        p.events.append(('pause-chunks', em))
        p.ghost['pause_mark'] = len(p.events)
        p.ghost['pause_em'] = em
        p.ghost['pause_pt'] = pt

    def preserve(self, ex, p):
        n0, em, pt = p.ghost['pause_n0'], p.ghost['pause_em'], p.ghost['pause_pt']
        new = [e[1] for e in p.events[p.ghost['pause_mark']:] if e[0] == 'write']
        obs = []
        d = p.env.get('time_delay')
        if self.strict:
            ok_shape = len(new) == 1 and isinstance(d, VInt)
            if ok_shape:
                want = T('SM,', d, ',0,0\r').with_kind('bytes')
                ok_shape = new[0].struct_eq(want) is True
            obs.append(('one-write-SM,d,0,0', z3.BoolVal(bool(ok_shape))))
        if isinstance(d, VInt):
            dz = d.z()
            obs.append(('chunk-in-1..750', z3.And(dz >= 1, dz <= 750)))
            pt2 = p.env[self.var].z()
            em2 = em + dz
            obs.append(('sum-conserved', z3.And(em2 + pt2 == n0, em2 >= 0, z3.Or(pt2 >= 0, em2 == 0))))
            obs.append(('variant-decreases', z3.And(pt2 < pt, pt > 0)))
        else:
            obs.append(('time_delay-is-int', z3.BoolVal(False)))
        return obs


def install_loops(ctx, strict=False):
    ctx.loop_specs[('plotink.ebb3_motion.EBBMotionWrap.timed_pause', 0)] = PauseLoop('pause_time', False, strict)
    ctx.loop_specs[('plotink.ebb_motion.doTimedPause', 0)] = PauseLoop('n_pause', True, strict)


# ------------------------------------------------------------------------------ checks
def args_dict(params, shape, prefix=''):
    vals, d = [], {}
    for nm, ty in params:
        k = shape[nm]
        if k == 'none':
            vals.append(NONE)
            d[nm] = None
        else:
            v = VInt(z3.Int(prefix + nm))
            vals.append(v)
            d[nm] = v
    return vals, d


def shapes(params):
    out = [{}]
    for nm, ty in params:
        if ty == 'optint':
            out = [dict(s, **{nm: 'int'}) for s in out] + [dict(s, **{nm: 'none'}) for s in out]
        else:
            out = [dict(s, **{nm: 'int'}) for s in out]
    return out


def replay_helper(layer, fn, params, shape):
    def rp(model, ob):
        args = []
        for nm, ty in params:
            if shape[nm] == 'none':
                args.append(None)
            else:
                try:
                    args.append(int(model.get(nm, 0)))
                except (TypeError, ValueError):
                    args.append(0)
        payload = {'layer': layer, 'fn': fn, 'args': args}
        out = native('n_c06', 'replay', payload)
        if not out.get('fails'):
            alt = native('n_c06', 'search', {'layer': layer, 'fn': fn})
            if alt.get('found'):
                payload, out = alt['input'], alt
        return {'native_input': payload, 'confirmed': bool(out.get('fails')), 'observed': out.get('observed'),
                'expected': out.get('expected'),
                'summary': f"{layer}.{fn}{tuple(payload['args'])} wrote {out.get('observed')} expected {out.get('expected')}"}
    return rp


def compare_writes(ex, q, tag, got, want_texts, cr):
    want = [concat(t, S('\r')).with_kind('bytes') if cr else t.with_kind('bytes') for t in want_texts]
    if len(got) != len(want):
        oblige_at(ex, q, tag, 'ensures', False, f'number-of-commands=={len(want)}(got {len(got)})')
        return
    for k, (g, w) in enumerate(zip(got, want)):
        se = g.struct_eq(w) if g.kind == w.kind else False
        if se is True:
            oblige_at(ex, q, tag, 'ensures', True, f'command[{k}]==template')
        elif se is False:
            oblige_at(ex, q, tag, 'ensures', False, f'command[{k}]==template')
        else:
            oblige_at(ex, q, tag, 'ensures', g.z() == w.z(), f'command[{k}]==template')


def ebb3_ctx(sess, strict=True):
    ctx = sess.new_ctx()
    sm.install_common(ctx, sm.PortModel(faults=False))
    ctx.contracts[f'{sm.EBB3}.record_error'] = sm.RecordError()
    ctx.contracts[f'{sm.EBB3}.command'] = sm.CommandContract('ack')
    ctx.contracts[f'{sm.EBB3}.query'] = sm.QueryContract('ack')
    install_loops(ctx, strict)
    return ctx


def check_ebb3_helpers(sess):
    for meth, tmpl in EBB3_TEMPLATES.items():
        params = METHODS[meth]
        for shape in shapes(params):
            for state in ('connected', 'noport'):
                ctx = ebb3_ctx(sess)
                ex = Exec(ctx)
                p = Path()
                obj = sm.new_ebb3(p, port=(state == 'connected'))
                vals, d = args_dict(params, shape)
                mod, qual = method_home(meth)
                outs = list(ex.run_function(p, mod, qual, [obj] + vals))
                sfx = ''.join('1' if shape[nm] == 'int' else '0' for nm, ty in params if ty == 'optint')
                tag = f'{qual}[{state}{sfx and ":" + sfx}]'
                for q, out in outs:
                    if isinstance(out, Raised):
                        # consumers of query payloads may raise on malformed payloads: not part of C06
                        if out.cls in ('ValueError', 'KeyError', 'IndexError') and meth in ('var_read', 'query_steps', 'motors_query_enabled', 'query_voltage', 'query_current', 'dio_b_read'):
                            got = sm.writes(q)
                            compare_writes(ex, q, tag, got, tmpl(d) if state == 'connected' else [], True)
                            continue
                        no_raise(ex, q, out, tag)
                        continue
                    got = sm.writes(q)
                    compare_writes(ex, q, tag, got, tmpl(d) if state == 'connected' else [], True)
                sess.absorb(ctx, replay=replay_helper('ebb3', meth, params, shape))


def legacy_ctx(sess, strict=True):
    ctx = sess.new_ctx()
    sm.install_common(ctx, sm.PortModel(faults=False))
    ctx.contracts['plotink.ebb_serial.command'] = sm.LegacyCommand()
    ctx.contracts['plotink.ebb_serial.query'] = sm.LegacyQuery()
    install_loops(ctx, strict)
    return ctx


def check_legacy_helpers(sess):
    for fn, tmpl in LEG_TEMPLATES.items():
        params = LEG_PARAMS[fn]
        for shape in shapes(params):
            for state in ('connected', 'noport'):
                ctx = legacy_ctx(sess)
                ex = Exec(ctx)
                p = Path()
                vals, d = args_dict(params, shape)
                port = sm.PORT if state == 'connected' else NONE
                req = []
                if fn == 'doLowLevelMove':
                    # the template applies when at least one axis can move
                    a = {k: v.z() for k, v in d.items() if v is not None}
                    can = z3.Or(z3.And(a['steps1'] != 0, z3.Or(a['rate1'] != 0, a['accel1'] != 0)),
                                z3.And(a['steps2'] != 0, z3.Or(a['rate2'] != 0, a['accel2'] != 0)))
                    for moves in (True, False):
                        p2 = Path()
                        p2.assume(can if moves else z3.Not(can))
                        outs = list(ex.run_function(p2, LEG, fn, [port] + vals))
                        sfx = ''.join('1' if shape[nm] == 'int' else '0' for nm, ty in params if ty == 'optint')
                        tag = f'{fn}[{state}:{sfx}:{"moves" if moves else "cannot-move"}]'
                        for q, out in outs:
                            if not no_raise(ex, q, out, tag):
                                continue
                            compare_writes(ex, q, tag, sm.writes(q), tmpl(d) if (state == 'connected' and moves) else [], True)
                    sess.absorb(ctx, replay=replay_helper('legacy', fn, params, shape))
                    continue
                outs = list(ex.run_function(p, LEG, fn, [port] + vals))
                sfx = ''.join('1' if shape[nm] == 'int' else '0' for nm, ty in params if ty == 'optint')
                tag = f'{fn}[{state}{sfx and ":" + sfx}]'
                for q, out in outs:
                    if isinstance(out, Raised) and fn in ('queryEBBLV',):
                        continue
                    if not no_raise(ex, q, out, tag):
                        continue
                    compare_writes(ex, q, tag, sm.writes(q), tmpl(d) if state == 'connected' else [], True)
                sess.absorb(ctx, replay=replay_helper('legacy', fn, params, shape))


def check_pause(sess):
    """timed pause: n <= 0 nothing; n >= 1: chunks in 1..750 summing to n (both layers)"""
    for layer in ('ebb3', 'legacy'):
        ctx = ebb3_ctx(sess, True) if layer == 'ebb3' else legacy_ctx(sess, True)
        ex = Exec(ctx)
        p = Path()
        n = z3.Int('n')
        if layer == 'ebb3':
            obj = sm.new_ebb3(p)
            outs = list(ex.run_function(p, 'plotink.ebb3_motion', 'EBBMotionWrap.timed_pause', [obj, VInt(n)]))
            tag = 'EBBMotionWrap.timed_pause'
        else:
            outs = list(ex.run_function(p, LEG, 'doTimedPause', [sm.PORT, VInt(n)]))
            tag = 'doTimedPause'
        for q, out in outs:
            if not no_raise(ex, q, out, tag):
                continue
            chunks = [e for e in q.events if e[0] == 'pause-chunks']
            extra = [e for e in q.events if e[0] == 'write']
            if len(chunks) != 1 or extra:
                # the loop must have been handled by the invariant, with no write outside it
                oblige_at(ex, q, tag, 'ensures', False, 'all-writes-come-from-the-chunking-loop')
                continue
            em = chunks[0][1]
            oblige_at(ex, q, tag, 'ensures', z3.Implies(n >= 1, em == n), 'durations-sum-to-n')
            oblige_at(ex, q, tag, 'ensures', z3.Implies(n <= 0, em == 0), 'nothing-sent-for-n<=0')
        # no port / blocked
        p2 = Path()
        if layer == 'ebb3':
            obj2 = sm.new_ebb3(p2, port=False)
            outs2 = list(ex.run_function(p2, 'plotink.ebb3_motion', 'EBBMotionWrap.timed_pause', [obj2, VInt(n)]))
        else:
            outs2 = list(ex.run_function(p2, LEG, 'doTimedPause', [NONE, VInt(n)]))
        for q, out in outs2:
            if not no_raise(ex, q, out, tag + '[noport]'):
                continue
            sent = [e for e in q.events if e[0] in ('write', 'pause-chunks')]
            oblige_at(ex, q, tag + '[noport]', 'ensures', len(sent) == 0, 'nothing-sent-without-a-port')
        sess.absorb(ctx, replay=replay_helper(layer, 'timed_pause' if layer == 'ebb3' else 'doTimedPause', [('n', 'int')], {'n': 'int'}))


class QEPayload:
    """device reply to QE for a board in state (en1, en2, mode): '<ms or 0>,<ms or 0>'"""
    def __init__(self, en1, en2, mode):
        self.en1, self.en2, self.mode = en1, en2, mode

    def __call__(self, ex, p, obj, text, node):
        ms = z3.If(self.mode == 1, 16, z3.If(self.mode == 2, 8, z3.If(self.mode == 3, 4, z3.If(self.mode == 4, 2, 1))))
        a = VInt(z3.If(self.en1, ms, 0))
        b = VInt(z3.If(self.en2, ms, 0))
        yield p, T(a, ',', b)


def check_motors_enable(sess):
    """motors_enable(r1, r2): documented transmission sequence (DESIGN C06)"""
    r1, r2 = z3.Ints('resolution_1 resolution_2')
    en1, en2 = z3.Bools('board_en1 board_en2')
    mode = z3.Int('board_mode')
    c1, c2 = clamp05(r1), clamp05(r2)
    ctx = ebb3_ctx(sess)
    ctx.contracts[f'{sm.EBB3}.query'] = sm.QueryContract('ack', payload=QEPayload(en1, en2, mode))
    ctx.inline.add('plotink.ebb3_motion.EBBMotionWrap.motors_query_enabled')
    ex = Exec(ctx)
    p = Path()
    p.assume(z3.And(mode >= 1, mode <= 5))
    obj = sm.new_ebb3(p)
    outs = list(ex.run_function(p, 'plotink.ebb3_motion', 'EBBMotionWrap.motors_enable', [obj, VInt(r1), VInt(r2)]))
    tag = 'EBBMotionWrap.motors_enable'
    cur = z3.If(z3.Or(en1, en2), mode, 0)      # what the board reports as the resolution in use (0: none enabled)
    for q, out in outs:
        if not no_raise(ex, q, out, tag):
            continue
        got = sm.writes(q)
        # spec sequence, resolved under the path condition by the solver: compare against each admissible shape
        one_zero = z3.And(c1 != c2, z3.Or(c1 == 0, c2 == 0))
        only2 = z3.And(c1 == 0, c2 != 0)
        preset = z3.And(only2, cur != c2)
        texts = [g for g in got]
        # build expected list per shape and state which shape must apply
        shapes_ = []
        for cu in (False, True):
            for qe in (False, True):
                for ps in (False, True):
                    if (qe and not cu) or (ps and not qe):
                        continue
                    exp = []
                    if cu:
                        exp.append(T('CU,50,0'))
                    if qe:
                        exp.append(T('QE'))
                    if ps:
                        exp.append(T('EM,', VInt(c2), ',', VInt(c2)))
                    exp.append(T('EM,', VInt(c1), ',', VInt(c2)))
                    cond = z3.And(one_zero == z3.BoolVal(cu), only2 == z3.BoolVal(qe), preset == z3.BoolVal(ps))
                    shapes_.append((cond, exp))
        goals = []
        for cond, exp in shapes_:
            if len(exp) != len(got):
                goals.append(z3.Not(cond))
                continue
            eqs = []
            for g, w in zip(got, exp):
                wb = concat(w, S('\r')).with_kind('bytes')
                se = g.struct_eq(wb)
                eqs.append(z3.BoolVal(se) if se is not None else (g.z() == wb.z()))
            goals.append(z3.Implies(cond, z3.And(*eqs)))
        oblige_at(ex, q, tag, 'ensures', z3.And(*goals), 'transmission-sequence==documented-sequence')
    sess.absorb(ctx, replay=replay_helper('ebb3', 'motors_enable', METHODS['motors_enable'], {'resolution_1': 'int', 'resolution_2': 'int'}))


def check_layer_agreement(sess):
    """both layers emit the same text for the same request: corollary of the two template rows being equal"""
    for leg, meth, ren in LAYER_PAIRS:
        lp, mp = LEG_PARAMS[leg], METHODS[meth]
        for shape in shapes(lp):
            _, d = args_dict(lp, shape)
            d2 = {}
            for (nm_l, _), (nm_m, _) in zip(lp, mp):
                d2[nm_m] = d[nm_l]
            a, b = LEG_TEMPLATES[leg](d), EBB3_TEMPLATES[meth](d2)
            same = len(a) == len(b) and all(x.struct_eq(y) is True for x, y in zip(a, b))
            sess.add(f'layers-agree/{leg}~{meth}[{"".join(str(int(v == "int")) for v in shape.values())}]', 'spec', 'relational', [], z3.BoolVal(same))
    # enable motors: legacy sendEnableMotors(res) ~ motors_enable(res, res): single EM,c,c
    r = z3.Int('res')
    c = clamp05(r)
    sess.add('layers-agree/sendEnableMotors~motors_enable(res,res)', 'spec', 'relational', [],
             z3.Not(z3.And(c != c, z3.Or(c == 0, c == 0))))
    # PBOutConfig(pin,state) ~ dio_b_config(pin,state,0)
    pin, st = VInt(z3.Int('pin')), VInt(z3.Int('state'))
    a = LEG_TEMPLATES['PBOutConfig']({'pin': pin, 'state': st})
    b = EBB3_TEMPLATES['dio_b_config']({'pin': pin, 'state': st, 'direction': VInt(0)})
    sess.add('layers-agree/PBOutConfig~dio_b_config(.,.,0)', 'spec', 'relational', [],
             z3.BoolVal(all(x.struct_eq(y) is True for x, y in zip(a, b)) and len(a) == len(b)))


def coverage_of_helpers(sess):
    """every sender found in the two real modules must have a template row (a new helper without one: exit 3)"""
    from pyvc import front
    mi = front.load(LEG)
    skip = {'version', 'moveDistLM', 'moveDistLMA', 'moveTimeLM', 'QueryPenUp', 'query_enable_motors', 'query_steps',
            'queryVoltage', 'servo_timeout', 'doTimedPause'}
    for fn in mi.funcs:
        if '.' in fn or fn in skip:
            continue
        if fn not in LEG_TEMPLATES:
            raise EngineError(f'legacy helper ebb_motion.{fn} has no template row in contracts/c06.py')
    wrap = front.load('plotink.ebb3_motion').classes['EBBMotionWrap']['methods']
    skip3 = {'__init__', 'timed_pause', 'motors_enable'}
    for m in wrap:
        if m in skip3:
            continue
        if m not in EBB3_TEMPLATES:
            raise EngineError(f'EBBMotionWrap.{m} has no template row in contracts/c06.py')



def check_defaults(sess):
    """an omitted optional argument is the call with the parameter's default: every optional parameter of the helpers (other than the
    legacy `verbose` flag) must default to None -- the shape that the template obligations cover as "argument omitted"."""
    import ast
    from pyvc import front
    bad = []
    n = 0
    for mod, pick in (('plotink.ebb_motion', lambda q: '.' not in q), ('plotink.ebb3_motion', lambda q: q.startswith('EBBMotionWrap.')),
                      ('plotink.ebb3_serial', lambda q: q.startswith('EBB3.'))):
        mi = front.load(mod)
        for qual, fn in mi.funcs.items():
            if not pick(qual) or qual.split('.')[-1].startswith('_'):
                continue
            names = [a.arg for a in fn.args.args]
            for a, d in zip(names[len(names) - len(fn.args.defaults):], fn.args.defaults):
                if a == 'verbose':
                    continue
                n += 1
                if not (isinstance(d, ast.Constant) and d.value is None):
                    bad.append(f'{mod}.{qual}({a}={ast.unparse(d)})')
    sess.add('helpers/optional-parameters-default-to-None', 'plotink.ebb_motion / ebb3_motion / ebb3_serial', 'ensures', [],
             z3.BoolVal(not bad and n > 0), replay=(lambda model, ob: {'confirmed': False, 'summary': 'defaults: ' + ', '.join(bad)}))

def build(sess):
    sess.level = 'proof'
    sess.trust(
        'pyvc symbolic executor and its model of the Python subset; structured strings (str(int) is an opaque atom str_of(n), '
        'equal atoms iff equal integer terms)',
        'call-site contracts of EBB3.command (one write of ascii(strip(text)+CR)) and ebb_serial.command (one write of '
        'ascii(text)), proved of the real bodies in C05 / C07',
        'template table in contracts/c06.py transcribed from the property statement and the EBB command reference',
        'arguments are Python ints (None for omitted optional ones); device acknowledges every command',
    )
    coverage_of_helpers(sess)
    check_defaults(sess)
    # the helpers are verified against the CALL-SITE contracts of EBB3.command and ebb_serial.command; those contracts are re-proved of
    # the real bodies here (same obligations as C05 / C07), so that a change inside command() that re-sends or rewrites a request
    # fails this property's check too
    from . import c05, c07
    kf = native('n_serial', 'kf_c05_1', {})
    c05.check_request(sess, 'command', bool(kf.get('reproduces')))
    c07.check_command(sess)
    check_ebb3_helpers(sess)
    check_legacy_helpers(sess)
    check_pause(sess)
    check_motors_enable(sess)
    check_layer_agreement(sess)
    # canary: swapped axis order must be refuted
    x, y, d = VInt(z3.Int('delta_x')), VInt(z3.Int('delta_y')), VInt(z3.Int('duration'))
    good, bad = T('SM,', d, ',', y, ',', x), T('SM,', d, ',', x, ',', y)
    sess.canary('xy-order-swapped', [], good.z() == bad.z())
    sess.explanation = ('Every helper of both layers is executed symbolically (all optional-argument shapes, port present / '
                        'absent) and its write trace is compared with the documented template; pause chunking is proved with a '
                        'loop invariant (sum conserved, chunk in 1..750, variant); motors_enable against its documented sequence '
                        'for every board state; layer agreement as equality of template rows.')


def fallback(sess):
    out = []
    for layer, table in (('ebb3', list(EBB3_TEMPLATES) + ['timed_pause', 'motors_enable']), ('legacy', list(LEG_TEMPLATES) + ['doTimedPause'])):
        for fn in table:
            r = native('n_c06', 'search', {'layer': layer, 'fn': fn})
            r['what'] = f'n_c06.search[{layer}.{fn}]'
            out.append(r)
    # call histories on one object (a remembered board state must not go stale): the board-state oracle of C16
    r = native('n_c16', 'search', {'what': 'motors'})
    r['what'] = 'n_c16.search[motors, incl. three-request histories]'
    out.append(r)
    return out
