"""Concrete argument lists for the engine-versus-CPython differential (thorough tier; DESIGN 5.3).  Seeded by VERIF_SEED."""
import random

M = 2 ** 31


def T(*xs):
    return ['__tuple__', list(xs)]


def cases_for(prop, seed):
    rnd = random.Random(seed)
    ri = lambda m: rnd.randint(-2 ** m, 2 ** m)
    out = []
    if prop == 'C01':
        cs = [[ri(rnd.choice([4, 16, 31])), ri(rnd.choice([3, 12, 28])), rnd.randint(1, 2 ** rnd.choice([3, 10, 20])),
               rnd.choice(['clear', 0, M - 1, rnd.randint(0, M - 1)])] for _ in range(150)]
        out.append(('plotink.ebb_calc', 'move_dist_lt', cs, {'ghost_dps': 15}))
        out.append(('plotink.ebb_motion', 'moveDistLMA', cs[:40], {'ghost_dps': 15}))
        out.append(('plotink.ebb_motion', 'moveDistLM', [c[:3] for c in cs[:40]], {'ghost_dps': 15}))
    elif prop == 'C02':
        cs = []
        for _ in range(150):
            Tt = rnd.randint(1, 2 ** rnd.choice([2, 6, 12]))
            cs.append([Tt, ri(rnd.choice([4, 20, 30])), ri(rnd.choice([3, 16, 26])), rnd.choice([0, ri(3), ri(14)]),
                       rnd.choice(['clear', 0, M - 1, rnd.randint(0, M - 1)])])
        out.append(('plotink.ebb_calc', 'move_dist_t3', cs, {'ghost_dps': 15, 'mpf_inexact': 'emulate', 'mpf_checks': False}))
        out.append(('plotink.ebb_calc', 'rate_t3', [c[:4] for c in cs], {}))
    elif prop == 'C17':
        cs = [[rnd.randint(1, 400), ri(rnd.choice([4, 24])), ri(rnd.choice([3, 18])), rnd.choice([0, ri(3), ri(12)])] for _ in range(150)]
        out.append(('plotink.ebb_calc', 'max_rate_t3', cs, {}))
    elif prop == 'C18':
        v = lambda: rnd.choice([0.0, 1.0, -2.0, 10.0, 10.25, 9.75, rnd.uniform(-20, 20)])
        out.append(('plotink.plot_utils', 'checkLimits', [[v(), -2.0, 10.0] for _ in range(60)], {}))
        out.append(('plotink.plot_utils', 'checkLimitsTol', [[v(), -2.0, 10.0, 0.25] for _ in range(60)], {}))
        out.append(('plotink.plot_utils', 'constrainLimits', [[v(), -2.0, 10.0] for _ in range(60)], {}))
        out.append(('plotink.plot_utils', 'point_in_bounds', [[[v(), v()], [[0.0, 0.0], [10.0, 8.5]], 0.25] for _ in range(60)], {}))
    elif prop == 'C08':
        pt = lambda: [float(rnd.randint(-6, 16)), float(rnd.randint(-6, 16))]
        out.append(('plotink.plot_utils', 'clip_segment', [[[pt(), pt()], [[0.0, 0.0], [10.0, 10.0]]] for _ in range(200)], {}))
        out.append(('plotink.plot_utils', 'clip_code', [[float(rnd.randint(-3, 13)), float(rnd.randint(-3, 13)), 0.0, 10.0, 0.0, 10.0] for _ in range(60)], {}))
    elif prop == 'C09':
        pts = lambda n: [T(float(rnd.randint(0, 6)), float(rnd.randint(0, 6))) for _ in range(n)]
        out.append(('plotink.plot_utils', 'points_in_tolerance', [[pts(rnd.randint(3, 6)), rnd.choice([0.5, 1.0, 2.5])] for _ in range(120)], {}))
        out.append(('plotink.plot_utils', 'supersample', [[pts(rnd.randint(0, 7)), rnd.choice([-1.0, 0.0, 0.5, 1.0, 2.5])] for _ in range(120)], {'check_args': True}))
    elif prop == 'C11':
        vbs = ['0 0 100 50', '10,20,50,100', ' 1 2  30 30 ', '-5 -7 80 20 9', None, '', '1 2 3', 'a b c d', '0 0 0 10']
        pars = [None, '', 'none', 'xMinYMax slice', 'defer xMaxYMid meet', 'XMIDYMIN', 'defer', 'xMidYMid,slice']
        out.append(('plotink.plot_utils', 'vb_scale', [[rnd.choice(vbs), rnd.choice(pars), rnd.choice([200, 100.0, 0]), rnd.choice([200, 400.0, -1])] for _ in range(150)], {}))
    elif prop == 'C12':
        texts = ['12', ' 3.5mm ', '1e2pt', '.5in', '7pc', '2cm', '10Q', '4q', '50%', '5em', 'px', '', 'abc', '-3.25px', '+7']
        out.append(('plotink.plot_utils', 'parseLengthWithUnits', [[t] for t in texts] + [[None]], {}))
        out.append(('plotink.plot_utils', 'unitsToUserUnits', [[t, r] for t in texts for r in (None, 200)], {}))
        out.append(('plotink.plot_utils', 'userUnitToUnits', [[d, u] for d in (96.0, 12.5, None) for u in ('', 'px', 'in', 'mm', 'cm', 'pt', 'pc', 'Q', 'q', '%', 'em')], {}))
    elif prop == 'C20':
        out.append(('plotink.text_utils', 'xml_escape', [[t] for t in ['', 'a<b', 'AT&T', '&amp;', '"q\'', 'x>y&&z', 'plain']], {}))
        ds = [0, 9.9994, 9.9996, 10, 59.4, 59.6, 60, 3599.4, 3599.6, 3600, 86399.7] + [rnd.uniform(0, 5000) for _ in range(40)]
        out.append(('plotink.text_utils', 'format_hms', [[d, False] for d in ds] + [[d * 1000, True] for d in ds], {}))
    elif prop == 'C14':
        def boxes():
            n = rnd.randint(0, 9)
            return [T(i, T(*(lambda x, y: (float(x), float(y), float(x + rnd.randint(0, 2)), float(y + rnd.randint(0, 2))))(rnd.randint(0, 4), rnd.randint(0, 4)))) for i in range(n)]
        out.append(('plotink.rtree', 'Index.intersection', [[[boxes()], T(float(rnd.randint(-1, 5)), float(rnd.randint(-1, 5)), float(rnd.randint(2, 7)), float(rnd.randint(2, 7)))] for _ in range(80)],
                    {'ctor': True}))
    elif prop == 'C03':
        cs = []
        for _ in range(220):
            st = rnd.choice([rnd.randint(-40, 400), rnd.randint(1, 6), 0])
            rt = rnd.choice([ri(28), ri(20), rnd.randint(-3, 3)])
            ac = rnd.choice([0, ri(20), ri(10), -rt // max(1, rnd.randint(1, 40))])
            cs.append([st, rt, ac, rnd.choice(['clear', 0, M - 1, rnd.randint(0, M - 1)])])
        # every mpmath operation is emulated bit-exactly (correct rounding at the working precision), sqrt included
        out.append(('plotink.ebb_calc', 'calculate_lm', cs, {'ghost_dps': 15, 'mpf_inexact': 'emulate', 'mpf_checks': False}))
        out.append(('plotink.ebb_motion', 'moveTimeLM', [c[:3] for c in cs[:60]], {'ghost_dps': 15, 'mpf_inexact': 'emulate', 'mpf_checks': False}))
    elif prop == 'C13':
        cs = []
        while len(cs) < 60:
            n = rnd.randint(1, 6)
            v = [[[float(rnd.randint(0, 8)), float(rnd.randint(0, 8))], [float(rnd.randint(0, 8)), float(rnd.randint(0, 8))]] for _ in range(n)]
            rev = rnd.choice([True, False])
            xs = [q[0][0] for q in v] + ([q[1][0] for q in v] if rev else [])
            ys = [q[0][1] for q in v] + ([q[1][1] for q in v] if rev else [])
            if max(xs) - min(xs) + max(ys) - min(ys) == 0:
                continue
            order = list(range(n))
            rnd.shuffle(order)
            hist = []
            for k in order[:rnd.randint(0, n)]:
                hist.append(['nearest', [T(float(rnd.randint(-3, 11)), float(rnd.randint(-3, 11)))]])
                hist.append(['remove_path', [k]])
            hist.append(['nearest', [T(float(rnd.randint(-3, 11)), float(rnd.randint(-3, 11)))]])
            cs.append([[v, rnd.choice([1, 2, 3, 4]), rev], hist])
        out.append(('plotink.spatial_grid', 'Index.nearest', cs, {'ctor': True, 'history': True}))
    elif prop == 'C10':
        def curve():
            n = rnd.randint(2, 3)
            return [[[float(rnd.randint(0, 12)), float(rnd.randint(0, 12))] for _ in range(3)] for _ in range(n)]
        out.append(('plotink.plot_utils', 'subdivideCubicPath', [[curve(), rnd.choice([0.5, 1.0, 3.0, 40.0])] for _ in range(30)], {'check_args': True}))
    return out
