"""C13 -- spatial_grid.Index: nearest() returns a live path end that no neighbouring end beats.   HYBRID (DESIGN C13).

Abstract view of an Index (the representation invariant Inv):
   B = bins_per_side >= 1, n = path_count >= 0, bin sizes > 0, finite coordinates
   G(c, e)   "end id e is stored in grid[c]";   LK(e) = lookup[e];   live(e) := G(LK(e), e)
   (R3) G(c, e) => LK(e) == c, 0 <= c < B^2, 0 <= e < 2n, (e >= n => reverse)       nothing dead, nothing misplaced
   (R2) every stored end occurs exactly once in its cell (so list.remove deletes it)
   (R4) adjacents[c] holds exactly the cells at Chebyshev distance <= 1 of c inside the B x B grid (c itself included)
PROVED from the real source, given Inv (pointwise at an arbitrary end e*):
   nearest(v):  result None  =>  no end is live;   result r  =>  r is live (a start, or an end only if reverse),
                and every live e* whose cell lies in the 3x3 neighbourhood of the query's cell has dist(v, r) <= dist(v, e*);
                when the call went through the global fallback, dist(v, r) <= dist(v, e*) for EVERY live e*;  nothing is modified
   remove_path(p): the ends of p leave the grid, every other (cell, id) stays: Inv is preserved with live' = live minus p
   find_adjacents: one iteration for an arbitrary cell (x_col, y_row) appends exactly its in-grid neighbours (R4 for that cell)
   lemma: an end within one cell width of an in-grid query lies in the 3x3 neighbourhood
   __init__: for >= 1 paths with finite coordinates and non-zero extent (two usable ends at different positions), B >= 1, any reverse:
                never raises; sizes (R1), bin sizes > 0; stored(c, e) <=> e is a usable end and c == cell(pt(e)); lookup[e] == cell(pt(e))
                inside the grid; every id appended exactly once (R2); adjacents installed by find_adjacents (modular).  Two loop invariants
                (running extent; filing cursor) over a vertex list of UNKNOWN length, pointwise at skolem indices.
   lemma: the postcondition of __init__ implies the Inv instances the other proofs assume.
ADDITIONALLY (bounded, labelled, not counted as proved): end-to-end removal histories against brute force on small lattices (native/n_c13.py).
"""
import z3

from pyvc.harness import no_raise, oblige_at
from pyvc.engine import Ret, Raised, EngineError, Exec, Path, LoopSpec, fresh_name, NORMAL
from pyvc.values import Val, VInt, VFloat, VTuple, VNone, VBool, NONE, VRef, HList, HObj
from pyvc.session import native

MOD = 'plotink.spatial_grid'
CLS = 'plotink.spatial_grid.Index'
IS, RS, BS = z3.IntSort(), z3.RealSort(), z3.BoolSort()
G = z3.Function('in_grid_cell', IS, IS, BS)
LK = z3.Function('lookup', IS, IS)
VXf = z3.Function('vertex_x', IS, IS, RS)
VYf = z3.Function('vertex_y', IS, IS, RS)
INF = z3.Real('INF')
B = z3.Int('bins_per_side')
N = z3.Int('path_count')
REV = z3.Bool('reverse')


def live(e, g=None):
    g = g or G
    return g(LK(e), e)


def pt(e):
    return (z3.If(e < N, VXf(e, 0), VXf(e - N, 1)), z3.If(e < N, VYf(e, 0), VYf(e - N, 1)))


def r3(c, e, g=None):
    g = g or G
    return z3.Implies(g(c, e), z3.And(LK(e) == c, c >= 0, c < B * B, e >= 0, e < 2 * N, z3.Implies(e >= N, REV)))


NB = z3.Function('in_3x3_neighbourhood', IS, IS, BS)


def neighbourhood(c0, c):
    """c is listed in adjacents[c0].  By R4 (established by find_adjacents, checked below per cell) this is: c is a cell of the grid at
    Chebyshev distance <= 1 of c0.  For nearest() only membership and 0 <= c < B^2 matter, so the predicate stays uninterpreted."""
    return z3.And(NB(c0, c), c >= 0, c < B * B)


# ------------------------------------------------------------------------------ abstract structures
class VVerts(Val):
    pytype = 'list'

    def length(self, ex, p):
        return VInt(N)

    def enumerate(self, ex, p):
        return VEnumVerts()

    @staticmethod
    def elem(t):
        return VTuple([VTuple([VFloat(VXf(t, s)), VFloat(VYf(t, s))]) for s in (0, 1)])

    def getitem(self, ex, p, idx, node=None):
        t = idx.z()
        for q, r in ex.raise_unless(p, z3.And(t >= 0, t < N), 'IndexError', node):
            if r is not None:
                yield q, r
            else:
                yield q, VTuple([VTuple([VFloat(VXf(t, s)), VFloat(VYf(t, s))]) for s in (0, 1)])


class VEnumVerts(Val):
    """enumerate(vertices)"""
    pytype = 'enumerate'


class VLookup(Val):
    pytype = 'list'

    def getitem(self, ex, p, idx, node=None):
        t = idx.z()
        for q, r in ex.raise_unless(p, z3.And(t >= 0, t < z3.If(REV, 2 * N, N)), 'IndexError', node):
            yield q, (r if r is not None else VInt(LK(t)))


class HGridState:
    def __init__(self, mem):
        self.mem = mem

    def copy(self):
        return HGridState(self.mem)


class VGrid(Val):
    pytype = 'list'

    def __init__(self, ref):
        self.ref = ref

    def getitem(self, ex, p, idx, node=None):
        t = idx.z()
        for q, r in ex.raise_unless(p, z3.And(t >= 0, t < B * B), 'IndexError', node):
            yield q, (r if r is not None else VIdList(self, t))


class VIdList(Val):
    """grid[cell]: the ids stored in one cell"""
    pytype = 'list'

    def __init__(self, grid, cell):
        self.grid, self.cell = grid, cell

    def method(self, ex, p, name, args, kwargs, node):
        st = p.heap[self.grid.ref]
        if name == 'remove':
            e = args[0].z()
            for q, r in ex.raise_unless(p, st.mem(self.cell, e), 'ValueError', node):
                if r is not None:
                    yield q, r
                    continue
                old = q.heap[self.grid.ref].mem
                q.heap[self.grid.ref].mem = (lambda c, x, _o=old, _c=self.cell, _e=e: z3.And(_o(c, x), z3.Not(z3.And(c == _c, x == _e))))
                q.ghost['removed'] = q.ghost.get('removed', []) + [(self.cell, e)]
                yield q, NONE
            return
        raise EngineError(f'list method {name} on a grid cell')


class VAdj(Val):
    pytype = 'list'

    def length(self, ex, p):
        return VInt(B * B)

    def getitem(self, ex, p, idx, node=None):
        t = idx.z()
        for q, r in ex.raise_unless(p, z3.And(t >= 0, t < B * B), 'IndexError', node):
            yield q, (r if r is not None else VCellList(t))


class VCellList(Val):
    """adjacents[c0] (R4): membership == neighbourhood(c0, .)"""
    pytype = 'list'

    def __init__(self, c0):
        self.c0 = c0

    def method(self, ex, p, name, args, kwargs, node):
        if name == 'copy':
            yield p, VCellList(self.c0)
            return
        raise EngineError(f'list method {name} on an adjacency list')

    def contains(self, ex, p, a, node=None):
        yield p, neighbourhood(self.c0, a.z())


# ------------------------------------------------------------------------------ nearest: loop invariants
def dist2(v, e):
    x, y = pt(e)
    return (v[0] - x) * (v[0] - x) + (v[1] - y) * (v[1] - y)


class BestLoop(LoopSpec):
    """shared shape of the four scans of nearest()"""
    modifies = frozenset({'best_index', 'best_dist'})      # head() re-describes both (possibly by the very same None object)

    def __init__(self, kind):
        self.kind = kind          # 'cells' (neighbourhood), 'ids' (one grid cell), 'range' (fallback over all cells)

    # -- what "covered" means for the witness in the current context
    def covered(self, p):
        Gh = p.ghost
        c = []
        if 'cov_outer' in Gh:
            c.append(Gh['cov_outer'])
        if self.kind == 'ids':
            c.append(z3.And(Gh['cur_cell'] == LK(Gh['estar']), Gh['visid']))
        return z3.Or(*c) if c else z3.BoolVal(False)

    def inv_now(self, ex, p):
        """invariant on the CURRENT values of best_dist / best_index"""
        Gh = p.ghost
        e, v = Gh['estar'], Gh['query']
        bd, bi = p.env['best_dist'], p.env['best_index']
        out = []
        if isinstance(bi, VNone):
            out.append(('best-None=>best_dist-is-infinite', bd.z() == INF))
        elif isinstance(bi, VInt):
            b = bi.z()
            out.append(('best-is-a-live-end', live(b, Gh['gmem'])))
            out.append(('best_dist-is-its-squared-distance', bd.z() == dist2(v, b)))
        else:
            out.append(('best_index-is-None-or-an-id', z3.BoolVal(False)))
        out.append(('no-covered-live-end-is-closer', z3.Implies(z3.And(live(e, Gh['gmem']), self.covered(p)), bd.z() <= dist2(v, e))))
        return out

    def establish(self, ex, p):
        Gh = p.ghost
        if self.kind == 'cells':
            Gh['cov_outer'] = z3.BoolVal(False)
        elif self.kind == 'range':
            # entering the fallback: the neighbourhood cells have been scanned completely
            Gh['cov_outer'] = neighbourhood(Gh['c0'], LK(Gh['estar']))
        else:
            Gh['visid'] = z3.BoolVal(False)
        return [(f'{self.kind}:{n}', g) for n, g in self.inv_now(ex, p)]

    def head(self, ex, p):
        Gh = p.ghost
        v = Gh['query']
        if self.kind == 'cells':
            Gh['viscell'] = z3.Bool(fresh_name('witness_cell_scanned'))
            Gh['cov_outer'] = Gh['viscell']
        elif self.kind == 'range':
            k = z3.Int(fresh_name('cell_cursor'))
            Gh['kcur'] = k
            p.assume(k >= 0)
            Gh['cov_outer'] = z3.Or(neighbourhood(Gh['c0'], LK(Gh['estar'])), LK(Gh['estar']) < k)
        else:
            Gh['visid'] = z3.Bool(fresh_name('witness_id_visited'))
        for nm in ('dist', 'vertex', 'path_index'):
            p.env.pop(nm, None)
        a = p.fork()
        a.trail.append('best-none')
        a.env['best_index'] = NONE
        a.env['best_dist'] = VFloat(INF)
        b = p
        b.trail.append('best-some')
        bi = z3.Int(fresh_name('best_index'))
        b.env['best_index'] = VInt(bi)
        b.env['best_dist'] = VFloat(z3.Real(fresh_name('best_dist')))
        b.assume(z3.And(r3(LK(bi), bi, Gh['gmem']), dist2(v, bi) < INF))
        for q in (a, b):
            for _, g in self.inv_now(ex, q):
                q.assume(g)
        return [a, b]

    def bind(self, ex, h, s, it):
        Gh = h.ghost
        e = Gh['estar']
        if self.kind == 'cells':
            if not isinstance(it, VCellList):
                raise EngineError('neighbourhood scan over something that is not adjacents[cell].copy()')
            done = h.fork()
            done.trail.append('cells-exhausted')
            done.assume(z3.Implies(neighbourhood(it.c0, LK(e)), Gh['viscell']))
            yield done, False
            cc = z3.Int(fresh_name('cell'))
            h.assume(neighbourhood(it.c0, cc))
            h.ghost['cur_cell'] = cc
            val = VInt(cc)
        elif self.kind == 'range':
            from pyvc.seqops import VRange
            if not isinstance(it, VRange):
                raise EngineError('fallback scan is not over a range')
            k = Gh['kcur']
            done = h.fork()
            done.trail.append('range-exhausted')
            done.assume(k >= it.hi.z())
            yield done, False
            h.assume(k < it.hi.z())
            h.ghost['cur_cell'] = k
            val = VInt(k)
        else:
            if not isinstance(it, VIdList):
                raise EngineError('id scan over something that is not grid[cell]')
            mem = h.heap[it.grid.ref].mem
            done = h.fork()
            done.trail.append('ids-exhausted')
            done.assume(z3.Implies(mem(it.cell, e), Gh['visid']))
            yield done, False
            ce = z3.Int(fresh_name('id'))
            h.assume(z3.And(mem(it.cell, ce), r3(it.cell, ce, mem), dist2(Gh['query'], ce) < INF))
            h.ghost['cur_id'] = ce
            h.ghost['cur_cell'] = it.cell
            val = VInt(ce)
        h.trail.append(f'{self.kind}-next')
        for q, o in ex.assign(h, s.target, val):
            yield q, (True if o is NORMAL else o)

    def preserve(self, ex, p):
        Gh = p.ghost
        e = Gh['estar']
        if self.kind == 'cells':
            Gh['cov_outer'] = z3.Or(Gh['viscell'], Gh['cur_cell'] == LK(e))
        elif self.kind == 'range':
            Gh['cov_outer'] = z3.Or(neighbourhood(Gh['c0'], LK(e)), LK(e) < Gh['kcur'] + 1)
        else:
            Gh['visid'] = z3.Or(Gh['visid'], Gh['cur_id'] == e)
        return [(f'{self.kind}:{n}', g) for n, g in self.inv_now(ex, p)]


def replay13(what):
    def fn(model, ob):
        out = native('n_c13', 'search', {'what': what})
        return {'native_input': out.get('input'), 'confirmed': bool(out.get('found')), 'observed': out.get('observed'),
                'expected': out.get('expected'), 'summary': f"{what}: {out.get('input')} -> {out.get('observed')} expected {out.get('expected')}"}
    return fn


def new_index(p):
    """an arbitrary Index object satisfying Inv (instances are added where they are used)"""
    xmin, ymin, bsx, bsy = z3.Reals('xmin ymin bin_size_x bin_size_y')
    p.assume(z3.And(B >= 1, N >= 0, bsx > 0, bsy > 0, INF > 0))
    gref = p.alloc(HGridState(lambda c, e: G(c, e)), 'grid').ref
    fields = {'bins_per_side': VInt(B), 'path_count': VInt(N), 'reverse': VBool(REV), 'xmin': VFloat(xmin), 'ymin': VFloat(ymin),
              'bin_size_x': VFloat(bsx), 'bin_size_y': VFloat(bsy), 'vertices': VVerts(), 'lookup': VLookup(), 'grid': VGrid(gref),
              'adjacents': VAdj()}
    obj = p.alloc(HObj(CLS, fields), 'Index')
    return obj, gref, (xmin, ymin, bsx, bsy)


def cell_of(vx, vy, xmin, ymin, bsx, bsy):
    clamp = lambda t: z3.If(t > B - 1, B - 1, z3.If(t < 0, 0, t))
    return clamp(z3.ToInt((vx - xmin) / bsx)) + B * clamp(z3.ToInt((vy - ymin) / bsy))


def check_nearest(sess):
    ctx = sess.new_ctx()
    ctx.opts['inf_symbol'] = INF
    ctx.inline.add('plotink.plot_utils.square_dist')
    ctx.opts['prune_timeout_ms'] = 2000
    for k, kind in enumerate(('cells', 'ids', 'range', 'ids')):
        ctx.loop_specs[(f'{MOD}.Index.nearest', k)] = BestLoop(kind)
    stores = []
    ctx.opts['on_setattr'] = lambda ex, p, base, attr, v, node: stores.append(attr)
    ex = Exec(ctx)
    p = Path()
    obj, gref, (xmin, ymin, bsx, bsy) = new_index(p)
    vx, vy, e = z3.Real('query_x'), z3.Real('query_y'), z3.Int('estar')
    p.assume(z3.And(vx < INF, vx > -INF, vy < INF, vy > -INF))
    c0 = cell_of(vx, vy, xmin, ymin, bsx, bsy)
    p.ghost.update(estar=e, query=(vx, vy), c0=c0, gmem=(lambda c, x: G(c, x)))
    # Inv instances at the witness
    p.assume(z3.And(r3(LK(e), e), z3.Implies(live(e), dist2((vx, vy), e) < INF)))
    outs = list(ex.run_function(p, MOD, 'Index.nearest', [obj, VTuple([VFloat(vx), VFloat(vy)])]))
    tag = 'Index.nearest'
    kinds = set()
    for q, out in outs:
        if not no_raise(ex, q, out, tag):
            continue
        r = out.val
        fell_back = any(t.startswith('range-') for t in q.trail)
        if isinstance(r, VNone):
            kinds.add('none')
            oblige_at(ex, q, tag, 'ensures', z3.Not(live(e)), 'None=>no-end-is-live')
        elif isinstance(r, VInt):
            kinds.add('fallback' if fell_back else 'neighbourhood')
            b = r.z()
            oblige_at(ex, q, tag, 'ensures', z3.And(live(b), b >= 0, b < 2 * N, z3.Implies(b >= N, REV)), 'result-is-a-live-end(an-end-only-if-reverse)')
            oblige_at(ex, q, tag, 'ensures', z3.Implies(z3.And(live(e), neighbourhood(c0, LK(e))), dist2((vx, vy), b) <= dist2((vx, vy), e)),
                      'no-live-end-in-the-3x3-neighbourhood-is-closer')
            if fell_back:
                oblige_at(ex, q, tag, 'ensures', z3.Implies(live(e), dist2((vx, vy), b) <= dist2((vx, vy), e)), 'after-the-fallback:globally-closest-live-end')
        else:
            oblige_at(ex, q, tag, 'ensures', False, 'returns-None-or-an-id')
        oblige_at(ex, q, tag, 'frame', not stores and not q.ghost.get('removed'), 'nearest-modifies-nothing')
    if kinds != {'none', 'fallback', 'neighbourhood'}:
        raise EngineError(f'nearest: result kinds reached {kinds}')
    sess.absorb(ctx, replay=replay13('nearest'))
    sess.cover('nearest/Inv-instance', [B >= 1, N >= 1, live(e), r3(LK(e), e), bsx > 0, bsy > 0])


def check_remove(sess):
    for rev in (False, True):
        ctx = sess.new_ctx()
        ex = Exec(ctx)
        p = Path()
        obj, gref, _ = new_index(p)
        p.assume(REV == rev)
        pi, c, e = z3.Ints('path_index any_cell any_id')
        # requires: p is a live path: its start (and, when reversing, its end) are stored where lookup says
        p.assume(z3.And(pi >= 0, pi < N, live(pi), r3(LK(pi), pi)))
        if rev:
            p.assume(z3.And(live(pi + N), r3(LK(pi + N), pi + N)))
        outs = list(ex.run_function(p, MOD, 'Index.remove_path', [obj, VInt(pi)]))
        tag = f'Index.remove_path[reverse={rev}]'
        for q, out in outs:
            if not no_raise(ex, q, out, tag):
                continue
            mem = q.heap[gref].mem
            gone = z3.Or(z3.And(c == LK(pi), e == pi), z3.And(z3.BoolVal(rev), c == LK(pi + N), e == pi + N))
            oblige_at(ex, q, tag, 'ensures', mem(c, e) == z3.And(G(c, e), z3.Not(gone)), 'exactly-the-ends-of-the-path-leave-the-grid')
            oblige_at(ex, q, tag, 'ensures', z3.Implies(r3(c, e), r3(c, e, mem)), 'Inv-R3-preserved')
            oblige_at(ex, q, tag, 'ensures', z3.And(z3.Not(mem(LK(pi), pi)), z3.Implies(z3.BoolVal(rev), z3.Not(mem(LK(pi + N), pi + N)))), 'removed-path-is-no-longer-live')
        sess.absorb(ctx, replay=replay13('remove'))


class VAdjBuild(Val):
    """self.adjacents during find_adjacents: only the current cell's list is materialised (a concrete Python list [c, ...])"""
    pytype = 'list'

    def __init__(self):
        self.cells = {}

    def getitem(self, ex, p, idx, node=None):
        t = z3.simplify(idx.z())
        key = str(t)
        if key not in p.ghost.setdefault('adj_cells', {}):
            p.ghost['adj_cells'] = dict(p.ghost['adj_cells'])
            p.ghost['adj_cells'][key] = (t, p.alloc(HList([VInt(t)]), 'list'))       # invariant: an unvisited cell holds [c]
        yield p, p.ghost['adj_cells'][key][1]


def check_find_adjacents(sess):
    """one iteration of the double loop for an arbitrary cell: run the real loop BODY statements on a symbolic (x_col, y_row)"""
    from pyvc import front
    import ast
    ctx = sess.new_ctx()
    ctx.note_function(MOD, 'Index.find_adjacents')
    fn = front.load(MOD).func('Index.find_adjacents')
    loops = [n for n in ast.walk(fn) if isinstance(n, ast.For)]
    loops.sort(key=lambda n: n.lineno)
    if len(loops) != 2 or loops[1] not in list(ast.walk(loops[0])):
        raise EngineError('find_adjacents: expected two nested for-loops')
    outer, inner = loops
    ok_ranges = all(isinstance(l.iter, ast.Call) and getattr(l.iter.func, 'id', '') == 'range' and len(l.iter.args) == 1 for l in loops)
    sess.add('find_adjacents/loops-enumerate-range(bins_per_side)-twice', 'Index.find_adjacents', 'ensures', [],
             z3.BoolVal(ok_ranges and ast.unparse(outer.iter.args[0]) == 'self.bins_per_side' and ast.unparse(inner.iter.args[0]) == 'self.bins_per_side'),
             replay=replay13('adjacents'))
    ex = Exec(ctx)
    p = Path()
    x, y, dx, dy = z3.Ints('x_col y_row dx dy')
    p.assume(z3.And(B >= 1, x >= 0, x < B, y >= 0, y < B))
    obj = p.alloc(HObj(CLS, {'bins_per_side': VInt(B), 'adjacents': VAdjBuild()}), 'Index')
    from pyvc.engine import Frame
    pre = [st for st in fn.body if st.lineno < outer.lineno and not (isinstance(st, ast.Assign) and 'adjacents' in ast.unparse(st.targets[0]))]
    p.frames.append(Frame({'self': obj}, MOD, 'Index.find_adjacents', 'Index'))
    paths = [(p, NORMAL)]
    for st in pre:
        paths = [(q2, o2) for q, o in paths for q2, o2 in ex.exec_stmt(st, q)]
    n = 0
    for q, o in paths:
        q.env[outer.target.id] = VInt(y) if outer.target.id == 'y_row' else VInt(x)
        q.env[inner.target.id] = VInt(x) if inner.target.id == 'x_col' else VInt(y)
        for q2, out in ex.exec_block(inner.body, q):
            tag = 'Index.find_adjacents(one-cell)'
            if out is not NORMAL:
                oblige_at(ex, q2, tag, 'ensures', False, 'loop-body-completes-normally')
                continue
            cells = q2.ghost.get('adj_cells', {})
            c0 = x + B * y
            if len(cells) > 1:
                oblige_at(ex, q2, tag, 'ensures', False, 'touches-only-the-current-cell\'s-list')
                continue
            if cells:
                t, ref = list(cells.values())[0]
                oblige_at(ex, q2, tag, 'ensures', t == c0, 'the-list-touched-is-adjacents[x_col+B*y_row]')
                items = [it.z() for it in q2.heap[ref.ref].items]
            else:
                items = [c0]          # nothing appended: the list keeps its initial content [c]
            cand = c0 + dx + B * dy
            inside = z3.And(x + dx >= 0, x + dx < B, y + dy >= 0, y + dy < B)
            rng = z3.And(dx >= -1, dx <= 1, dy >= -1, dy <= 1)
            oblige_at(ex, q2, tag, 'ensures', z3.Implies(z3.And(rng, inside), z3.Or(*[it == cand for it in items])), 'every-in-grid-neighbour-is-listed')
            oblige_at(ex, q2, tag, 'ensures', z3.And(*[a_ != b_ for k_, a_ in enumerate(items) for b_ in items[k_ + 1:]]) if len(items) > 1 else True, 'no-cell-listed-twice')
            # nothing but neighbours, no duplicates
            oblige_at(ex, q2, tag, 'ensures', z3.And(*[z3.Or(*[z3.And(it == c0 + a + B * b, x + a >= 0, x + a < B, y + b >= 0, y + b < B)
                                                                for a in (-1, 0, 1) for b in (-1, 0, 1)]) for it in items]), 'only-in-grid-neighbours-are-listed')
            n += 1
    if n == 0:
        raise EngineError('find_adjacents: no body path')
    sess.functions.update(ctx.functions)
    sess.absorb(ctx, replay=replay13('adjacents'))
    # the cell index is injective on the grid, so iterations for different cells touch different lists
    x2, y2 = z3.Ints('x2 y2')
    sess.add('lemma/cell-index-injective', 'spec', 'lemma', [B >= 1, x >= 0, x < B, y >= 0, y < B, x2 >= 0, x2 < B, y2 >= 0, y2 < B, x + B * y == x2 + B * y2],
             z3.And(x == x2, y == y2))



# ------------------------------------------------------------------------------ __init__ establishes Inv
class HFnState:
    """a list of unknown length seen as index -> Int term"""
    def __init__(self, fn, n):
        self.fn, self.n = fn, n

    def copy(self):
        return HFnState(self.fn, self.n)


class VLookupB(Val):
    """self.lookup while __init__ fills it: [0] * n with functional updates"""
    pytype = 'list'

    def __init__(self, ref):
        self.ref = ref

    def setitem(self, ex, p, idx, v, node=None):
        st = p.heap[self.ref]
        if not isinstance(idx, VInt) or not isinstance(v, VInt):
            raise EngineError('lookup[...] = ... with non-integer operands')
        t, val = idx.z(), v.z()
        for q, r in ex.raise_unless(p, z3.And(t >= 0, t < st.n), 'IndexError', node):
            if r is not None:
                yield q, r
                continue
            old = q.heap[self.ref].fn
            q.heap[self.ref].fn = (lambda e, _o=old, _t=t, _v=val: z3.If(e == _t, _v, _o(e)))
            yield q, NORMAL


class VGridB(Val):
    """self.grid while __init__ fills it: ncells lists, membership view"""
    pytype = 'list'

    def __init__(self, ref, ncells):
        self.ref, self.ncells = ref, ncells

    def getitem(self, ex, p, idx, node=None):
        t = idx.z()
        for q, r in ex.raise_unless(p, z3.And(t >= 0, t < self.ncells), 'IndexError', node):
            yield q, (r if r is not None else VIdListB(self, t))


class VIdListB(Val):
    pytype = 'list'

    def __init__(self, grid, cell):
        self.grid, self.cell = grid, cell

    def method(self, ex, p, name, args, kwargs, node):
        if name != 'append' or len(args) != 1 or not isinstance(args[0], VInt):
            raise EngineError(f'list method {name} on a grid cell under construction')
        e = args[0].z()
        inst = p.ghost.get('fill_inv_at')
        if inst is not None:
            p.assume(inst(self.cell, e))          # the (quantified) loop invariant, instantiated at the pair being touched
        st = p.heap[self.grid.ref]
        c_any = z3.Int(fresh_name('any_cell'))
        if inst is not None:
            p.assume(inst(c_any, e))
        ex.oblige(p, 'ensures', z3.Not(st.mem(c_any, e)), f'id-appended-at-L{getattr(node, "lineno", "?")}-is-not-yet-stored-in-any-cell(R2:exactly-once)')
        old = st.mem
        st.mem = (lambda c, x, _o=old, _c=self.cell, _e=e: z3.Or(_o(c, x), z3.And(c == _c, x == _e)))
        yield p, NONE


def within(ext, j):
    xmin, ymin, xmax, ymax = ext
    a = z3.And(xmin <= VXf(j, 0), VXf(j, 0) <= xmax, ymin <= VYf(j, 0), VYf(j, 0) <= ymax)
    b = z3.And(xmin <= VXf(j, 1), VXf(j, 1) <= xmax, ymin <= VYf(j, 1), VYf(j, 1) <= ymax)
    return z3.And(a, z3.Implies(REV, b))


def finite(j):
    return z3.And(*[z3.And(f(j, s) < INF, f(j, s) > -INF) for f in (VXf, VYf) for s in (0, 1)])


def valid_end(e):
    return z3.Or(z3.And(e >= 0, e < N), z3.And(REV, e >= N, e < 2 * N))


def path_of(e):
    return z3.If(e < N, e, e - N)


class ExtentA(LoopSpec):
    """for [x_1, y_1], [x_2, y_2] in vertices: running extent.
    Invariant (cursor k): for all paths j < k: xmin <= x_j <= xmax, ymin <= y_j <= ymax for the start (and the end when reversing).
    Proved pointwise at the skolem path indices in p.ghost['ext_inst']; being proved for an arbitrary index it may be instantiated
    anywhere after the loop (p.ghost['extent_fact'])."""
    def ext(self, p):
        f = p.heap[p.env['self'].ref].fields
        return (f['xmin'].z(), f['ymin'].z(), p.env['xmax'].z(), p.env['ymax'].z())

    def establish(self, ex, p):
        ok = all(isinstance(p.heap[p.env['self'].ref].fields.get(n), VFloat) for n in ('xmin', 'ymin')) and \
            all(isinstance(p.env.get(n), VFloat) for n in ('xmax', 'ymax'))
        return [('extent-variables-are-floats-on-entry', z3.BoolVal(ok))]

    def head(self, ex, p):
        f = p.heap[p.env['self'].ref].fields
        for nm in ('xmin', 'ymin'):
            f[nm] = VFloat(z3.Real(fresh_name('self_' + nm)))
        for nm in ('xmax', 'ymax'):
            p.env[nm] = VFloat(z3.Real(fresh_name(nm)))
        k = z3.Int(fresh_name('cursor_A'))
        p.ghost['kA'] = k
        p.assume(k >= 0)
        for j in p.ghost['ext_inst']:
            p.assume(z3.Implies(z3.And(j >= 0, j < k), within(self.ext(p), j)))

    def bind(self, ex, h, s, it):
        if not isinstance(it, VVerts):
            raise EngineError('extent loop is not over the vertex list')
        k = h.ghost['kA']
        done = h.fork()
        done.trail.append('extent-exhausted')
        done.assume(k == N)
        ext = self.ext(done)
        done.ghost['extent_fact'] = (lambda j, _e=ext: z3.Implies(z3.And(j >= 0, j < N), within(_e, j)))
        yield done, False
        h.assume(z3.And(k < N, finite(k)))
        h.trail.append('extent-next')
        for q, o in ex.assign(h, s.target, VVerts.elem(k)):
            yield q, (True if o is NORMAL else o)

    def preserve(self, ex, p):
        k = p.ghost['kA']
        ok = all(isinstance(v, VFloat) for v in (p.heap[p.env['self'].ref].fields.get('xmin'), p.heap[p.env['self'].ref].fields.get('ymin'),
                                                 p.env.get('xmax'), p.env.get('ymax')))
        if not ok:
            return [('extent-variables-stay-floats', z3.BoolVal(False))]
        return [(f'extent-encloses-every-visited-path[{n}]', z3.Implies(z3.And(j >= 0, j < k + 1), within(self.ext(p), j)))
                for n, j in enumerate(p.ghost['ext_inst'])]


def cell_terms(p, obj):
    f = p.heap[obj.ref].fields
    return tuple(f[n].z() for n in ('xmin', 'ymin', 'bin_size_x', 'bin_size_y'))


class FillLoop(LoopSpec):
    """for (index_i, [[x_1, y_1], [x_2, y_2]]) in enumerate(vertices): file every end in its cell.
    Invariant (cursor k), for ALL (c, e):   stored(c, e)  <=>  e is an end of a path < k  and  c == cell(pt(e));
                                            lookup[e] == cell(pt(e)) for every end e of a path < k.
    The state at the head is a pair of fresh functions; instances are added at the witness pair and wherever the body touches."""
    def cs(self, p, e):
        x, y = pt(e)
        return cell_of(x, y, *p.ghost['cellgeom'])

    def filed(self, k, e):
        return z3.Or(z3.And(e >= 0, e < k), z3.And(REV, e >= N, e < N + k))

    def inv_g(self, p, mem, k, c, e):
        return mem(c, e) == z3.And(self.filed(k, e), c == self.cs(p, e))

    def inv_l(self, p, fn, k, e):
        return z3.Implies(self.filed(k, e), fn(e) == self.cs(p, e))

    def states(self, p):
        f = p.heap[p.env['self'].ref].fields
        g, l = f.get('grid'), f.get('lookup')
        if not (isinstance(g, VGridB) and isinstance(l, VLookupB)):
            return None
        return p.heap[g.ref], p.heap[l.ref]

    def establish(self, ex, p):
        st = self.states(p)
        if st is None:
            return [('grid-and-lookup-are-freshly-initialised-lists', z3.BoolVal(False))]
        p.ghost['cellgeom'] = cell_terms(p, p.env['self'])
        c, e = p.ghost['wit']
        return [('nothing-stored-before-the-first-path', self.inv_g(p, st[0].mem, z3.IntVal(0), c, e))]

    def head(self, ex, p):
        st = self.states(p)
        k = z3.Int(fresh_name('cursor_B'))
        p.ghost['kB'] = k
        p.assume(k >= 0)
        Gh = z3.Function(fresh_name('stored_at_head'), IS, IS, BS)
        Lh = z3.Function(fresh_name('lookup_at_head'), IS, IS)
        st[0].mem = (lambda c, e: Gh(c, e))
        st[1].fn = (lambda e: Lh(e))
        p.ghost['fill_inv_at'] = (lambda c, e, _p=p, _k=k: self.inv_g(_p, (lambda c2, e2: Gh(c2, e2)), _k, c, e))
        c, e = p.ghost['wit']
        p.assume(self.inv_g(p, st[0].mem, k, c, e))
        p.assume(self.inv_l(p, st[1].fn, k, e))

    def bind(self, ex, h, s, it):
        if not isinstance(it, VEnumVerts):
            raise EngineError('fill loop is not over enumerate(vertices)')
        k = h.ghost['kB']
        done = h.fork()
        done.trail.append('fill-exhausted')
        done.assume(k == N)
        done.ghost.pop('fill_inv_at', None)
        yield done, False
        h.assume(z3.And(k < N, finite(k), h.ghost['extent_fact'](k)))
        h.trail.append('fill-next')
        for q, o in ex.assign(h, s.target, VTuple([VInt(k), VVerts.elem(k)])):
            yield q, (True if o is NORMAL else o)

    def preserve(self, ex, p):
        st = self.states(p)
        if st is None:
            return [('grid-and-lookup-are-not-replaced-inside-the-loop', z3.BoolVal(False))]
        k = p.ghost['kB']
        c, e = p.ghost['wit']
        return [('stored(c,e)<=>e-filed-and-c==cell(e)', self.inv_g(p, st[0].mem, k + 1, c, e)),
                ('lookup[e]==cell(e)-for-every-filed-end', self.inv_l(p, st[1].fn, k + 1, e))]


class FindAdjContract:
    """self.find_adjacents(): installs the adjacency list (R4, proved per cell in check_find_adjacents); reads bins_per_side only"""
    def apply(self, ex, p, args, kwargs, node):
        obj = args[0]
        f = p.heap[obj.ref].fields
        b = f.get('bins_per_side')
        ex.oblige(p, 'callee-requires', z3.BoolVal(isinstance(b, VInt)) if not isinstance(b, VInt) else b.z() == B, 'find_adjacents:bins_per_side-is-set')
        f['adjacents'] = VAdj()
        yield p, NONE


def init_listcomp(ex, p, e, it):
    """[0 for _ in range(n)] and [[] for _ in range(n)] with symbolic n"""
    import ast
    from pyvc.seqops import VRange
    if not isinstance(it, VRange) or it.conc():
        return None
    gen = e.generators[0]
    if gen.ifs or not (it.lo.conc() and it.lo.t == 0 and it.step.conc() and it.step.t == 1):
        return None
    n = z3.If(it.hi.z() > 0, it.hi.z(), 0)
    if isinstance(e.elt, ast.Constant) and type(e.elt.value) is int:
        v = e.elt.value
        ref = p.alloc(HFnState((lambda x, _v=v: z3.IntVal(_v)), n), 'lookup').ref
        return VLookupB(ref)
    if isinstance(e.elt, ast.List) and not e.elt.elts:
        ref = p.alloc(HGridState(lambda c, x: z3.BoolVal(False)), 'grid').ref
        return VGridB(ref, n)
    return None


def check_init(sess):
    ctx = sess.new_ctx()
    ctx.opts['inf_symbol'] = INF
    ctx.opts['prune_timeout_ms'] = 3000
    ctx.opts['listcomp_hook'] = init_listcomp
    ctx.contracts[f'{CLS}.find_adjacents'] = FindAdjContract()
    ctx.loop_specs[(f'{MOD}.Index.__init__', 0)] = ExtentA()
    ctx.loop_specs[(f'{MOD}.Index.__init__', 1)] = FillLoop()
    ex = Exec(ctx)
    p = Path()
    ea, eb, c, e = z3.Ints('end_a end_b any_cell any_end')
    # requires: B >= 1, finite coordinates, non-zero extent: two (usable) ends at different positions
    xa, ya = pt(ea)
    xb, yb = pt(eb)
    req = [B >= 1, N >= 1, INF > 0, valid_end(ea), valid_end(eb), z3.Or(xa != xb, ya != yb), finite(path_of(ea)), finite(path_of(eb)),
           z3.Implies(valid_end(e), finite(path_of(e)))]
    for r in req:
        p.assume(r)
    p.ghost['ext_inst'] = [path_of(ea), path_of(eb), path_of(e)]
    p.ghost['wit'] = (c, e)
    obj = p.alloc(HObj(CLS, {}), 'Index')
    verts = VVerts()
    outs = list(ex.run_function(p, MOD, 'Index.__init__', [obj, verts, VInt(B), VBool(REV)]))
    tag = 'Index.__init__'
    n = 0
    for q, out in outs:
        if not no_raise(ex, q, out, tag):
            continue
        f = q.heap[obj.ref].fields
        g, l = f.get('grid'), f.get('lookup')
        shape = (isinstance(g, VGridB) and isinstance(l, VLookupB) and isinstance(f.get('adjacents'), VAdj) and f.get('vertices') is verts
                 and all(isinstance(f.get(nm), VFloat) for nm in ('xmin', 'ymin', 'bin_size_x', 'bin_size_y'))
                 and isinstance(f.get('bins_per_side'), VInt) and isinstance(f.get('path_count'), VInt) and isinstance(f.get('reverse'), VBool))
        oblige_at(ex, q, tag, 'ensures', shape, 'object-holds-grid,lookup,adjacents,vertices,geometry')
        if not shape:
            continue
        n += 1
        xmin, ymin, bsx, bsy = cell_terms(q, obj)
        mem, fn = q.heap[g.ref].mem, q.heap[l.ref].fn
        x, y = pt(e)
        cell = cell_of(x, y, xmin, ymin, bsx, bsy)
        oblige_at(ex, q, tag, 'ensures', z3.And(f['bins_per_side'].z() == B, f['path_count'].z() == N, f['reverse'].z() == REV), 'R1:parameters-recorded')
        oblige_at(ex, q, tag, 'ensures', z3.And(g.ncells == B * B, q.heap[l.ref].n == z3.If(REV, 2 * N, N)), 'R1:grid-has-B*B-cells,lookup-one-slot-per-end')
        oblige_at(ex, q, tag, 'ensures', z3.And(bsx > 0, bsy > 0), 'R1:bin-sizes-positive')
        oblige_at(ex, q, tag, 'ensures', mem(c, e) == z3.And(valid_end(e), c == cell), 'R2/R3:stored(c,e)<=>e-is-an-end-and-c-is-its-cell')
        oblige_at(ex, q, tag, 'ensures', z3.Implies(valid_end(e), z3.And(fn(e) == cell, cell >= 0, cell < B * B)), 'R2:lookup[e]-is-the-cell-of-e,inside-the-grid')
        sess.cover(f'Index.__init__/exit-path-{n}-reachable', list(q.pc))
    if n == 0:
        raise EngineError('__init__: no completed path')
    sess.absorb(ctx, replay=replay13('init'))
    sess.cover('Index.__init__/requires', req + [REV, N >= 2, B >= 3])
    # the postcondition of __init__ is the invariant the other proofs start from
    mem0 = lambda c_, e_: G(c_, e_)
    xmin, ymin, bsx, bsy = z3.Reals('xmin ymin bin_size_x bin_size_y')
    x, y = pt(e)
    cell = cell_of(x, y, xmin, ymin, bsx, bsy)
    post = [B >= 1, G(c, e) == z3.And(valid_end(e), c == cell), z3.Implies(valid_end(e), z3.And(LK(e) == cell, cell >= 0, cell < B * B))]
    sess.add('lemma/post(__init__)=>Inv-R3', 'spec', 'lemma', post, r3(c, e))
    sess.add('lemma/post(__init__)=>every-end-is-live', 'spec', 'lemma', post + [G(LK(e), e) == z3.And(valid_end(e), LK(e) == cell)], z3.Implies(valid_end(e), live(e)))


def geometric_lemma(sess):
    """an end within one cell width (both axes) of an in-grid query lies in the 3x3 neighbourhood: |a-b| <= 1 => |floor a - floor b| <= 1,
    and clamping to 0..B-1 is monotone"""
    a, b = z3.Reals('a b')
    fa, fb = z3.ToInt(a), z3.ToInt(b)
    clamp = lambda t: z3.If(t > B - 1, B - 1, z3.If(t < 0, 0, t))
    sess.add('lemma/within-one-cell-width=>adjacent-column', 'spec', 'lemma', [B >= 1, a - b <= 1, b - a <= 1],
             z3.And(clamp(fa) - clamp(fb) <= 1, clamp(fb) - clamp(fa) <= 1))
    sess.canary('within-two-cell-widths=>adjacent-column', [B >= 3, a - b <= 2, b - a <= 2], z3.And(clamp(fa) - clamp(fb) <= 1, clamp(fb) - clamp(fa) <= 1))


def build(sess):
    sess.level = 'proof'
    sess.trust(
        'pyvc symbolic executor and its model of the Python subset; abstract views of grid / lookup / vertices / adjacents (membership and '
        'index functions) with list.remove deleting the (unique, by R2) occurrence',
        'floats are modelled as reals; math.inf as a symbolic bound above every coordinate and squared distance; math.floor exact',
        'z3 (NIA/NRA with uninterpreted functions)',
        'find_adjacents: the body of the double loop is proved for an arbitrary cell; that the two loops enumerate range(bins_per_side) is a '
        'syntactic check, and different cells touch different lists by the injectivity lemma',
        'vertices are [[x1, y1], [x2, y2]] pairs of floats (the documented input shape)',
    )
    check_nearest(sess)
    check_remove(sess)
    check_find_adjacents(sess)
    check_init(sess)
    geometric_lemma(sess)
    r = native('n_c13', 'bounded', {'tier': sess.tier, 'seed': sess.seed}, timeout=7200)
    sess.bounded.append({'function': 'spatial_grid.Index end-to-end: Inv evaluated after __init__ and along removal histories (supplementary)', 'bound': r.get('bound'),
                         'evaluations': r.get('tried', 0), 'distinct_nontrivial': r.get('distinct', 0),
                         'rule': 'vertex sets on a small lattice x bins per side x reverse: Inv evaluated on the real object, then random '
                                 'query/removal histories against brute force; distinct = (B, reverse, n) configurations with at least one removal'})
    if r.get('found'):
        sess.native_violations.append({'obligation': 'C13/bounded/Inv-after-__init__-and-histories', 'native_input': r.get('input'),
                                       'observed': r.get('observed'), 'expected': r.get('expected'), 'summary': f"{r.get('input')} -> {r.get('observed')} expected {r.get('expected')}"})
    sess.explanation = ('PROVED from the representation invariant: nearest (None iff nothing live; a live end; no live end of the 3x3 neighbourhood '
                        'closer; global minimum after the fallback incl. the index-0 fall-through; pure), remove_path (Inv preserved, exactly '
                        'the path\'s ends removed), one find_adjacents iteration for an arbitrary cell (R4), the geometric corollary; __init__ '
                        'establishes the invariant for a vertex list of unknown length (two loop invariants). By induction '
                        'every interleaving of queries and removals satisfies the nearest clauses. A bounded native end-to-end check '
                        'runs in addition (labelled, not counted).')


def fallback(sess):
    out = []
    for what in ('nearest', 'remove', 'adjacents'):
        r = native('n_c13', 'search', {'what': what})
        r['what'] = f'n_c13.search[{what}]'
        out.append(r)
    return out
