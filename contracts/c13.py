"""C13 -- spatial_grid.Index: nearest() returns a live path end that no neighbouring end beats.   HYBRID (DESIGN C13).

Abstract view of an Index (the representation invariant Inv):
   B = bins_per_side >= 1, n = path_count >= 0, bin sizes > 0, finite coordinates
   G(c, e)   "end id e is stored in grid[c]";   LK(e) = lookup[e];   live(e) := G(LK(e), e)
   (R3) G(c, e) => LK(e) == c, 0 <= c < B^2, 0 <= e < 2n, (e >= n => reverse)       nothing dead, nothing misplaced
   (R2) every stored end occurs exactly once in its cell (so list.remove deletes it)
   (R4) adjacents[c] holds exactly the cells at Chebyshev distance <= 1 of c inside the B x B grid (c itself included)
PROVED from the real source, given Inv (pointwise at an arbitrary end e*):
   nearest(v):  result None  =>  no end is live;   result r  =>  r is live (a start, or an end only if reverse),
                and every live e* whose cell lies in the 3x3 neighbourhood of the query's cell has dist(v, r) <= dist(v, e*);
                when the call went through the global fallback, dist(v, r) <= dist(v, e*) for EVERY live e*;  nothing is modified
   remove_path(p): the ends of p leave the grid, every other (cell, id) stays: Inv is preserved with live' = live minus p
   find_adjacents: one iteration for an arbitrary cell (x_col, y_row) appends exactly its in-grid neighbours (R4 for that cell)
   lemma: an end within one cell width of an in-grid query lies in the 3x3 neighbourhood
BOUNDED (labelled, DESIGN's declared fallback): Inv after __init__ and the end-to-end behaviour over removal histories,
   exhaustively on small lattices against brute force (native/n_c13.py).
"""
import z3

from pyvc.harness import no_raise, oblige_at
from pyvc.engine import Ret, Raised, EngineError, Exec, Path, LoopSpec, fresh_name, NORMAL
from pyvc.values import Val, VInt, VFloat, VTuple, VNone, VBool, NONE, VRef, HList, HObj
from pyvc.session import native

MOD = 'plotink.spatial_grid'
CLS = 'plotink.spatial_grid.Index'
IS, RS, BS = z3.IntSort(), z3.RealSort(), z3.BoolSort()
G = z3.Function('in_grid_cell', IS, IS, BS)
LK = z3.Function('lookup', IS, IS)
VXf = z3.Function('vertex_x', IS, IS, RS)
VYf = z3.Function('vertex_y', IS, IS, RS)
INF = z3.Real('INF')
B = z3.Int('bins_per_side')
N = z3.Int('path_count')
REV = z3.Bool('reverse')


def live(e, g=None):
    g = g or G
    return g(LK(e), e)


def pt(e):
    return (z3.If(e < N, VXf(e, 0), VXf(e - N, 1)), z3.If(e < N, VYf(e, 0), VYf(e - N, 1)))


def r3(c, e, g=None):
    g = g or G
    return z3.Implies(g(c, e), z3.And(LK(e) == c, c >= 0, c < B * B, e >= 0, e < 2 * N, z3.Implies(e >= N, REV)))


NB = z3.Function('in_3x3_neighbourhood', IS, IS, BS)


def neighbourhood(c0, c):
    """c is listed in adjacents[c0].  By R4 (established by find_adjacents, checked below per cell) this is: c is a cell of the grid at
    Chebyshev distance <= 1 of c0.  For nearest() only membership and 0 <= c < B^2 matter, so the predicate stays uninterpreted."""
    return z3.And(NB(c0, c), c >= 0, c < B * B)


# ------------------------------------------------------------------------------ abstract structures
class VVerts(Val):
    pytype = 'list'

    def getitem(self, ex, p, idx, node=None):
        t = idx.z()
        for q, r in ex.raise_unless(p, z3.And(t >= 0, t < N), 'IndexError', node):
            if r is not None:
                yield q, r
            else:
                yield q, VTuple([VTuple([VFloat(VXf(t, s)), VFloat(VYf(t, s))]) for s in (0, 1)])


class VLookup(Val):
    pytype = 'list'

    def getitem(self, ex, p, idx, node=None):
        t = idx.z()
        for q, r in ex.raise_unless(p, z3.And(t >= 0, t < z3.If(REV, 2 * N, N)), 'IndexError', node):
            yield q, (r if r is not None else VInt(LK(t)))


class HGridState:
    def __init__(self, mem):
        self.mem = mem

    def copy(self):
        return HGridState(self.mem)


class VGrid(Val):
    pytype = 'list'

    def __init__(self, ref):
        self.ref = ref

    def getitem(self, ex, p, idx, node=None):
        t = idx.z()
        for q, r in ex.raise_unless(p, z3.And(t >= 0, t < B * B), 'IndexError', node):
            yield q, (r if r is not None else VIdList(self, t))


class VIdList(Val):
    """grid[cell]: the ids stored in one cell"""
    pytype = 'list'

    def __init__(self, grid, cell):
        self.grid, self.cell = grid, cell

    def method(self, ex, p, name, args, kwargs, node):
        st = p.heap[self.grid.ref]
        if name == 'remove':
            e = args[0].z()
            for q, r in ex.raise_unless(p, st.mem(self.cell, e), 'ValueError', node):
                if r is not None:
                    yield q, r
                    continue
                old = q.heap[self.grid.ref].mem
                q.heap[self.grid.ref].mem = (lambda c, x, _o=old, _c=self.cell, _e=e: z3.And(_o(c, x), z3.Not(z3.And(c == _c, x == _e))))
                q.ghost['removed'] = q.ghost.get('removed', []) + [(self.cell, e)]
                yield q, NONE
            return
        raise EngineError(f'list method {name} on a grid cell')


class VAdj(Val):
    pytype = 'list'

    def length(self, ex, p):
        return VInt(B * B)

    def getitem(self, ex, p, idx, node=None):
        t = idx.z()
        for q, r in ex.raise_unless(p, z3.And(t >= 0, t < B * B), 'IndexError', node):
            yield q, (r if r is not None else VCellList(t))


class VCellList(Val):
    """adjacents[c0] (R4): membership == neighbourhood(c0, .)"""
    pytype = 'list'

    def __init__(self, c0):
        self.c0 = c0

    def method(self, ex, p, name, args, kwargs, node):
        if name == 'copy':
            yield p, VCellList(self.c0)
            return
        raise EngineError(f'list method {name} on an adjacency list')

    def contains(self, ex, p, a, node=None):
        yield p, neighbourhood(self.c0, a.z())


# ------------------------------------------------------------------------------ nearest: loop invariants
def dist2(v, e):
    x, y = pt(e)
    return (v[0] - x) * (v[0] - x) + (v[1] - y) * (v[1] - y)


class BestLoop(LoopSpec):
    """shared shape of the four scans of nearest()"""
    def __init__(self, kind):
        self.kind = kind          # 'cells' (neighbourhood), 'ids' (one grid cell), 'range' (fallback over all cells)

    # -- what "covered" means for the witness in the current context
    def covered(self, p):
        Gh = p.ghost
        c = []
        if 'cov_outer' in Gh:
            c.append(Gh['cov_outer'])
        if self.kind == 'ids':
            c.append(z3.And(Gh['cur_cell'] == LK(Gh['estar']), Gh['visid']))
        return z3.Or(*c) if c else z3.BoolVal(False)

    def inv_now(self, ex, p):
        """invariant on the CURRENT values of best_dist / best_index"""
        Gh = p.ghost
        e, v = Gh['estar'], Gh['query']
        bd, bi = p.env['best_dist'], p.env['best_index']
        out = []
        if isinstance(bi, VNone):
            out.append(('best-None=>best_dist-is-infinite', bd.z() == INF))
        elif isinstance(bi, VInt):
            b = bi.z()
            out.append(('best-is-a-live-end', live(b, Gh['gmem'])))
            out.append(('best_dist-is-its-squared-distance', bd.z() == dist2(v, b)))
        else:
            out.append(('best_index-is-None-or-an-id', z3.BoolVal(False)))
        out.append(('no-covered-live-end-is-closer', z3.Implies(z3.And(live(e, Gh['gmem']), self.covered(p)), bd.z() <= dist2(v, e))))
        return out

    def establish(self, ex, p):
        Gh = p.ghost
        if self.kind == 'cells':
            Gh['cov_outer'] = z3.BoolVal(False)
        elif self.kind == 'range':
            # entering the fallback: the neighbourhood cells have been scanned completely
            Gh['cov_outer'] = neighbourhood(Gh['c0'], LK(Gh['estar']))
        else:
            Gh['visid'] = z3.BoolVal(False)
        return [(f'{self.kind}:{n}', g) for n, g in self.inv_now(ex, p)]

    def head(self, ex, p):
        Gh = p.ghost
        v = Gh['query']
        if self.kind == 'cells':
            Gh['viscell'] = z3.Bool(fresh_name('witness_cell_scanned'))
            Gh['cov_outer'] = Gh['viscell']
        elif self.kind == 'range':
            k = z3.Int(fresh_name('cell_cursor'))
            Gh['kcur'] = k
            p.assume(k >= 0)
            Gh['cov_outer'] = z3.Or(neighbourhood(Gh['c0'], LK(Gh['estar'])), LK(Gh['estar']) < k)
        else:
            Gh['visid'] = z3.Bool(fresh_name('witness_id_visited'))
        for nm in ('dist', 'vertex', 'path_index'):
            p.env.pop(nm, None)
        a = p.fork()
        a.trail.append('best-none')
        a.env['best_index'] = NONE
        a.env['best_dist'] = VFloat(INF)
        b = p
        b.trail.append('best-some')
        bi = z3.Int(fresh_name('best_index'))
        b.env['best_index'] = VInt(bi)
        b.env['best_dist'] = VFloat(z3.Real(fresh_name('best_dist')))
        b.assume(z3.And(r3(LK(bi), bi, Gh['gmem']), dist2(v, bi) < INF))
        for q in (a, b):
            for _, g in self.inv_now(ex, q):
                q.assume(g)
        return [a, b]

    def bind(self, ex, h, s, it):
        Gh = h.ghost
        e = Gh['estar']
        if self.kind == 'cells':
            if not isinstance(it, VCellList):
                raise EngineError('neighbourhood scan over something that is not adjacents[cell].copy()')
            done = h.fork()
            done.trail.append('cells-exhausted')
            done.assume(z3.Implies(neighbourhood(it.c0, LK(e)), Gh['viscell']))
            yield done, False
            cc = z3.Int(fresh_name('cell'))
            h.assume(neighbourhood(it.c0, cc))
            h.ghost['cur_cell'] = cc
            val = VInt(cc)
        elif self.kind == 'range':
            from pyvc.seqops import VRange
            if not isinstance(it, VRange):
                raise EngineError('fallback scan is not over a range')
            k = Gh['kcur']
            done = h.fork()
            done.trail.append('range-exhausted')
            done.assume(k >= it.hi.z())
            yield done, False
            h.assume(k < it.hi.z())
            h.ghost['cur_cell'] = k
            val = VInt(k)
        else:
            if not isinstance(it, VIdList):
                raise EngineError('id scan over something that is not grid[cell]')
            mem = h.heap[it.grid.ref].mem
            done = h.fork()
            done.trail.append('ids-exhausted')
            done.assume(z3.Implies(mem(it.cell, e), Gh['visid']))
            yield done, False
            ce = z3.Int(fresh_name('id'))
            h.assume(z3.And(mem(it.cell, ce), r3(it.cell, ce, mem), dist2(Gh['query'], ce) < INF))
            h.ghost['cur_id'] = ce
            h.ghost['cur_cell'] = it.cell
            val = VInt(ce)
        h.trail.append(f'{self.kind}-next')
        for q, o in ex.assign(h, s.target, val):
            yield q, (True if o is NORMAL else o)

    def preserve(self, ex, p):
        Gh = p.ghost
        e = Gh['estar']
        if self.kind == 'cells':
            Gh['cov_outer'] = z3.Or(Gh['viscell'], Gh['cur_cell'] == LK(e))
        elif self.kind == 'range':
            Gh['cov_outer'] = z3.Or(neighbourhood(Gh['c0'], LK(e)), LK(e) < Gh['kcur'] + 1)
        else:
            Gh['visid'] = z3.Or(Gh['visid'], Gh['cur_id'] == e)
        return [(f'{self.kind}:{n}', g) for n, g in self.inv_now(ex, p)]


def replay13(what):
    def fn(model, ob):
        out = native('n_c13', 'search', {'what': what})
        return {'native_input': out.get('input'), 'confirmed': bool(out.get('found')), 'observed': out.get('observed'),
                'expected': out.get('expected'), 'summary': f"{what}: {out.get('input')} -> {out.get('observed')} expected {out.get('expected')}"}
    return fn


def new_index(p):
    """an arbitrary Index object satisfying Inv (instances are added where they are used)"""
    xmin, ymin, bsx, bsy = z3.Reals('xmin ymin bin_size_x bin_size_y')
    p.assume(z3.And(B >= 1, N >= 0, bsx > 0, bsy > 0, INF > 0))
    gref = p.alloc(HGridState(lambda c, e: G(c, e)), 'grid').ref
    fields = {'bins_per_side': VInt(B), 'path_count': VInt(N), 'reverse': VBool(REV), 'xmin': VFloat(xmin), 'ymin': VFloat(ymin),
              'bin_size_x': VFloat(bsx), 'bin_size_y': VFloat(bsy), 'vertices': VVerts(), 'lookup': VLookup(), 'grid': VGrid(gref),
              'adjacents': VAdj()}
    obj = p.alloc(HObj(CLS, fields), 'Index')
    return obj, gref, (xmin, ymin, bsx, bsy)


def cell_of(vx, vy, xmin, ymin, bsx, bsy):
    clamp = lambda t: z3.If(t > B - 1, B - 1, z3.If(t < 0, 0, t))
    return clamp(z3.ToInt((vx - xmin) / bsx)) + B * clamp(z3.ToInt((vy - ymin) / bsy))


def check_nearest(sess):
    ctx = sess.new_ctx()
    ctx.opts['inf_symbol'] = INF
    ctx.inline.add('plotink.plot_utils.square_dist')
    ctx.opts['prune_timeout_ms'] = 2000
    for k, kind in enumerate(('cells', 'ids', 'range', 'ids')):
        ctx.loop_specs[(f'{MOD}.Index.nearest', k)] = BestLoop(kind)
    stores = []
    ctx.opts['on_setattr'] = lambda ex, p, base, attr, v, node: stores.append(attr)
    ex = Exec(ctx)
    p = Path()
    obj, gref, (xmin, ymin, bsx, bsy) = new_index(p)
    vx, vy, e = z3.Real('query_x'), z3.Real('query_y'), z3.Int('estar')
    p.assume(z3.And(vx < INF, vx > -INF, vy < INF, vy > -INF))
    c0 = cell_of(vx, vy, xmin, ymin, bsx, bsy)
    p.ghost.update(estar=e, query=(vx, vy), c0=c0, gmem=(lambda c, x: G(c, x)))
    # Inv instances at the witness
    p.assume(z3.And(r3(LK(e), e), z3.Implies(live(e), dist2((vx, vy), e) < INF)))
    outs = list(ex.run_function(p, MOD, 'Index.nearest', [obj, VTuple([VFloat(vx), VFloat(vy)])]))
    tag = 'Index.nearest'
    kinds = set()
    for q, out in outs:
        if not no_raise(ex, q, out, tag):
            continue
        r = out.val
        fell_back = any(t.startswith('range-') for t in q.trail)
        if isinstance(r, VNone):
            kinds.add('none')
            oblige_at(ex, q, tag, 'ensures', z3.Not(live(e)), 'None=>no-end-is-live')
        elif isinstance(r, VInt):
            kinds.add('fallback' if fell_back else 'neighbourhood')
            b = r.z()
            oblige_at(ex, q, tag, 'ensures', z3.And(live(b), b >= 0, b < 2 * N, z3.Implies(b >= N, REV)), 'result-is-a-live-end(an-end-only-if-reverse)')
            oblige_at(ex, q, tag, 'ensures', z3.Implies(z3.And(live(e), neighbourhood(c0, LK(e))), dist2((vx, vy), b) <= dist2((vx, vy), e)),
                      'no-live-end-in-the-3x3-neighbourhood-is-closer')
            if fell_back:
                oblige_at(ex, q, tag, 'ensures', z3.Implies(live(e), dist2((vx, vy), b) <= dist2((vx, vy), e)), 'after-the-fallback:globally-closest-live-end')
        else:
            oblige_at(ex, q, tag, 'ensures', False, 'returns-None-or-an-id')
        oblige_at(ex, q, tag, 'frame', not stores and not q.ghost.get('removed'), 'nearest-modifies-nothing')
    if kinds != {'none', 'fallback', 'neighbourhood'}:
        raise EngineError(f'nearest: result kinds reached {kinds}')
    sess.absorb(ctx, replay=replay13('nearest'))
    sess.cover('nearest/Inv-instance', [B >= 1, N >= 1, live(e), r3(LK(e), e), bsx > 0, bsy > 0])


def check_remove(sess):
    for rev in (False, True):
        ctx = sess.new_ctx()
        ex = Exec(ctx)
        p = Path()
        obj, gref, _ = new_index(p)
        p.assume(REV == rev)
        pi, c, e = z3.Ints('path_index any_cell any_id')
        # requires: p is a live path: its start (and, when reversing, its end) are stored where lookup says
        p.assume(z3.And(pi >= 0, pi < N, live(pi), r3(LK(pi), pi)))
        if rev:
            p.assume(z3.And(live(pi + N), r3(LK(pi + N), pi + N)))
        outs = list(ex.run_function(p, MOD, 'Index.remove_path', [obj, VInt(pi)]))
        tag = f'Index.remove_path[reverse={rev}]'
        for q, out in outs:
            if not no_raise(ex, q, out, tag):
                continue
            mem = q.heap[gref].mem
            gone = z3.Or(z3.And(c == LK(pi), e == pi), z3.And(z3.BoolVal(rev), c == LK(pi + N), e == pi + N))
            oblige_at(ex, q, tag, 'ensures', mem(c, e) == z3.And(G(c, e), z3.Not(gone)), 'exactly-the-ends-of-the-path-leave-the-grid')
            oblige_at(ex, q, tag, 'ensures', z3.Implies(r3(c, e), r3(c, e, mem)), 'Inv-R3-preserved')
            oblige_at(ex, q, tag, 'ensures', z3.And(z3.Not(mem(LK(pi), pi)), z3.Implies(z3.BoolVal(rev), z3.Not(mem(LK(pi + N), pi + N)))), 'removed-path-is-no-longer-live')
        sess.absorb(ctx, replay=replay13('remove'))


class VAdjBuild(Val):
    """self.adjacents during find_adjacents: only the current cell's list is materialised (a concrete Python list [c, ...])"""
    pytype = 'list'

    def __init__(self):
        self.cells = {}

    def getitem(self, ex, p, idx, node=None):
        t = z3.simplify(idx.z())
        key = str(t)
        if key not in p.ghost.setdefault('adj_cells', {}):
            p.ghost['adj_cells'] = dict(p.ghost['adj_cells'])
            p.ghost['adj_cells'][key] = (t, p.alloc(HList([VInt(t)]), 'list'))       # invariant: an unvisited cell holds [c]
        yield p, p.ghost['adj_cells'][key][1]


def check_find_adjacents(sess):
    """one iteration of the double loop for an arbitrary cell: run the real loop BODY statements on a symbolic (x_col, y_row)"""
    from pyvc import front
    import ast
    ctx = sess.new_ctx()
    ctx.note_function(MOD, 'Index.find_adjacents')
    fn = front.load(MOD).func('Index.find_adjacents')
    loops = [n for n in ast.walk(fn) if isinstance(n, ast.For)]
    loops.sort(key=lambda n: n.lineno)
    if len(loops) != 2 or loops[1] not in list(ast.walk(loops[0])):
        raise EngineError('find_adjacents: expected two nested for-loops')
    outer, inner = loops
    ok_ranges = all(isinstance(l.iter, ast.Call) and getattr(l.iter.func, 'id', '') == 'range' and len(l.iter.args) == 1 for l in loops)
    sess.add('find_adjacents/loops-enumerate-range(bins_per_side)-twice', 'Index.find_adjacents', 'ensures', [],
             z3.BoolVal(ok_ranges and ast.unparse(outer.iter.args[0]) == 'self.bins_per_side' and ast.unparse(inner.iter.args[0]) == 'self.bins_per_side'),
             replay=replay13('adjacents'))
    ex = Exec(ctx)
    p = Path()
    x, y, dx, dy = z3.Ints('x_col y_row dx dy')
    p.assume(z3.And(B >= 1, x >= 0, x < B, y >= 0, y < B))
    obj = p.alloc(HObj(CLS, {'bins_per_side': VInt(B), 'adjacents': VAdjBuild()}), 'Index')
    from pyvc.engine import Frame
    pre = [st for st in fn.body if st.lineno < outer.lineno and not (isinstance(st, ast.Assign) and 'adjacents' in ast.unparse(st.targets[0]))]
    p.frames.append(Frame({'self': obj}, MOD, 'Index.find_adjacents', 'Index'))
    paths = [(p, NORMAL)]
    for st in pre:
        paths = [(q2, o2) for q, o in paths for q2, o2 in ex.exec_stmt(st, q)]
    n = 0
    for q, o in paths:
        q.env[outer.target.id] = VInt(y) if outer.target.id == 'y_row' else VInt(x)
        q.env[inner.target.id] = VInt(x) if inner.target.id == 'x_col' else VInt(y)
        for q2, out in ex.exec_block(inner.body, q):
            tag = 'Index.find_adjacents(one-cell)'
            if out is not NORMAL:
                oblige_at(ex, q2, tag, 'ensures', False, 'loop-body-completes-normally')
                continue
            cells = q2.ghost.get('adj_cells', {})
            c0 = x + B * y
            if len(cells) > 1:
                oblige_at(ex, q2, tag, 'ensures', False, 'touches-only-the-current-cell\'s-list')
                continue
            if cells:
                t, ref = list(cells.values())[0]
                oblige_at(ex, q2, tag, 'ensures', t == c0, 'the-list-touched-is-adjacents[x_col+B*y_row]')
                items = [it.z() for it in q2.heap[ref.ref].items]
            else:
                items = [c0]          # nothing appended: the list keeps its initial content [c]
            cand = c0 + dx + B * dy
            inside = z3.And(x + dx >= 0, x + dx < B, y + dy >= 0, y + dy < B)
            rng = z3.And(dx >= -1, dx <= 1, dy >= -1, dy <= 1)
            oblige_at(ex, q2, tag, 'ensures', z3.Implies(z3.And(rng, inside), z3.Or(*[it == cand for it in items])), 'every-in-grid-neighbour-is-listed')
            oblige_at(ex, q2, tag, 'ensures', z3.And(*[a_ != b_ for k_, a_ in enumerate(items) for b_ in items[k_ + 1:]]) if len(items) > 1 else True, 'no-cell-listed-twice')
            # nothing but neighbours, no duplicates
            oblige_at(ex, q2, tag, 'ensures', z3.And(*[z3.Or(*[z3.And(it == c0 + a + B * b, x + a >= 0, x + a < B, y + b >= 0, y + b < B)
                                                                for a in (-1, 0, 1) for b in (-1, 0, 1)]) for it in items]), 'only-in-grid-neighbours-are-listed')
            n += 1
    if n == 0:
        raise EngineError('find_adjacents: no body path')
    sess.functions.update(ctx.functions)
    sess.absorb(ctx, replay=replay13('adjacents'))
    # the cell index is injective on the grid, so iterations for different cells touch different lists
    x2, y2 = z3.Ints('x2 y2')
    sess.add('lemma/cell-index-injective', 'spec', 'lemma', [B >= 1, x >= 0, x < B, y >= 0, y < B, x2 >= 0, x2 < B, y2 >= 0, y2 < B, x + B * y == x2 + B * y2],
             z3.And(x == x2, y == y2))


def geometric_lemma(sess):
    """an end within one cell width (both axes) of an in-grid query lies in the 3x3 neighbourhood: |a-b| <= 1 => |floor a - floor b| <= 1,
    and clamping to 0..B-1 is monotone"""
    a, b = z3.Reals('a b')
    fa, fb = z3.ToInt(a), z3.ToInt(b)
    clamp = lambda t: z3.If(t > B - 1, B - 1, z3.If(t < 0, 0, t))
    sess.add('lemma/within-one-cell-width=>adjacent-column', 'spec', 'lemma', [B >= 1, a - b <= 1, b - a <= 1],
             z3.And(clamp(fa) - clamp(fb) <= 1, clamp(fb) - clamp(fa) <= 1))
    sess.canary('within-two-cell-widths=>adjacent-column', [B >= 3, a - b <= 2, b - a <= 2], z3.And(clamp(fa) - clamp(fb) <= 1, clamp(fb) - clamp(fa) <= 1))


def build(sess):
    sess.level = 'other'
    sess.trust(
        'pyvc symbolic executor and its model of the Python subset; abstract views of grid / lookup / vertices / adjacents (membership and '
        'index functions) with list.remove deleting the (unique, by R2) occurrence',
        'floats are modelled as reals; math.inf as a symbolic bound above every squared distance; math.floor exact',
        'z3 (NIA/NRA with uninterpreted functions)',
        'Inv after Index.__init__ is NOT proved here (bounded native check); everything else is proved from Inv',
    )
    check_nearest(sess)
    check_remove(sess)
    check_find_adjacents(sess)
    geometric_lemma(sess)
    r = native('n_c13', 'bounded', {'tier': sess.tier, 'seed': sess.seed}, timeout=7200)
    sess.bounded.append({'function': 'spatial_grid.Index.__init__ (Inv established) + end-to-end removal histories', 'bound': r.get('bound'),
                         'evaluations': r.get('tried', 0), 'distinct_nontrivial': r.get('distinct', 0),
                         'rule': 'vertex sets on a small lattice x bins per side x reverse: Inv evaluated on the real object, then random '
                                 'query/removal histories against brute force; distinct = (B, reverse, n) configurations with at least one removal'})
    if r.get('found'):
        sess.native_violations.append({'obligation': 'C13/bounded/Inv-after-__init__-and-histories', 'native_input': r.get('input'),
                                       'observed': r.get('observed'), 'expected': r.get('expected'), 'summary': f"{r.get('input')} -> {r.get('observed')} expected {r.get('expected')}"})
    sess.explanation = ('PROVED from the representation invariant: nearest (None iff nothing live; a live end; no live end of the 3x3 neighbourhood '
                        'closer; global minimum after the fallback incl. the index-0 fall-through; pure), remove_path (Inv preserved, exactly '
                        'the path\'s ends removed), one find_adjacents iteration for an arbitrary cell (R4), the geometric corollary. By induction '
                        'every interleaving of queries and removals satisfies the nearest clauses. BOUNDED, NOT PROVED: that __init__ '
                        'establishes the invariant (exhaustive small lattices) -- the declared fallback of DESIGN.')


def fallback(sess):
    out = []
    for what in ('nearest', 'remove', 'adjacents'):
        r = native('n_c13', 'search', {'what': what})
        r['what'] = f'n_c13.search[{what}]'
        out.append(r)
    return out
