"""C02 -- ebb_calc.move_dist_t3 and rate_t3 equal the third-order firmware recurrence.

Spec (from the property): r0 = rate - tz(accel,2) + tz(jerk,6), a_0 = accel; per tick r += a; a += jerk; S += r.
Lemmas (induction on the tick count, base + step obligations):
   L2: 2 r_k = 2 r0 + 2 k accel + jerk k (k-1)
   L3: 6 S_T = 6 a0 + 6 T r0 + 3 accel T (T+1) + jerk (T-1) T (T+1)
   L4: r_1 = 0 => r_2 = accel + jerk ;  r_1 = r_2 = 0 => r_3 = jerk          (three-level clear rule)
"""
from fractions import Fraction
import z3

from pyvc.harness import run, no_raise, oblige_at
from pyvc.engine import Ret, Raised, EngineError
from pyvc.values import VInt, VTuple, VNone
from pyvc.strings import S
from pyvc.session import native
from . import specs
from .specs import M

MOD = 'plotink.ebb_calc'


def domain(T, rate, accel, jerk):
    """a superset of the firmware-valid domain of the property (DESIGN C02)"""
    return [T >= 1, T <= 2 ** 32, rate >= -2 ** 32, rate <= 2 ** 32, accel >= -M, accel <= M,
            accel + jerk * T >= -M, accel + jerk * T <= M]


def replay_t3(model, ob):
    def g(n, d=0):
        try:
            return int(model.get(n, d))
        except (TypeError, ValueError):
            return d
    kind = ob.info.get('accum_kind', 'int')
    fn = ob.info.get('native_fn', 'move_dist_t3')
    accum = g('accum', 0) if kind == 'int' else 'clear'
    payload = {'fn': fn, 'time': g('time', 1), 'rate': g('rate'), 'accel': g('accel'), 'jerk': g('jerk'), 'accum': accum,
               'dps': g('mp_dps0', 15)}
    out = native('n_c02', 'replay', payload)
    if not out.get('fails'):
        sr = native('n_c02', 'search', {'fn': fn, 'dps': payload['dps'], 'accum_kinds': [kind if kind != 'none' else 'int'], 'n': 6000})
        if sr.get('found'):
            payload, out = sr['input'], {'fails': True, 'observed': sr['observed'], 'expected': sr['expected']}
    return {'native_input': payload, 'confirmed': bool(out.get('fails')), 'observed': out.get('observed'),
            'expected': out.get('expected'),
            'summary': f"{payload['fn']}(time={payload['time']}, rate={payload['rate']}, accel={payload['accel']}, jerk={payload['jerk']}, "
                       f"accum={payload.get('accum')!r}) under mp.dps={payload['dps']} -> {out.get('observed')} expected {out.get('expected')}"}


def lemmas(sess):
    k, a0, r0, accel, jerk = z3.Ints('k a0 r0 accel jerk')
    Sk, rk, ak = z3.Ints('S_k r_k a_k')
    r2 = lambda n: 2 * r0 + 2 * n * accel + jerk * n * (n - 1)
    S6 = lambda n: 6 * a0 + 6 * n * r0 + 3 * accel * n * (n + 1) + jerk * (n - 1) * n * (n + 1)
    sess.add('lemma/L2/base', 'spec', 'lemma', [], r2(z3.IntVal(0)) == 2 * r0)
    sess.add('lemma/L3/base', 'spec', 'lemma', [], S6(z3.IntVal(0)) == 6 * a0)
    hyp = [k >= 0, 2 * rk == r2(k), ak == accel + k * jerk, 6 * Sk == S6(k)]
    rk1 = rk + ak            # r += a
    ak1 = ak + jerk          # a += jerk
    Sk1 = Sk + rk1           # S += r
    sess.add('lemma/L2/step', 'spec', 'lemma', hyp, 2 * rk1 == r2(k + 1))
    sess.add('lemma/L2/step-a', 'spec', 'lemma', hyp, ak1 == accel + (k + 1) * jerk)
    sess.add('lemma/L3/step', 'spec', 'lemma', hyp, 6 * Sk1 == S6(k + 1))
    # L4: clear rule levels
    r1 = r0 + accel
    r2_ = r1 + accel + jerk
    r3_ = r2_ + accel + 2 * jerk
    sess.add('lemma/L4/level2', 'spec', 'lemma', [r1 == 0], r2_ == accel + jerk)
    sess.add('lemma/L4/level3', 'spec', 'lemma', [r1 == 0, r2_ == 0], r3_ == jerk)
    # beyond tick 3: if r_1 = r_2 = r_3 = 0 then accel = jerk = 0 and every r_k = 0: "first non-zero among the first three"
    # decides the sign of the first non-zero rate of the whole move
    sess.add('lemma/L4/all-zero', 'spec', 'lemma', [r1 == 0, r2_ == 0, r3_ == 0, k >= 1], r2(k) == 0)
    sess.canary('L3-off-by-one', hyp, 6 * Sk1 == S6(k))


def check_t3(sess, accum_kind):
    ctx = sess.new_ctx()
    ctx.opts['track_float'] = True
    ctx.opts['prune_timeout_ms'] = 3000
    ctx.opts['mpf_inexact'] = 'bound'       # forward error analysis of the rounded mpmath operations (pyvc/mpmodel.py)
    T, rate, accel, jerk = z3.Ints('time rate accel jerk')
    dps0 = z3.Int('mp_dps0')
    req = domain(T, rate, accel, jerk) + [dps0 >= 1]
    if accum_kind == 'int':
        accum = z3.Int('accum')
        req += [accum >= 0, accum < M]
        a0 = accum
        acc_arg = VInt(accum)
    else:
        a0 = specs.t3_clear_a0(rate, accel, jerk)
        acc_arg = S('clear')
    # ghost hints (each justified by a lemma obligation): T(T+1) even, (T-1)T(T+1) divisible by 6
    hh, h6 = z3.Ints('hh h6')
    wit2 = z3.If(T % 2 == 0, (T / 2) * (T + 1), T * ((T + 1) / 2))
    sess.add(f'lemma/T(T+1)-even[{accum_kind}]', 'spec', 'lemma', [T >= 0], T * (T + 1) == 2 * wit2)
    t6 = z3.Int('t6')
    for r in range(6):
        val = (r - 1) * r * (r + 1)
        sess.add(f'lemma/(T-1)T(T+1)-div-6[{accum_kind},T%6={r}]', 'spec', 'lemma', [T == 6 * t6 + r, t6 >= 0],
                 ((T - 1) * T * (T + 1)) == 6 * (36 * t6 * t6 * t6 + 18 * r * t6 * t6 + (3 * r * r - 1) * t6 + val // 6))
    req = req + [T * (T + 1) == 2 * hh, (T - 1) * T * (T + 1) == 6 * h6]

    def setup(ex, p):
        p.ghost['mp_dps'] = VInt(dps0)

    r0 = specs.t3_r0(rate, accel, jerk)

    def round_hook(ex, p, v, mode):
        """lemma hint at `accum_final = round(accum_final)`: the ideal value num/den is the integer S_T.
        Staged as obligations (then assumed: assert-then-assume):
          clear rule : the start accumulator chosen by the code equals the specified one
          (i)   den * 6S_T == 6 * num          (polynomial identity between the code's expression and lemma L3)
          (ii)  6S_T == 6 * s                  (6 | 6S_T, with s built from the two divisibility hints)
        hence round(num/den) == s exactly."""
        if mode != 'round' or not v.rational() or v.exact():
            return None
        ca = p.env.get('accum')
        if not isinstance(ca, VInt):
            return None
        caz = ca.z()
        ex.oblige(p, 'ensures', caz == a0, 'start-accumulator==specified(clear-rule)')
        p.assume(caz == a0)
        S6c = specs.t3_S6(rate, accel, jerk, T, caz)
        s = caz + T * r0 + accel * hh + jerk * h6
        num = v.num if not isinstance(v.num, int) else z3.IntVal(v.num)
        if v.err is None:
            ex.oblige(p, 'mpf-error', False, 'rounding-error-of-the-round()-argument-is-not-tracked')
        else:
            # the computed value is within err of the integer S_T: round() returns S_T exactly when err < 1/2
            ex.oblige(p, 'mpf-error', bool(v.err < Fraction(1, 2)), f'accumulated-rounding-error<1/2(bound={float(v.err):.3g})')
            p.ghost['round_err'] = v.err
        ex.oblige(p, 'lemma', v.den * S6c == 6 * num, 'round-argument-is-S_T:(i)den*6S_T==6*num')
        ex.oblige(p, 'lemma', S6c == 6 * s, 'round-argument-is-S_T:(ii)6-divides-6S_T')
        p.assume(v.den * S6c == 6 * num)
        p.assume(S6c == 6 * s)
        return VInt(s)
    ctx.opts['mpf_toint_hook'] = round_hook
    ex, outs = run(ctx, MOD, 'move_dist_t3', [VInt(T), VInt(rate), VInt(accel), VInt(jerk), acc_arg], requires=req, setup=setup)
    sess.cover(f'move_dist_t3[{accum_kind}]/requires', domain(T, rate, accel, jerk))
    n_ret = 0
    for q, out in outs:
        if not no_raise(ex, q, out):
            continue
        res = out.val
        if not (isinstance(res, VTuple) and len(res.items) == 2 and all(isinstance(x, VInt) for x in res.items)):
            oblige_at(ex, q, 'move_dist_t3', 'result-shape', False, 'tuple(int,int)')
            continue
        n_ret += 1
        pos, acc = res.items[0].z(), res.items[1].z()
        tag = f'move_dist_t3[{accum_kind}]'
        if accum_kind == 'int':
            oblige_at(ex, q, tag, 'ensures', 6 * (pos * M + acc) == specs.t3_S6(rate, accel, jerk, T, a0), 'position*2^31+accumulator==S_T')
        else:
            oblige_at(ex, q, tag, 'ensures', z3.Or(a0 == 0, a0 == M - 1), 'clear-value-is-0-or-2^31-1')
            for c in (0, M - 1):
                q.pc.append(a0 == c)
                oblige_at(ex, q, tag, 'ensures', 6 * (pos * M + acc) == specs.t3_S6(rate, accel, jerk, T, z3.IntVal(c)),
                          f'position*2^31+accumulator==S_T[a0={c}]')
                q.pc.pop()
        oblige_at(ex, q, tag, 'ensures', z3.And(acc >= 0, acc < M), 'accumulator-in-[0,2^31)')
    if n_ret == 0:
        raise EngineError('move_dist_t3: no returning path')
    for ob in ctx.obligations:
        ob.info['accum_kind'] = accum_kind
    sess.absorb(ctx, replay=replay_t3)


def narrowed(T, rate, accel, jerk):
    """domain on which every binary64 intermediate of rate_t3 is exact (proved: float-exact obligations)"""
    B = 2 ** 48
    return [T >= 1, T <= 2 ** 32, rate >= -B, rate <= B, accel * T >= -B, accel * T <= B, accel >= -B, accel <= B,
            jerk * T * T >= -B, jerk * T * T <= B, jerk * T >= -B, jerk * T <= B, jerk >= -B, jerk <= B]


def check_rate(sess):
    ctx = sess.new_ctx()
    ctx.opts['track_float'] = True
    T, rate, accel, jerk = z3.Ints('time rate accel jerk')
    hh = z3.Int('hh')
    req = narrowed(T, rate, accel, jerk) + [T * (T - 1) == 2 * hh]
    wit = z3.If(T % 2 == 0, (T / 2) * (T - 1), T * ((T - 1) / 2))
    sess.add('lemma/T(T-1)-even', 'spec', 'lemma', [T >= 1], T * (T - 1) == 2 * wit)
    ex, outs = run(ctx, MOD, 'rate_t3', [VInt(T), VInt(rate), VInt(accel), VInt(jerk)], requires=req)
    sess.cover('rate_t3/requires', narrowed(T, rate, accel, jerk))
    n = 0
    for q, out in outs:
        if not no_raise(ex, q, out):
            continue
        res = out.val
        if not isinstance(res, VInt):
            oblige_at(ex, q, 'rate_t3', 'result-shape', False, 'int')
            continue
        oblige_at(ex, q, 'rate_t3', 'ensures', 2 * res.z() == specs.t3_r2(rate, accel, jerk, T), 'result==r_T')
        n += 1
    if n == 0:
        raise EngineError('rate_t3: no returning path')
    for ob in ctx.obligations:
        ob.info['native_fn'] = 'rate_t3'
        ob.info['accum_kind'] = 'none'
    sess.absorb(ctx, replay=replay_t3)
    # canary: a wrong sign of the jerk/2 correction must be refuted
    for q, out in outs:
        if isinstance(out, Ret) and isinstance(out.val, VInt):
            sess.canary('rate_t3-wrong-jerk-sign', list(q.pc), 2 * out.val.z() == 2 * specs.t3_r0(rate, accel, jerk) + 2 * T * accel + jerk * T * (T + 1))
            break


def domain_lemma(sess):
    """L5: the firmware domain (every |r_k| <= 2^31, k = 1..T; |accel|, |accel + jerk T| <= 2^31) implies the narrowed domain
    of rate_t3.  Staged (DESIGN C02); over the reals (a relaxation: it implies the integer statement)."""
    T, m, j, a, r1, rm, rT = z3.Reals('T m j a r1 rm rT')
    Mr = z3.RealVal(M)
    # stage 1: three rates on the parabola r_k = r0 + k a + j k(k-1)/2 determine the second difference
    r0 = z3.Real('r0')
    rk = lambda k: r0 + k * a + j * k * (k - 1) / 2
    ident = (T - m) * rk(1) - (T - 1) * rk(m) + (m - 1) * rk(T) == (j / 2) * (m - 1) * (T - m) * (T - 1)
    sess.add('lemma/L5/stage1-identity', 'spec', 'lemma', [], ident)
    bounds = [r1 <= Mr, r1 >= -Mr, rm <= Mr, rm >= -Mr, rT <= Mr, rT >= -Mr, m >= 1, m <= T, T > 1]
    u = z3.Real('u')      # u = (m-1)(T-m) >= 0
    sess.add('lemma/L5/stage1-bound', 'spec', 'lemma',
             bounds + [u >= 0, (T - m) * r1 - (T - 1) * rm + (m - 1) * rT == (j / 2) * u * (T - 1)],
             z3.And(j * u <= 4 * Mr, j * u >= -4 * Mr))
    # stage 2: for m = floor((T+1)/2) and T >= 4: 16 (m-1)(T-m) >= T^2   (two parities)
    n = z3.Int('n')
    sess.add('lemma/L5/stage2-even', 'spec', 'lemma', [n >= 2], 16 * ((n) - 1) * (2 * n - n) >= (2 * n) * (2 * n))
    sess.add('lemma/L5/stage2-odd', 'spec', 'lemma', [n >= 2], 16 * ((n + 1) - 1) * ((2 * n + 1) - (n + 1)) >= (2 * n + 1) * (2 * n + 1))
    # stage 3: |j| T^2 <= 64 M
    T2 = z3.Real('T2')
    sess.add('lemma/L5/stage3', 'spec', 'lemma', [u >= 0, 16 * u >= T2, T2 >= 0, j * u <= 4 * Mr, j * u >= -4 * Mr],
             z3.And(j * T2 <= 64 * Mr, j * T2 >= -64 * Mr))
    # stage 4: |a| (T-1) <= 2M + |j| T (T-1) / 2
    sess.add('lemma/L5/stage4', 'spec', 'lemma',
             [T >= 2, rT - r1 == (T - 1) * a + j * T * (T - 1) / 2, r1 <= Mr, r1 >= -Mr, rT <= Mr, rT >= -Mr,
              j * T * T <= 64 * Mr, j * T * T >= -64 * Mr],
             z3.And(a * (T - 1) <= 34 * Mr, a * (T - 1) >= -34 * Mr))
    sess.notes.append('L5 (firmware domain => narrowed binary64-exact domain of rate_t3) is discharged in stages over the reals; '
                      'the final arithmetic step from the stage bounds (|jerk| T^2 <= 2^37, |accel| (T-1) <= 34*2^31) to the '
                      'narrowed bounds 2^48 is immediate and not separately mechanised')


def zero_jerk(sess):
    """with jerk == 0 the T3 spec coincides with the timed-move spec (C01): closed forms and clear rules"""
    rate, accel, T, a0 = z3.Ints('rate accel T a0')
    zero = z3.IntVal(0)
    sess.add('zero-jerk/closed-form', 'spec', 'relational', [T >= 0],
             specs.t3_S6(rate, accel, zero, T, a0) == 3 * specs.lt_S2(rate, accel, T, a0))
    sess.add('zero-jerk/clear-rule', 'spec', 'relational', [],
             specs.t3_clear_a0(rate, accel, zero) == specs.lt_clear_a0(rate, accel))



def check_default_accum(sess, module, qualname, param='accum', want='clear'):
    """a call that omits the start accumulator is the call with the parameter's default: the default must be the text "clear"
    (the clear-rule paths are verified above for an explicit "clear")"""
    import ast
    from pyvc import front
    fn = front.load(module).func(qualname)
    names = [a.arg for a in fn.args.args]
    ok = False
    if param in names:
        j = names.index(param) - (len(names) - len(fn.args.defaults))
        if j >= 0:
            d = fn.args.defaults[j]
            ok = isinstance(d, ast.Constant) and d.value == want
    sess.add(f'{qualname}/default-of-{param}-is-"{want}"', f'{module}.{qualname}', 'ensures', [], z3.BoolVal(bool(ok)))

def build(sess):
    sess.level = 'proof'
    sess.trust(
        'pyvc symbolic executor and its model of the Python subset',
        'z3 / cvc5 (QF_NIA/NRA)',
        'mpmath at mp.dps=30 (prec 103): exactly representable results are returned exactly (obligation mpf-exact at each such '
        'operation); the INEXACT operations of move_dist_t3 (mpf(jerk)/6 and what follows) carry a mechanised forward error '
        'analysis (pyvc/mpmodel.py mode "bound": magnitude bounds inferred by solver queries, one unit roundoff 2^-103 relative '
        'error per rounded operation, obligations mpf-error and mpf-compare-robust); ASSUMED: each mpmath operation is correctly rounded',
        'int/int true division feeding int(): binary64 quotient truncates like the exact quotient for |a| < 2^53, |b| <= 1024 (stated lemma)',
        'rate_t3: binary64 arithmetic is exact on the narrowed domain (float-exact obligations); firmware domain => narrowed domain by lemma L5',
        'Python int = mathematical integer',
    )
    lemmas(sess)
    check_t3(sess, 'int')
    check_t3(sess, 'clear')
    check_default_accum(sess, MOD, 'move_dist_t3')
    check_rate(sess)
    domain_lemma(sess)
    zero_jerk(sess)
    sess.explanation = ('move_dist_t3 and rate_t3 are executed symbolically from the real source and proved equal to the closed '
                        'forms of the third-order recurrence (lemmas L2-L4 by induction); the clear rule is compared on every path; '
                        'the zero-jerk clause is an identity between the C02 and C01 spec functions.')


def fallback(sess):
    out = []
    for fn in ('move_dist_t3', 'rate_t3'):
        for dps in (15, 5):
            r = native('n_c02', 'search', {'fn': fn, 'dps': dps, 'n': 6000})
            r['what'] = f'n_c02.search[{fn},dps={dps}]'
            r.setdefault('tried', 6000)
            out.append(r)
    return out
