"""C19 -- port discovery picks only EiBotBoards, in enumeration order, and finds by name.

ports = comports(): an abstract list of unknown length n of (device, description, hwid) text triples (index model).
  isname(i) = description_i startswith "EiBotBoard";  isid(i) = hwid_i startswith "USB VID:PID=04D8:FD92"
  findPort / EBB3.find_first     : ports[i].device for the least i with isname, else the least i with isid, else None
  listEBBports / list_ebb_ports  : the sub-list of ports with isname or isid, in order; None when empty
  find_named_ebb / find_named    : None or ports[i].device for the LEAST i whose port matches the name (match_L below); legacy
                                   understands everything the EBB3 layer does, plus the SNR= tag
All "least i" / "for all ports" statements are proved pointwise for an arbitrary index j*, with loop invariants over the
cursor.  The own-name round trip (a name the library reports is found again) is proved per port: the loop body of list_named_ebbs
runs on one symbolic port and the reported text must satisfy the lookup criteria on that port (check_round_trip); a bounded native
end-to-end search runs in addition.
"""
import z3

from pyvc.harness import no_raise, oblige_at
from pyvc.engine import Ret, Raised, EngineError, Exec, Path, LoopSpec, fresh_name, NORMAL
from pyvc.values import VInt, VTuple, VNone, VBool, NONE, VRef, HList, Val
from pyvc.strings import VStr, S, sym_str, Atom, concat
from pyvc.absseq import VAbsSeq
from pyvc import strops
from pyvc.session import native
from . import serialmodel as sm

LEG = 'plotink.ebb_serial'
EB3 = 'plotink.ebb3_serial'
StrS = z3.StringSort()
PF = [z3.Function(f'port_{nm}', z3.IntSort(), StrS) for nm in ('device', 'description', 'hwid')]
NAME_PREFIX = 'EiBotBoard'
ID_PREFIX = 'USB VID:PID=04D8:FD92'


def port_at(i):
    atoms = [Atom(f(i), origin=('port', k, i)) for k, f in enumerate(PF)]
    return VTuple([VStr([a]) for a in atoms]), [i]


def isname(i):
    return z3.PrefixOf(z3.StringVal(NAME_PREFIX), PF[1](i))


def isid(i):
    return z3.PrefixOf(z3.StringVal(ID_PREFIX), PF[2](i))


def new_ports(p):
    n = z3.Int('n_ports')
    p.assume(n >= 0)
    seq = VAbsSeq(n, lambda tag: port_at(z3.Int(tag)), elem=port_at, name='ports')
    seq.as_list = lambda ex, pp, node=None: iter([(pp, seq)])
    return seq


def comports_model(seq, may_raise=True):
    def f(ex, p, args, kwargs, node):
        if may_raise:
            q = p.fork()
            q.trail.append('comports-typeerror')
            yield q, Raised('TypeError', node=node)
        yield p, seq
    return f


class CursorLoop(LoopSpec):
    """for port in ports: ... (first-match search or filter).  Cursor k; pointwise invariant instantiated at the skolem
    index j* (p.ghost['jstar']):  j* < k  =>  inv_at(j*)   where inv_at is what a completed iteration establishes."""
    abstract_only = True

    def __init__(self, name, done_pred, out_var=None, out_pred=None):
        self.name = name
        self.done_pred = done_pred        # index -> z3 Bool that a fall-through iteration establishes (e.g. not isname(i))
        self.out_var = out_var            # name of an output list built by appends (filter loops)
        self.out_pred = out_pred

    def establish(self, ex, p):
        return []

    def head(self, ex, p):
        k = z3.Int(fresh_name(f'cursor_{self.name}'))
        p.ghost[f'cursor_{self.name}'] = k
        p.ghost['cursor'] = k
        j = p.ghost['jstar']
        p.assume(k >= 0)
        p.assume(z3.Implies(z3.And(j >= 0, j < k), self.done_pred(j)))
        if self.out_var:
            ne = z3.Bool(fresh_name('out_nonempty'))
            p.env[self.out_var] = VFilterPrefix(self, k, ne)
            p.assume(z3.Implies(z3.And(j >= 0, j < k, self.out_pred(j)), ne))
            p.assume(z3.Implies(ne, k >= 1))

    def bind(self, ex, h, s, it):
        if not isinstance(it, VAbsSeq) or it.elem is None:
            raise EngineError('cursor loop over a non-indexed list')
        k = h.ghost['cursor']
        done = h.fork()
        done.trail.append(f'{self.name}-exhausted')
        done.assume(k == it.n)
        yield done, False
        h.assume(k < it.n)
        v, _ = it.elem(k)
        h.trail.append(f'{self.name}-next')
        for q, o in ex.assign(h, s.target, v):
            yield q, (True if o is NORMAL else o)

    def preserve(self, ex, p):
        k = p.ghost[f'cursor_{self.name}']
        obs = [(f'{self.name}:fall-through-iteration-establishes-the-invariant', self.done_pred(k))]
        if self.out_var:
            out = p.env.get(self.out_var)
            ok = isinstance(out, VFilterPrefix) and out.owner is self
            if not ok:
                obs.append((f'{self.name}:output-list-is-built-by-appending-only', z3.BoolVal(False)))
            else:
                obs.append((f'{self.name}:port-appended-iff-it-is-an-EBB', out.appended_here == self.out_pred(k)))
        return obs

    def on_break(self, ex, p):
        p.ghost[f'break_{self.name}'] = p.ghost[f'cursor_{self.name}']


class VFilterPrefix(Val):
    """the list  [ports[i] for i < k if pred(i)]  built by appends inside a CursorLoop"""
    pytype = 'list'

    def __init__(self, owner, k, nonempty, appended_here=False):
        self.owner, self.k, self.nonempty = owner, k, nonempty
        self.appended_here = z3.BoolVal(appended_here) if isinstance(appended_here, bool) else appended_here

    def method(self, ex, p, name, args, kwargs, node):
        if name != 'append':
            raise EngineError(f'list method {name} on the filtered port list')
        (v,) = args
        cur, _ = port_at(self.k)
        from pyvc.absseq import same_value
        ex.oblige(p, 'ensures', same_value(ex, p, v, cur), 'appends-the-current-port-itself')
        new = VFilterPrefix(self.owner, self.k, z3.BoolVal(True), True)
        # rebind every name that held the old list value (immutable model of an append-only list)
        for nm, val in list(p.env.items()):
            if val is self:
                p.env[nm] = new
        yield p, NONE

    def truth(self, ex, p):
        return self.nonempty

    def length(self, ex, p):
        raise EngineError('len of the filtered port list')


def replay19(what):
    def fn(model, ob):
        out = native('n_c19', 'search', {'what': what})
        return {'native_input': out.get('input'), 'confirmed': bool(out.get('found')), 'observed': out.get('observed'),
                'expected': out.get('expected'), 'summary': f"{what}: {out.get('input')} -> {out.get('observed')} expected {out.get('expected')}"}
    return fn


def base_ctx(sess, seq, mod):
    ctx = sess.new_ctx()
    sm.install_common(ctx)
    ctx.ext_funcs['serial.tools.list_ports.comports'] = comports_model(seq)
    return ctx


def device_of(i):
    return PF[0](i)


def check_first(sess):
    # the EBB3 method is verified from BOTH kinds of prior object state (histories): port_name None (fresh object) and port_name an
    # arbitrary string left by an earlier call -- the result must not depend on it (seed C19-17: a failed search kept the old name)
    for mod, fn, is_method, stale in ((LEG, 'findPort', False, False), (EB3, 'EBB3.find_first', True, False), (EB3, 'EBB3.find_first', True, True)):
        p = Path()
        seq = new_ports(p)
        j = z3.Int('jstar')
        p.ghost['jstar'] = j
        ctx = base_ctx(sess, seq, mod)
        key = f'{mod}.{fn}'
        ctx.loop_specs[(key, 0)] = CursorLoop('byname', lambda i: z3.Not(isname(i)))
        ctx.loop_specs[(key, 1)] = CursorLoop('byid', lambda i: z3.Not(isid(i)))
        ex = Exec(ctx)
        args = []
        if is_method:
            extra = {'port_name': sm.fresh_err('stale_port_name')} if stale else None
            obj = sm.new_ebb3(p, cls=sm.EBB3, port=False, extra=extra)
            args = [obj]
        outs = list(ex.run_function(p, mod, fn, args))
        tag = fn + ('[after-an-earlier-call]' if stale else '')
        inrange = z3.And(j >= 0, j < seq.n)
        for q, out in outs:
            if not no_raise(ex, q, out, tag):
                continue
            res = sm.field(q, obj, 'port_name') if is_method else out.val
            if 'comports-typeerror' in q.trail:
                if stale:
                    # the property speaks about lists of enumerated ports; when the enumeration itself fails there is no list and the
                    # statement is silent.  The real find_first returns early and leaves port_name as it was: demanding None here was
                    # stricter than the property (false alarm on the unchanged tree, corrected; DESIGN C19).  Kept: nothing is invented.
                    oblige_at(ex, q, tag, 'ensures', isinstance(res, VNone) or res is extra['port_name'], 'enumeration-failure=>None-or-the-name-left-unchanged')
                else:
                    oblige_at(ex, q, tag, 'ensures', isinstance(res, VNone), 'enumeration-failure=>None')
                continue
            b1, b2 = q.ghost.get('break_byname'), q.ghost.get('break_byid')
            if isinstance(res, VNone):
                oblige_at(ex, q, tag, 'ensures', z3.Implies(inrange, z3.And(z3.Not(isname(j)), z3.Not(isid(j)))), 'None=>no-port-is-an-EBB')
            elif isinstance(res, VStr):
                if b1 is not None:
                    oblige_at(ex, q, tag, 'ensures', z3.And(res.z() == device_of(b1), b1 >= 0, b1 < seq.n, isname(b1)), 'name-match:returns-that-port')
                    oblige_at(ex, q, tag, 'ensures', z3.Implies(z3.And(inrange, j < b1), z3.Not(isname(j))), 'name-match:it-is-the-first-one')
                    if not is_method:
                        sess.canary('last-name-match-wins', list(q.pc), z3.Implies(z3.And(inrange, j > b1), z3.Not(isname(j))))
                elif b2 is not None:
                    oblige_at(ex, q, tag, 'ensures', z3.And(res.z() == device_of(b2), b2 >= 0, b2 < seq.n, isid(b2)), 'id-match:returns-that-port')
                    oblige_at(ex, q, tag, 'ensures', z3.Implies(inrange, z3.Not(isname(j))), 'id-match-only-when-no-port-matches-by-name')
                    oblige_at(ex, q, tag, 'ensures', z3.Implies(z3.And(inrange, j < b2), z3.Not(isid(j))), 'id-match:it-is-the-first-one')
                else:
                    oblige_at(ex, q, tag, 'ensures', False, 'a-returned-port-comes-from-a-matching-iteration')
            else:
                oblige_at(ex, q, tag, 'ensures', False, 'returns-None-or-a-device-name')
        sess.absorb(ctx, replay=replay19('first'))


def check_list(sess):
    pred = lambda i: z3.Or(isname(i), isid(i))
    for mod, fn in ((LEG, 'listEBBports'), (EB3, 'list_ebb_ports')):
        p = Path()
        seq = new_ports(p)
        j = z3.Int('jstar')
        p.ghost['jstar'] = j
        ctx = base_ctx(sess, seq, mod)
        loop = CursorLoop('filter', lambda i: z3.BoolVal(True), out_var='ebb_ports_list', out_pred=pred)
        ctx.loop_specs[(f'{mod}.{fn}', 0)] = loop
        ex = Exec(ctx)
        outs = list(ex.run_function(p, mod, fn, []))
        inrange = z3.And(j >= 0, j < seq.n)
        for q, out in outs:
            if not no_raise(ex, q, out, fn):
                continue
            res = out.val
            if 'comports-typeerror' in q.trail:
                oblige_at(ex, q, fn, 'ensures', isinstance(res, VNone), 'enumeration-failure=>None')
                continue
            if isinstance(res, VNone):
                oblige_at(ex, q, fn, 'ensures', z3.Implies(inrange, z3.Not(pred(j))), 'None=>no-port-is-an-EBB')
            elif isinstance(res, VFilterPrefix):
                oblige_at(ex, q, fn, 'ensures', z3.And(res.k == seq.n, res.nonempty), 'returns-the-filtered-list-of-ALL-ports(non-empty)')
            else:
                oblige_at(ex, q, fn, 'ensures', False, 'returns-None-or-the-filtered-list')
        sess.absorb(ctx, replay=replay19('list'))


def match_spec(layer, i, q):
    """the lookup criteria, stated over ASCII-lower-cased text"""
    lo = strops.PY_LOWER
    ql = lo(q)
    p0, p1, p2 = lo(PF[0](i)), lo(PF[1](i)), lo(PF[2](i))
    tail = z3.SubString(p1, z3.If(z3.Length(p1) < 11, z3.Length(p1), z3.IntVal(11)), z3.If(z3.Length(p1) - z3.If(z3.Length(p1) < 11, z3.Length(p1), z3.IntVal(11)) < 0, 0, z3.Length(p1) - z3.If(z3.Length(p1) < 11, z3.Length(p1), z3.IntVal(11))))
    crit = [z3.Contains(p2, z3.Concat(z3.StringVal('ser='), ql)),
            z3.Contains(p1, z3.Concat(z3.StringVal('('), ql, z3.StringVal(')'))),
            z3.PrefixOf(ql, tail), z3.PrefixOf(ql, p0)]
    if layer == 'legacy':
        crit.append(z3.Contains(p2, z3.Concat(z3.StringVal('snr='), ql)))
    return z3.Or(*crit)


def check_find_named(sess):
    for layer, mod, fn in (('legacy', LEG, 'find_named_ebb'), ('ebb3', EB3, 'find_named')):
        p = Path()
        seq = new_ports(p)
        j = z3.Int('jstar')
        p.ghost['jstar'] = j
        name = sym_str('lookup_name')
        qz = name.z()
        ctx = base_ctx(sess, seq, mod)
        ctx.loop_specs[(f'{mod}.{fn}', 0)] = CursorLoop('lookup', lambda i: z3.Not(match_spec(layer, i, qz)))
        ctx.opts['prune_timeout_ms'] = 1500
        ex = Exec(ctx)
        outs = list(ex.run_function(p, mod, fn, [name]))
        inrange = z3.And(j >= 0, j < seq.n)
        for q, out in outs:
            if not no_raise(ex, q, out, fn):
                continue
            res = out.val
            if 'comports-typeerror' in q.trail:
                oblige_at(ex, q, fn, 'ensures', isinstance(res, VNone), 'enumeration-failure=>None')
                continue
            k = q.ghost.get('cursor_lookup')
            if isinstance(res, VNone):
                oblige_at(ex, q, fn, 'ensures', z3.Implies(inrange, z3.Not(match_spec(layer, j, qz))), 'None=>no-port-matches')
            elif isinstance(res, VStr) and k is not None:
                oblige_at(ex, q, fn, 'ensures', z3.And(res.z() == device_of(k), k >= 0, k < seq.n), 'returns-a-port-of-the-list')
                oblige_at(ex, q, fn, 'ensures', match_spec(layer, k, qz), 'the-returned-port-matches-the-name')
                oblige_at(ex, q, fn, 'ensures', z3.Implies(z3.And(inrange, j < k), z3.Not(match_spec(layer, j, qz))), 'first-match-wins')
            else:
                oblige_at(ex, q, fn, 'ensures', False, 'returns-None-or-a-device-name')
        sess.absorb(ctx, replay=replay19('named'))
        # name None -> None, nothing enumerated
        ctx = base_ctx(sess, seq, mod)
        ex = Exec(ctx)
        for q, out in ex.run_function(Path(), mod, fn, [NONE]):
            if no_raise(ex, q, out, fn + '[None]'):
                oblige_at(ex, q, fn + '[None]', 'ensures', isinstance(out.val, VNone), 'None-in-None-out')
        sess.absorb(ctx, replay=replay19('named'))
    # layers agree: legacy understands everything the EBB3 layer does (and only adds the SNR= tag)
    i = z3.Int('i')
    qn = z3.String('lookup_name')
    sess.add('layers/ebb3-match-implies-legacy-match', 'spec', 'relational', [], z3.Implies(match_spec('ebb3', i, qn), match_spec('legacy', i, qn)))
    sess.add('layers/legacy-differs-only-by-the-SNR-tag', 'spec', 'relational',
             [z3.Not(z3.Contains(strops.PY_LOWER(PF[2](i)), z3.Concat(z3.StringVal('snr='), strops.PY_LOWER(qn))))],
             match_spec('legacy', i, qn) == match_spec('ebb3', i, qn))



# ------------------------------------------------------------------------------ own-name round trip
def match_direct(layer, p0, p1, p2, q):
    """match_spec on one port given by its three texts"""
    lo = strops.PY_LOWER
    ql = lo(q)
    P0, P1, P2 = lo(p0), lo(p1), lo(p2)
    n1 = z3.Length(P1)
    tail = z3.SubString(P1, z3.If(n1 < 11, n1, z3.IntVal(11)), z3.If(n1 < 11, 0, n1 - 11))
    crit = [z3.Contains(P2, z3.Concat(z3.StringVal('ser='), ql)),
            z3.Contains(P1, z3.Concat(z3.StringVal('('), ql, z3.StringVal(')'))),
            z3.PrefixOf(ql, tail), z3.PrefixOf(ql, P0)]
    if layer == 'legacy':
        crit.append(z3.Contains(P2, z3.Concat(z3.StringVal('snr='), ql)))
    return z3.Or(*crit)


def check_round_trip(sess):
    """The name list_named_ebbs reports for a board is found again by the by-name lookup of the same layer.
    Per port (the lookup's first-match contract, proved above, turns it into the list statement): the loop BODY of list_named_ebbs is
    executed on one symbolic port; it must append exactly one text nm, and nm must satisfy the lookup criteria on that port.  Staged:
      stage 1 (pure sequence theory, no lower-casing): the reported text sits in the descriptor where the lookup looks --
              nm == description[11:], or hwid contains 'SER=' + nm, or (legacy) hwid contains 'SNR=' + nm, or nm == device;
      stage 2: str.lower is a character-wise map, so prefix / containment / dropping 11 characters commute with it
              (assumed of str.lower, instantiated at the terms of stage 1); the lowered criterion follows propositionally."""
    import ast
    from pyvc import front
    from pyvc.engine import Frame
    lo = strops.PY_LOWER
    for layer, mod, lister in (('legacy', LEG, 'listEBBports'), ('ebb3', EB3, 'list_ebb_ports')):
        fn = front.load(mod).func('list_named_ebbs')
        loops = [n for n in ast.walk(fn) if isinstance(n, ast.For)]
        ok_shape = (len(loops) == 1 and isinstance(loops[0].iter, ast.Name) and isinstance(loops[0].target, ast.Name))
        src = None
        out_name = None
        if ok_shape:
            for st in fn.body:
                if isinstance(st, ast.Assign) and len(st.targets) == 1 and isinstance(st.targets[0], ast.Name):
                    if st.targets[0].id == loops[0].iter.id and isinstance(st.value, ast.Call):
                        src = ast.unparse(st.value.func)
                    if isinstance(st.value, ast.List) and not st.value.elts:
                        out_name = st.targets[0].id
            rets = [n for n in ast.walk(fn) if isinstance(n, ast.Return) and isinstance(n.value, ast.Name)]
            ok_shape = src == lister and out_name is not None and any(r.value.id == out_name for r in rets)
        sess.add(f'list_named_ebbs[{layer}]/one-loop-over-{lister}()-filling-the-returned-list', f'{mod}.list_named_ebbs', 'ensures', [],
                 z3.BoolVal(bool(ok_shape)), replay=replay19('roundtrip'))
        if not ok_shape:
            continue
        ctx = sess.new_ctx()
        ctx.note_function(mod, 'list_named_ebbs')
        ctx.opts['prune_timeout_ms'] = 500
        ex = Exec(ctx)
        p = Path()
        p0, p1, p2 = (z3.String(f'port_{nm}') for nm in ('device', 'description', 'hwid'))
        port = VTuple([VStr([Atom(t, origin=('port', k))]) for k, t in enumerate((p0, p1, p2))])
        # the port is one that the board listing returned
        p.assume(z3.Or(z3.PrefixOf(z3.StringVal(NAME_PREFIX), p1), z3.PrefixOf(z3.StringVal(ID_PREFIX), p2)))
        names = p.alloc(HList([]), 'list')
        p.frames.append(Frame({loops[0].target.id: port, out_name: names}, mod, 'list_named_ebbs'))
        tag = f'list_named_ebbs[{layer}](one-port)'
        n = 0
        for q, out in ex.exec_block(loops[0].body, p):
            if out is not NORMAL:
                oblige_at(ex, q, tag, 'ensures', False, 'loop-body-completes-normally')
                continue
            items = q.heap[names.ref].items
            if len(items) != 1 or not isinstance(items[0], VStr):
                oblige_at(ex, q, tag, 'ensures', False, 'exactly-one-name-is-reported-per-board')
                continue
            n += 1
            nm = items[0].z()
            n1 = z3.Length(p1)
            tail_raw = z3.SubString(p1, z3.If(n1 < 11, n1, z3.IntVal(11)), z3.If(n1 < 11, 0, n1 - 11))
            stage1 = [('name==description[11:]', z3.And(nm == tail_raw)),
                      ('hwid-contains-SER=name', z3.Contains(p2, z3.Concat(z3.StringVal('SER='), nm))),
                      ('name==device', nm == p0)]
            if layer == 'legacy':
                stage1.append(('hwid-contains-SNR=name', z3.Contains(p2, z3.Concat(z3.StringVal('SNR='), nm))))
            # hints for the sequence solver (instances of the two stand-alone lemmas below): where 'SER=' / 'SNR=' is found it is followed
            # by the text that comes next, so  tag + following-text  is contained in the descriptor
            for lit in ('SER=', 'SNR='):
                i0 = z3.IndexOf(p2, z3.StringVal(lit), 0)
                q.pc.append(z3.Implies(z3.Contains(p2, z3.StringVal(lit)), z3.And(i0 >= 0, z3.SubString(p2, i0, 4) == z3.StringVal(lit))))
                q.pc.append(z3.Implies(z3.And(i0 >= 0, i0 + 4 + z3.Length(nm) <= z3.Length(p2)),
                                       z3.Contains(p2, z3.Concat(z3.SubString(p2, i0, 4), z3.SubString(p2, i0 + 4, z3.Length(nm))))))
            oblige_at(ex, q, tag, 'ensures', z3.Or(*[g for _, g in stage1]), 'stage1:the-reported-name-sits-where-the-lookup-looks')
            del q.pc[-4:]
            # stage 2: instances of "str.lower is a character-wise map"
            P0, P1, P2, ql = lo(p0), lo(p1), lo(p2), lo(nm)
            m1 = z3.Length(P1)
            tail_low = z3.SubString(P1, z3.If(m1 < 11, m1, z3.IntVal(11)), z3.If(m1 < 11, 0, m1 - 11))
            ax = [z3.Implies(nm == tail_raw, ql == tail_low),                                   # lower(s[11:]) == lower(s)[11:]
                  z3.Implies(z3.Contains(p2, z3.Concat(z3.StringVal('SER='), nm)), z3.Contains(P2, z3.Concat(z3.StringVal('ser='), ql))),
                  z3.Implies(z3.Contains(p2, z3.Concat(z3.StringVal('SNR='), nm)), z3.Contains(P2, z3.Concat(z3.StringVal('snr='), ql))),
                  z3.Implies(nm == p0, ql == P0)]
            ob = ex.oblige(q, 'ensures', match_direct(layer, p0, p1, p2, nm), 'stage2:the-lookup-criteria-accept-the-reported-name',
                           extra_hyps=[z3.Or(*[g for _, g in stage1])] + ax)
            ob.func = tag
            ob.hyps = [z3.Or(*[g for _, g in stage1])] + ax          # propositional: nothing else is needed
        if n == 0:
            raise EngineError(f'list_named_ebbs[{layer}]: no body path')
        sess.functions.update(ctx.functions)
        sx = z3.String('s')
        ax_, mx_ = z3.Ints('a m')
        for lit in ('SER=', 'SNR='):
            ix = z3.IndexOf(sx, z3.StringVal(lit), 0)
            sess.add(f'lemma/find-returns-an-occurrence[{lit}]', 'spec', 'lemma', [z3.Contains(sx, z3.StringVal(lit))],
                     z3.And(ix >= 0, z3.SubString(sx, ix, 4) == z3.StringVal(lit)))
        sess.add('lemma/adjacent-substrings-are-contained-together', 'spec', 'lemma', [ax_ >= 0, mx_ >= 0, ax_ + 4 + mx_ <= z3.Length(sx)],
                 z3.Contains(sx, z3.Concat(z3.SubString(sx, ax_, 4), z3.SubString(sx, ax_ + 4, mx_))))
        ctx.assume_note('str.lower is a character-wise map: lower(s[11:]) == lower(s)[11:], and s contains LIT+t implies lower(s) contains '
                        'lower(LIT)+lower(t) (instances at the reported name; lower("SER=") == "ser=", lower("SNR=") == "snr=")')
        sess.absorb(ctx, replay=replay19('roundtrip'))


def build(sess):
    sess.level = 'proof'
    sess.trust(
        'pyvc symbolic executor and its model of the Python subset; abstract indexed sequence for the port list',
        'comports() returns a finite list of 3-tuples of texts, or raises TypeError (handled by the code)',
        'str.lower() on symbolic text is an uninterpreted function that is a character-wise map: it distributes over concatenation, and '
        'prefix / containment / dropping a fixed number of leading characters commute with it (ASCII assumption for port descriptors and names)',
        'z3 sequence theory / cvc5 strings for startswith / in / find / slicing',
    )
    check_first(sess)
    check_list(sess)
    check_find_named(sess)
    check_round_trip(sess)
    rt = native('n_c19', 'round_trip', {'seed': sess.seed, 'n': 400 if sess.tier == 'quick' else 6000})
    sess.bounded.append({'function': 'list_named_ebbs -> find_named_ebb / find_named end to end (supplementary to the per-port proof)',
                         'bound': rt.get('bound'), 'evaluations': rt.get('tried', 0), 'distinct_nontrivial': rt.get('distinct', 0),
                         'rule': 'descriptor strings from Windows / macOS / Linux templates x names over a small alphabet x case variants; '
                                 'non-trivial = the board is found through a name extracted from its description or serial tag'})
    if rt.get('found'):
        sess.native_violations.append({'obligation': 'C19/bounded/own-name-round-trip', 'native_input': rt.get('input'),
                                       'observed': rt.get('observed'), 'expected': rt.get('expected'), 'summary': f"{rt.get('input')} -> {rt.get('observed')} expected {rt.get('expected')}"})
    sess.explanation = ('PROVED (obligations listed): first-board discovery and the board listing in both layers, and for the by-name '
                        'lookups: the result is a port of the list, it matches the name under the stated criteria, it is the FIRST '
                        'matching port, None iff no port matches, legacy = EBB3 + SNR tag. Own-name round trip: the loop body of '
                        'list_named_ebbs is executed on one symbolic port of the board listing; on every path exactly one name is reported and it '
                        'satisfies the lookup criteria on that port (stage 1 in pure sequence theory, stage 2 through the character-wise-map '
                        'property of str.lower); with the first-match contract of the lookup this is the list statement. A bounded native '
                        'end-to-end run is reported in addition (labelled, not counted).')


def fallback(sess):
    out = []
    for what in ('first', 'list', 'named'):
        r = native('n_c19', 'search', {'what': what})
        r['what'] = f'n_c19.search[{what}]'
        out.append(r)
    r = native('n_c19', 'round_trip', {'n': 400})
    r['what'] = 'n_c19.round_trip'
    out.append(r)
    return out
