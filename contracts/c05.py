"""C05 -- EBB3 command/query framing and fault handling.

1. EBB3.command / EBB3.query / EBB3.query_statusbyte: real bodies, symbolic request text, every read of the
   25-retry loop forked {blank, text, raises}; checked against the contract of DESIGN section 6 (C05).
2. every other public request method of EBB3 / EBBMotionWrap: verified modularly against the call-site
   contracts of command/query (contracts/serialmodel.py): raises nothing; a failed callee => failure value and
   err set.
3. alignment lemma over the contracts.
"""
import z3

from pyvc.harness import run, no_raise, oblige_at
from pyvc.engine import Ret, Raised, EngineError, Exec, Path
from pyvc.values import VInt, VTuple, VNone, VBool, NONE, VRef
from pyvc.strings import VStr, S, sym_str, concat, Atom
from pyvc import strops
from pyvc.session import native
from . import serialmodel as sm
from .methods import METHODS, FAIL, sym_args

MOD = 'plotink.ebb3_serial'
EXEMPT = ('rb', 'r', 'bl')


def name_of(t):
    """spec: the request name of a trimmed request text t (z3 String)"""
    return z3.If(z3.Or(z3.Length(t) == 1, z3.SubString(t, 1, 1) == z3.StringVal(',')),
                 z3.SubString(t, 0, 1), z3.SubString(t, 0, 2))


def last_reply(p):
    """(kind, core z3 String) of the final read on this path: 'text' | 'blank' | 'exc' | 'none'"""
    reads = [e for e in p.events if e[0] in ('read', 'read-exc')]
    if not reads:
        return 'none', z3.StringVal('')
    e = reads[-1]
    if e[0] == 'read-exc':
        return 'exc', z3.StringVal('')
    if e[1] == 'text':
        return 'text', e[2].term
    return 'blank', z3.StringVal('')


def build_script(ob, model):
    """turn the trail of a path into a read script for the fake port"""
    reads, wexc = [], []
    nw = 0
    for tok in ob.info.get('trail', []):
        cls = tok.split(':', 1)[1] if ':' in tok and tok.startswith(('wexc', 'rexc')) else None
        if tok.startswith('wexc'):
            wexc.append(nw if cls is None else [nw, cls])
            nw += 1
        elif tok.startswith('w') and tok[1:].isdigit():
            nw += 1
        elif tok.startswith('rexc'):
            reads.append('EXC' if cls is None else f'EXC:{cls}')
        elif tok.startswith('rblank'):
            reads.append('')
        elif tok.startswith('rtext'):
            k = tok[5:]
            val = None
            for name, v in model.items():
                if name.startswith(f'reply_{k}!'):
                    val = v
            reads.append((val if val is not None else 'XX') + '\r\n')
    return reads, wexc


def replay_request(method):
    def fn(model, ob):
        cmd = model.get('cmd', 'QG')
        reads, wexc = build_script(ob, model)
        payload = {'method': method, 'args': ([] if method == 'query_statusbyte' else [cmd]), 'reads': reads,
                   'write_exc_at': wexc, 'check': 'request'}
        out = native('n_serial', 'replay', payload)
        if not out.get('fails'):
            alt = native('n_serial', 'search_request', {'method': method})
            if alt.get('found'):
                payload, out = alt['input'], alt
        return {'native_input': payload, 'confirmed': bool(out.get('fails')), 'observed': out.get('observed'),
                'expected': out.get('expected'),
                'summary': f"{method}({', '.join(map(repr, payload['args']))}) reads={payload['reads'][:4]}... -> {out.get('observed')} expected {out.get('expected')}"}
    return fn


def check_request(sess, method, kf_active):
    """command / query bodies"""
    ctx = sess.new_ctx()
    sm.install_common(ctx, sm.PortModel(faults=True, reads='any', exc_classes=('SerialException', 'OSError', 'RuntimeError')))
    ctx.contracts[f'{sm.EBB3}.record_error'] = sm.RecordError()
    ctx.opts['unroll_limit'] = 64
    ex = Exec(ctx)
    p = Path()
    cmd = sym_str('cmd')
    t = strops.strip(ex, p, cmd)
    tz = t.z()
    p.assume(z3.Length(tz) >= 1)
    obj = sm.new_ebb3(p)
    outs = list(ex.run_function(p, MOD, f'EBB3.{method}', [obj, cmd]))
    sess.cover(f'{method}/requires', [z3.Length(tz) >= 1])
    want = concat(t, S('\r')).with_kind('bytes')
    name = name_of(tz)
    lname = strops.PY_LOWER(name)
    exempt = z3.Or(*[lname == z3.StringVal(x) for x in EXEMPT])
    n_ok = 0
    for q, out in outs:
        tag = f'EBB3.{method}'
        if not no_raise(ex, q, out):
            continue
        res = out.val
        att = sm.write_attempts(q)
        # exactly one write attempt, with the trimmed text + CR
        okw = len(att) == 1 and att[0].kind == 'bytes' and att[0].struct_eq(want) is True
        oblige_at(ex, q, tag, 'ensures', okw, 'exactly-one-write-of-trimmed-text+CR')
        wrote = len(sm.writes(q)) == 1
        kind, reply = last_reply(q)
        nr = sm.n_reads(q)
        oblige_at(ex, q, tag, 'ensures', nr <= 26 and (wrote or nr == 0), 'at-most-26-reads-and-only-after-the-write')
        if kind == 'blank':
            oblige_at(ex, q, tag, 'ensures', nr == 26, 'gives-up-only-after-25-empty-retries')
        err = sm.field(q, obj, 'err')
        errset = not isinstance(err, VNone)
        exc = (not wrote) or kind == 'exc'
        if exc:
            spec_ok = z3.BoolVal(False)
        elif kind == 'text':
            spec_ok = z3.And(z3.PrefixOf(name, reply), z3.Not(z3.Contains(reply, z3.StringVal('Err:'))))
        else:
            spec_ok = z3.BoolVal(False)
        region = z3.And(z3.BoolVal(exc), exempt) if (kf_active and method == 'command') else z3.BoolVal(False)
        if method == 'command':
            if not (isinstance(res, VBool) and res.conc()):
                oblige_at(ex, q, tag, 'result-shape', False, 'bool')
                continue
            oblige_at(ex, q, tag, 'ensures', z3.Or(region, z3.BoolVal(res.b) == spec_ok),
                      'True-iff-reply-starts-with-name-and-has-no-Err')
            oblige_at(ex, q, tag, 'ensures', z3.Or(region, z3.BoolVal(res.b or errset)), 'failure-is-recorded-in-err')
            oblige_at(ex, q, tag, 'ensures', z3.Or(region, z3.BoolVal((not res.b) or (not errset))), 'success-leaves-err-None')
        else:
            if isinstance(res, VNone):
                oblige_at(ex, q, tag, 'ensures', z3.Not(spec_ok), 'None-only-on-failure')
                oblige_at(ex, q, tag, 'ensures', errset, 'failure-is-recorded-in-err')
            elif isinstance(res, VStr) and res.kind == 'str':
                oblige_at(ex, q, tag, 'ensures', spec_ok, 'text-only-on-success')
                oblige_at(ex, q, tag, 'ensures', not errset, 'success-leaves-err-None')
                # payload: reply minus the name and one separating comma
                ln = z3.Length(name)
                has_comma = z3.And(z3.Length(reply) > ln, z3.SubString(reply, ln, 1) == z3.StringVal(','))
                start = z3.If(has_comma, ln + 1, ln)
                spec_payload = z3.SubString(reply, start, z3.Length(reply) - start)
                oblige_at(ex, q, tag, 'ensures', res.z() == spec_payload, 'payload==reply-minus-name-and-one-comma')
            else:
                oblige_at(ex, q, tag, 'result-shape', False, 'None|str')
                continue
        n_ok += 1
    if n_ok == 0:
        raise EngineError(f'{method}: no returning path')
    sess.absorb(ctx, replay=replay_request(method))
    return outs


def check_statusbyte(sess):
    ctx = sess.new_ctx()
    sm.install_common(ctx, sm.PortModel(faults=True, reads='any', exc_classes=('SerialException', 'OSError', 'RuntimeError')))
    ctx.contracts[f'{sm.EBB3}.record_error'] = sm.RecordError()
    ex = Exec(ctx)
    p = Path()
    obj = sm.new_ebb3(p)
    outs = list(ex.run_function(p, MOD, 'EBB3.query_statusbyte', [obj]))
    for q, out in outs:
        tag = 'EBB3.query_statusbyte'
        if not no_raise(ex, q, out):
            continue
        att = sm.write_attempts(q)
        okw = len(att) == 1 and att[0].struct_eq(S('QG\r', 'bytes')) is True
        oblige_at(ex, q, tag, 'ensures', okw, 'exactly-one-write-QG+CR')
        oblige_at(ex, q, tag, 'ensures', sm.n_reads(q) <= 1, 'at-most-one-read')
        kind, reply = last_reply(q)
        wrote = len(sm.writes(q)) == 1
        err = sm.field(q, obj, 'err')
        errset = not isinstance(err, VNone)
        res = out.val
        good = z3.And(z3.PrefixOf(z3.StringVal('QG'), reply), z3.Not(z3.Contains(reply, z3.StringVal('Err:')))) \
            if (wrote and kind == 'text') else z3.BoolVal(False)
        if isinstance(res, VNone):
            # None on every fault (and on a well-named reply whose payload is not hex: not an error, just no value)
            oblige_at(ex, q, tag, 'ensures', z3.Or(good, z3.BoolVal(errset)), 'fault-is-recorded-in-err')
        elif isinstance(res, VInt):
            oblige_at(ex, q, tag, 'ensures', good, 'value-only-on-a-QG-reply-without-Err')
            oblige_at(ex, q, tag, 'ensures', not errset, 'success-leaves-err-None')
        else:
            oblige_at(ex, q, tag, 'result-shape', False, 'None|int')
    sess.absorb(ctx, replay=replay_request('query_statusbyte'))


def replay_caller(meth):
    def fn(model, ob):
        args = []
        for (nm, ty) in METHODS[meth]:
            v = model.get(nm)
            if ty == 'int':
                try:
                    args.append(int(v))
                except (TypeError, ValueError):
                    args.append(1)
            elif ty == 'optint':
                args.append(None)
            else:
                args.append(v if isinstance(v, str) else 'abc')
        # fail the k-th request of the method (derived from the trail)
        outcomes = [t for t in ob.info.get('trail', []) if t.startswith(('cmd-', 'qry-'))]
        payload = {'method': meth, 'args': args, 'outcomes': outcomes, 'check': 'caller', 'fail_value': FAIL.get(meth)}
        out = native('n_serial', 'replay_caller', payload)
        return {'native_input': payload, 'confirmed': bool(out.get('fails')), 'observed': out.get('observed'),
                'expected': out.get('expected'),
                'summary': f"{meth}{tuple(args)} with request outcomes {outcomes} -> {out.get('observed')} expected {out.get('expected')}"}
    return fn


def fail_matches(res, fv):
    """does the symbolic result equal the documented failure value fv (python literal)?"""
    if fv is None:
        return isinstance(res, VNone)
    if fv is False:
        return isinstance(res, VBool) and res.conc() and res.b is False
    if isinstance(fv, tuple):
        return isinstance(res, VTuple) and len(res.items) == len(fv) and all(fail_matches(a, b) for a, b in zip(res.items, fv))
    return False


def check_callers(sess, only=None):
    """every request method other than command/query/query_statusbyte, from the unblocked state, each request
    it issues forked {ok, failed before the write, failed after the write}"""
    n = 0
    for meth, params in METHODS.items():
        if meth in ('command', 'query', 'query_statusbyte', 'connect', 'disconnect', '__init__', 'record_error',
                    'reboot', 'bootload', 'find_first', 'parse_version', 'min_version'):
            continue
        if only and only not in meth:
            continue
        ctx = sess.new_ctx()
        sm.install_common(ctx, sm.PortModel(faults=True, reads='any'))
        ctx.contracts[f'{sm.EBB3}.record_error'] = sm.RecordError()
        ctx.contracts[f'{sm.EBB3}.command'] = sm.CommandContract('any')
        ctx.contracts[f'{sm.EBB3}.query'] = sm.QueryContract('any')
        ctx.opts['unroll_limit'] = 8
        # thin wrappers around command/query that other request methods call: executed inline in their callers
        # (each is also verified on its own, as a caller, in this same loop)
        for w in ('var_write', 'var_read'):
            ctx.inline.add(f'{sm.EBB3}.{w}')
        ctx.inline.add('plotink.ebb3_motion.EBBMotionWrap.motors_query_enabled')
        from .c06 import install_loops
        install_loops(ctx)
        ex = Exec(ctx)
        p = Path()
        obj = sm.new_ebb3(p)
        args, req = sym_args(meth)
        for r in req:
            p.assume(r)
        cls, qual = sm.method_home(meth)
        outs = list(ex.run_function(p, cls, qual, [obj] + args))
        tag = f'{qual}'
        for q, out in outs:
            if isinstance(out, Raised):
                # parsing a *well-named but malformed* payload is outside the property's fault classes:
                # only exceptions on paths where some request FAILED are claimed (DESIGN C05)
                failed = any(t in ('cmd-fail', 'cmd-wfail', 'qry-fail', 'qry-wfail') for t in q.trail)
                if failed or out.cls not in ('ValueError', 'KeyError', 'IndexError'):
                    no_raise(ex, q, out, tag)
                else:
                    sess.notes_set.add(f'{qual}: raises {out.cls} on a correctly named reply with a malformed payload (not claimed)')
                continue
            failed = any(t in ('cmd-fail', 'cmd-wfail', 'qry-fail', 'qry-wfail') for t in q.trail)
            err = sm.field(q, obj, 'err')
            if failed:
                oblige_at(ex, q, tag, 'ensures', not isinstance(err, VNone), 'failed-request-leaves-err-set')
                oblige_at(ex, q, tag, 'ensures', fail_matches(out.val, FAIL[meth]), f'failed-request-returns-{FAIL[meth]!r}')
                # nothing is transmitted once the error is recorded -- not even by the rest of the SAME call (a helper that splits its
                # work into several requests must stop at the first failed one)
                at = q.ghost.get('err_set_at')
                later = [e for e in q.events[at:]] if at is not None else []
                oblige_at(ex, q, tag, 'ensures', at is not None and not any(e[0] in ('write', 'write-exc', 'request') for e in later),
                          'nothing-is-transmitted-after-the-error-is-recorded(same-call)')
            else:
                oblige_at(ex, q, tag, 'ensures', isinstance(err, VNone), 'no-failure-leaves-err-None')
            n += 1
        sess.absorb(ctx, replay=replay_caller(meth))
    if n == 0 and not only:
        raise EngineError('no caller paths')


def alignment_lemma(sess):
    """Against a conforming device every request consumes exactly its own reply line.

    Device stream for one request: b blank reads (0 <= b <= 25) then exactly one text line.  From the contract of
    command/query (reads stop at the first text line; up to 26 reads) the number of lines consumed is b+1 = all of
    them; by induction over the request sequence the stream position before request n is the sum of the lengths
    of the first n-1 groups.  Stated over integers: consumed(b) = b+1 when b <= 25."""
    b, pos, k = z3.Ints('blank_reads pos k')
    consumed = z3.If(b <= 25, b + 1, 26)
    sess.add('lemma/alignment/consumes-own-group', 'spec', 'lemma', [b >= 0, b <= 25], consumed == b + 1)
    sess.add('lemma/alignment/induction-step', 'spec', 'lemma', [b >= 0, b <= 25, pos >= 0],
             pos + consumed == pos + (b + 1))
    sess.canary('alignment-with-26-blanks', [b == 26], consumed == b + 1)


def build(sess):
    sess.level = 'proof'
    sess.notes_set = set()
    sess.trust(
        'pyvc symbolic executor and its model of the Python subset (typed values: None/str/bytes are distinct)',
        'z3 sequence theory / cvc5 strings for startswith / in / slicing on symbolic replies',
        'port model: write appends to the trace or raises SerialException/OSError; readline returns a whitespace-only '
        'line, a line with non-empty ASCII text, or raises; fault model = {empty read, arbitrary reply line, exception at any call}',
        'str.strip / lower are uninterpreted on symbolic text (strip idempotent, edges clean)',
    )
    kf = native('n_serial', 'kf_c05_1', {})
    kf_active = bool(kf.get('reproduces'))
    sess.known_status = {'KF-C05-1': kf_active}
    only = getattr(sess, 'only', None)
    if not only or 'command' in only:
        check_request(sess, 'command', kf_active)
    if not only or 'query' in only:
        check_request(sess, 'query', kf_active)
    if not only or 'status' in only:
        check_statusbyte(sess)
    if not only or only.startswith('caller'):
        check_callers(sess, None if not only else (only.split(':', 1)[1] if ':' in only else None))
    alignment_lemma(sess)
    sess.notes.extend(sorted(sess.notes_set))
    sess.explanation = ('command/query/query_statusbyte are executed symbolically with the 25-retry loops fully unrolled and '
                        'every read forked {blank, text, raises}; all other request methods are verified modularly against '
                        'the command/query contracts. KF-C05-1 (exempt names rb/r/bl swallow exceptions) is excluded by region '
                        'only while its witness still reproduces.')


def fallback(sess):
    out = []
    for m in ('command', 'query', 'query_statusbyte'):
        r = native('n_serial', 'search_request', {'method': m})
        r['what'] = f'n_serial.search_request[{m}]'
        out.append(r)
    r = native('n_serial', 'search_callers', {})
    r['what'] = 'n_serial.search_callers'
    out.append(r)
    return out
