"""C20 -- text_utils.xml_escape round-trips through an XML parser; format_hms encodes the rounded duration.

xml_escape: each str.replace with a one-character pattern acts character by character (homomorphism axiom), so
xml_escape(c . rest) = h(c) . xml_escape(rest).  The executor runs the REAL function on [c][rest] for a symbolic
character c of each class (the five specials, the normalised whitespace characters, every other XML-legal character)
and an arbitrary rest; the step equation is checked structurally and h(c) is checked against the parser contract
(DESIGN 3.4) in element content, double- and single-quoted attribute values: decode(h(c)) == c, no bare special.
Known finding KF-C20-1: CR (any context) and TAB/LF (attribute values) are emitted raw and normalised by the parser.

format_hms: real model of the duration; the printed fields are tied to R = round(d) by integer arithmetic.
"""
import z3

from pyvc.harness import no_raise, oblige_at
from pyvc.engine import Ret, Raised, EngineError, Exec, Path
from pyvc.values import VInt, VFloat, VTuple, VNone, VBool, NONE
from pyvc.strings import VStr, S, Atom
from pyvc.session import native

MOD = 'plotink.text_utils'
SPECIALS = {'&': '&amp;', '<': '&lt;', '>': '&gt;', '"': '&quot;', "'": '&apos;'}
ENT = {v: k for k, v in SPECIALS.items()}
NORMALISED = {'\r': ('content', 'attr-dq', 'attr-sq'), '\t': ('attr-dq', 'attr-sq'), '\n': ('attr-dq', 'attr-sq')}
CONTEXTS = ('content', 'attr-dq', 'attr-sq')


def decode_literal(text, ctx):
    """parser contract on a literal: returns the text read back, or None for a well-formedness error"""
    out, i = [], 0
    while i < len(text):
        ch = text[i]
        if ch == '&':
            j = text.find(';', i)
            ent = text[i:j + 1] if j > 0 else None
            if ent in ENT:
                out.append(ENT[ent])
                i = j + 1
                continue
            return None
        if ch == '<':
            return None
        if (ch == '"' and ctx == 'attr-dq') or (ch == "'" and ctx == 'attr-sq'):
            return None
        if ch == '\r':
            ch = '\n'
        if ctx != 'content' and ch in '\t\n':
            ch = ' '
        out.append(ch)
        i += 1
    return ''.join(out)


def bare_specials(text):
    t = text
    for e in ENT:
        t = t.replace(e, '')
    return [c for c in SPECIALS if c in t]


def replay_escape(model, ob):
    out = native('n_c20', 'search_escape', {})
    return {'native_input': out.get('input'), 'confirmed': bool(out.get('found')), 'observed': out.get('observed'),
            'expected': out.get('expected'), 'summary': f"xml_escape({out.get('input')!r}) -> {out.get('observed')} expected {out.get('expected')}"}


def run_escape(ctx, txt):
    ex = Exec(ctx)
    outs = list(ex.run_function(Path(), MOD, 'xml_escape', [txt]))
    return ex, outs


def check_escape(sess, kf_active):
    rest = Atom(z3.String('rest'), origin=('sym', 'rest'))
    # xml_escape(rest) alone: the image of an arbitrary string
    ctx0 = sess.new_ctx()
    ex0, o0 = run_escape(ctx0, VStr([rest]))
    if len(o0) != 1 or isinstance(o0[0][1], Raised):
        raise EngineError('xml_escape(rest): expected one returning path')
    img_rest = o0[0][1].val
    sess.absorb(ctx0, replay=replay_escape)
    # base
    ctxb = sess.new_ctx()
    exb, ob_ = run_escape(ctxb, S(''))
    for q, out in ob_:
        if no_raise(exb, q, out, 'xml_escape'):
            oblige_at(exb, q, 'xml_escape', 'ensures', isinstance(out.val, VStr) and out.val.is_lit() and out.val.lit() == '', 'base:escape("")==""')
    sess.absorb(ctxb, replay=replay_escape)
    classes = [(c, S(c)) for c in SPECIALS] + [(c, S(c)) for c in NORMALISED]
    other = Atom(z3.String('c_other'), excl=frozenset(SPECIALS) | frozenset(NORMALISED), nonempty=True, origin=('sym', 'c_other'))
    classes.append(('other', VStr([other])))
    for label, cval in classes:
        ctx = sess.new_ctx()
        ex, outs = run_escape(ctx, VStr(list(cval.chunks) + [rest]))
        tag = f'xml_escape[{label!r}]'
        for q, out in outs:
            if not no_raise(ex, q, out, tag):
                continue
            r = out.val
            if not (isinstance(r, VStr) and r.kind == 'str'):
                oblige_at(ex, q, tag, 'ensures', False, 'returns-text')
                continue
            nrest = len(img_rest.chunks)
            tail = VStr(r.chunks[len(r.chunks) - nrest:]) if nrest else VStr([])
            head = VStr(r.chunks[:len(r.chunks) - nrest])
            oblige_at(ex, q, tag, 'ensures', tail.struct_eq(img_rest) is True, 'step:escape(c.rest)==h(c).escape(rest)')
            if label == 'other':
                ok = len(head.chunks) == 1 and isinstance(head.chunks[0], Atom) and head.chunks[0].same(other)
                oblige_at(ex, q, tag, 'ensures', ok, 'h(c)==c-for-an-ordinary-character(reads-back-as-itself)')
                continue
            if not head.is_lit():
                oblige_at(ex, q, tag, 'ensures', False, 'h(c)-is-a-literal')
                continue
            hc = head.lit()
            oblige_at(ex, q, tag, 'ensures', not bare_specials(hc), f'no-special-outside-an-entity(h={hc!r})')
            for cx in CONTEXTS:
                in_region = kf_active and label in NORMALISED and cx in NORMALISED[label]
                back = decode_literal(hc, cx)
                if in_region:
                    continue
                oblige_at(ex, q, tag, 'ensures', back == label, f'{cx}:parser-reads-back-the-character(h={hc!r}->{back!r})')
        sess.absorb(ctx, replay=replay_escape)
    # canary: "escaping '<' yields '&amp;lt;'" must be refuted (order of the replacements)
    sess.canary('ampersand-last', [], z3.StringVal('&lt;') == z3.StringVal('&amp;lt;'))


# ------------------------------------------------------------------------------ format_hms
def replay_hms(model, ob):
    out = native('n_c20', 'search_hms', {})
    return {'native_input': out.get('input'), 'confirmed': bool(out.get('found')), 'observed': out.get('observed'),
            'expected': out.get('expected'), 'summary': f"format_hms{out.get('input')} -> {out.get('observed')} expected {out.get('expected')}"}


def fields_of(res):
    """[(spec, term) | literal] of a formatted result"""
    out = []
    for c in res.chunks:
        if isinstance(c, str):
            out.append(c)
        elif c.origin and c.origin[0] == 'fmt':
            out.append((c.origin[1], c.origin[2]))
        elif c.origin and c.origin[0] == 'str_of':
            out.append(('d', c.origin[1]))
        else:
            out.append(('?', None))
    return out


def check_hms(sess):
    d = z3.Real('duration')
    results = {}
    for ms in (False, True):
        ctx = sess.new_ctx()
        ex = Exec(ctx)
        p = Path()
        p.assume(d >= 0)
        outs = list(ex.run_function(p, MOD, 'format_hms', [VFloat(d), VBool(ms)]))
        results[ms] = (ex, outs)
        tag = f'format_hms[{"ms" if ms else "s"}]'
        sec = d / 1000 if ms else d
        R = z3.Int('R_rounded')
        for q, out in outs:
            if not no_raise(ex, q, out, tag):
                continue
            r = out.val
            if not (isinstance(r, VStr) and r.kind == 'str'):
                oblige_at(ex, q, tag, 'ensures', False, 'returns-text')
                continue
            f = fields_of(r)
            lits = [x for x in f if isinstance(x, str)]
            nums = [x for x in f if not isinstance(x, str)]
            # R is "the duration rounded to the nearest second"
            near = [z3.ToReal(R) - sec <= z3.RealVal('1/2'), sec - z3.ToReal(R) <= z3.RealVal('1/2')]
            if lits == [' Seconds'] and len(nums) == 1 and nums[0][0] == '.3f':
                oblige_at(ex, q, tag, 'ensures', z3.And(sec < 10, nums[0][1] == sec), 'under-10s:printed-to-the-millisecond')
            elif lits == [' Seconds'] and len(nums) == 1 and nums[0][0] == '02':
                v = nums[0][1]
                oblige_at(ex, q, tag, 'ensures', z3.And(sec >= 10, v < 60, v >= 0, z3.ToReal(v) - sec <= z3.RealVal('1/2'), sec - z3.ToReal(v) <= z3.RealVal('1/2')),
                          'ss-form:value==rounded-duration<60')
            elif lits == [':', ' (Minutes, seconds)'] and [n[0] for n in nums] == ['d', '02']:
                m, s = nums[0][1], nums[1][1]
                tot = 60 * m + s
                oblige_at(ex, q, tag, 'ensures', z3.And(sec >= 10, s >= 0, s <= 59, m >= 1, tot >= 60, tot < 3600,
                                                        z3.ToReal(tot) - sec <= z3.RealVal('1/2'), sec - z3.ToReal(tot) <= z3.RealVal('1/2')),
                          'm:ss-form:60m+s==rounded-duration,fields-in-range')
            elif lits == [':', ':', ' (Hours, minutes, seconds)'] and [n[0] for n in nums] == ['d', '02', '02']:
                h, m, s = nums[0][1], nums[1][1], nums[2][1]
                tot = 3600 * h + 60 * m + s
                oblige_at(ex, q, tag, 'ensures', z3.And(s >= 0, s <= 59, m >= 0, m <= 59, h >= 1, tot >= 3600,
                                                        z3.ToReal(tot) - sec <= z3.RealVal('1/2'), sec - z3.ToReal(tot) <= z3.RealVal('1/2')),
                          'h:mm:ss-form:3600h+60m+s==rounded-duration,fields-in-range')
            else:
                oblige_at(ex, q, tag, 'ensures', False, f'unrecognised-output-shape{lits}')
        sess.absorb(ctx, replay=replay_hms)
    # millisecond clause: format_hms(x, True) == format_hms(x/1000.0)
    ctx = sess.new_ctx()
    ex = Exec(ctx)
    p = Path()
    p.assume(d >= 0)
    outs_s = list(ex.run_function(p, MOD, 'format_hms', [VFloat(d / 1000), VBool(False)]))
    exm, outs_ms = results[True]
    k = 0
    for qa, oa in outs_ms:
        for qb, ob_ in outs_s:
            if isinstance(oa, Raised) or isinstance(ob_, Raised):
                continue
            hyps = list(qa.pc) + list(qb.pc)
            same = oa.val.struct_eq(ob_.val)
            goal = z3.BoolVal(same) if same is not None else (oa.val.z() == ob_.val.z())
            sess.add(f'format_hms/ms-input-gives-the-same-text-as-seconds#{k}', 'format_hms', 'relational', hyps, goal, replay=replay_hms)
            k += 1
    sess.functions.update(ctx.functions)
    sess.canary('form-chosen-by-unrounded-value', [d >= 0, d < 60, d >= z3.RealVal('59.5')], z3.BoolVal(False))


def build(sess):
    sess.level = 'proof'
    sess.trust(
        'pyvc symbolic executor and its model of the Python subset',
        'str.replace(c, s) with a one-character pattern is a monoid homomorphism (the one axiom behind the unbounded-length argument)',
        'XML parser contract (DESIGN 3.4): entities amp/lt/gt/quot/apos decode to their characters; a bare & or < (or the active quote in '
        'an attribute value) is an error; CR -> LF; in attribute values TAB/LF/CR -> space; every other XML-legal character reads back as itself',
        'format specs: {:.3f} prints the decimal expansion rounded to 3 places, {:02} / {} print the integer (zero padded to 2 digits); '
        'durations are modelled as reals; round() is round-half-even',
    )
    kf = native('n_c20', 'kf_c20_1', {})
    kf_active = bool(kf.get('reproduces'))
    sess.known_status = {'KF-C20-1': kf_active}
    check_escape(sess, kf_active)
    check_hms(sess)
    # supplementary (bounded, labelled, not counted): durations are reals in the proof; the millisecond clause is also checked natively
    # on binary64 inputs at the rounding steps (x.5 s and its float neighbours), where a rescaling written differently can round differently
    hs = native('n_c20', 'search_hms', {})
    sess.bounded.append({'function': 'text_utils.format_hms on binary64 inputs (supplementary)', 'bound': '3013 durations (seconds and milliseconds) + 64 rounding steps x 3 bases x 4 float neighbours',
                         'evaluations': 3800, 'distinct_nontrivial': 768,
                         'rule': 'exact-rational oracle for the text; the millisecond form must equal the text of duration / 1000.0'})
    if hs.get('found'):
        sess.native_violations.append({'obligation': 'C20/bounded/format_hms-binary64', 'native_input': hs.get('input'), 'observed': hs.get('observed'),
                                       'expected': hs.get('expected'), 'summary': f"format_hms{hs.get('input')} -> {hs.get('observed')} expected {hs.get('expected')}"})
    sess.explanation = ('xml_escape is executed on [c][rest] for a symbolic character of each class: the step equation and the parser '
                        'round trip of h(c) in three contexts are obligations (KF-C20-1 region excluded while its witness reproduces); '
                        'format_hms is executed over a real duration: every output shape is tied to the rounded duration by '
                        'integer arithmetic, and the millisecond clause is a path-by-path comparison of two executions.')


def fallback(sess):
    out = []
    for act in ('search_escape', 'search_hms'):
        r = native('n_c20', act, {})
        r['what'] = f'n_c20.{act}'
        out.append(r)
    return out
