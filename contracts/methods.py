"""Sidecar tables for the public methods of EBB3 / EBBMotionWrap: parameter kinds and documented failure values.

The list of methods itself is NOT taken from here: it is derived from the class bodies in /repo on every run
(serialmodel.public_methods); a public method missing from these tables makes the check exit 3.
"""
import z3

from pyvc.engine import EngineError
from pyvc.values import VInt, NONE
from pyvc.strings import sym_str
from . import serialmodel as sm

# parameter kinds: 'int' symbolic integer; 'optint' optional integer (None or int: both are run);
# 'str' symbolic text
METHODS = {
    # ebb3_serial.EBB3
    '__init__': [], 'find_first': [], 'reboot': [], 'bootload': [], 'record_error': [('message', 'str')],
    'parse_version': [('ebb_version_string', 'str')], 'query_nickname': [],
    'write_nickname': [('nickname', 'str')], 'disconnect': [], 'connect': [('given_name', 'optstr'), ('caller', 'optstr')],
    'min_version': [('version_string', 'str')], 'command': [('cmd', 'str')], 'query': [('qry', 'str')],
    'query_statusbyte': [], 'var_write': [('value', 'int'), ('index', 'int')], 'var_read': [('index', 'int')],
    'var_write_int32': [('value', 'int'), ('start_index', 'int')], 'var_read_int32': [('start_index', 'int')],
    # ebb3_motion.EBBMotionWrap
    'timed_pause': [('pause_time', 'int')], 'xy_move': [('delta_x', 'int'), ('delta_y', 'int'), ('duration', 'int')],
    'abs_move': [('rate', 'int'), ('position1', 'optint'), ('position2', 'optint')], 'motors_disable': [],
    'motors_enable': [('resolution_1', 'int'), ('resolution_2', 'int')], 'motors_query_enabled': [],
    'query_steps': [], 'clear_steps': [], 'clear_accumulators': [],
    'pen_lower': [('pen_delay', 'int'), ('pin', 'optint')], 'pen_raise': [('pen_delay', 'int'), ('pin', 'optint')],
    'dio_b_config': [('pin', 'int'), ('state', 'int'), ('direction', 'int')], 'dio_b_set': [('pin', 'int'), ('state', 'int')],
    'dio_b_read': [('pin', 'int')], 'pen_pos_down': [('servo_max', 'int')], 'pen_pos_up': [('servo_min', 'int')],
    'pen_rate_down': [('pen_down_rate', 'int')], 'pen_rate_up': [('pen_up_rate', 'int')],
    'servo_timeout': [('timeout_ms', 'int'), ('state', 'optint')], 'query_voltage': [('threshold', 'optint')],
    'query_current': [],
}

# documented failure value of each request method (DESIGN section 6, C04)
FAIL = {
    'command': False, 'reboot': False, 'bootload': False, 'write_nickname': False, 'var_write': False,
    'var_write_int32': False,
    'query': None, 'query_statusbyte': None, 'var_read': None, 'var_read_int32': None, 'query_nickname': None,
    'motors_query_enabled': None, 'query_steps': None, 'dio_b_read': None, 'query_voltage': None,
    'query_current': (None, None),
    'timed_pause': None, 'xy_move': None, 'abs_move': None, 'motors_disable': None, 'motors_enable': None,
    'clear_steps': None, 'clear_accumulators': None, 'pen_lower': None, 'pen_raise': None, 'dio_b_config': None,
    'dio_b_set': None, 'pen_pos_down': None, 'pen_pos_up': None, 'pen_rate_down': None, 'pen_rate_up': None,
    'servo_timeout': None,
}

NOT_REQUESTS = ('__init__', 'connect', 'disconnect', 'record_error', 'find_first', 'parse_version', 'min_version')


def method_home(meth):
    """(module, qualname) of the class that defines meth"""
    from pyvc import front
    if meth in front.load('plotink.ebb3_motion').classes['EBBMotionWrap']['methods']:
        return 'plotink.ebb3_motion', f'EBBMotionWrap.{meth}'
    if meth in front.load('plotink.ebb3_serial').classes['EBB3']['methods']:
        return 'plotink.ebb3_serial', f'EBB3.{meth}'
    raise EngineError(f'method {meth} not found in EBB3 / EBBMotionWrap')


sm.method_home = method_home


def request_methods():
    """public request methods found in the real classes; every one must be in the tables"""
    found = []
    for mod, cls in (('plotink.ebb3_serial', 'EBB3'), ('plotink.ebb3_motion', 'EBBMotionWrap')):
        for m in sm.public_methods(mod, cls):
            if m in NOT_REQUESTS or (m == '__init__'):
                continue
            if m not in METHODS or m not in FAIL:
                raise EngineError(f'public method {cls}.{m} has no entry in contracts/methods.py (new method: needs a contract)')
            if m not in found:
                found.append(m)
    return found


def variants(meth):
    """argument-shape variants of a method: list of dict name -> 'int'|'none'|'str'"""
    params = METHODS[meth]
    shapes = [{}]
    for nm, ty in params:
        if ty in ('optint', 'optstr'):
            base = 'int' if ty == 'optint' else 'str'
            shapes = [dict(s, **{nm: base}) for s in shapes] + [dict(s, **{nm: 'none'}) for s in shapes]
        else:
            shapes = [dict(s, **{nm: ty}) for s in shapes]
    return shapes


def sym_args(meth, shape=None):
    """symbolic arguments (z3 consts named after the parameters) and their preconditions"""
    args, req = [], []
    shape = shape or variants(meth)[0]
    for nm, ty in METHODS[meth]:
        k = shape[nm]
        if k == 'int':
            args.append(VInt(z3.Int(nm)))
            if meth == 'var_write_int32' and nm == 'value':
                # documented domain of the 4-byte writer: a signed 32-bit integer
                req.append(z3.And(z3.Int(nm) >= -2 ** 31, z3.Int(nm) < 2 ** 31))
        elif k == 'none':
            args.append(NONE)
        else:
            args.append(sym_str(nm))
    return args, req
