"""Shared model of the serial world for C04/C05/C06/C07/C15/C16 (DESIGN 3.4).

* the port object (`self.port`, legacy `port_name`) is an external handle; `write` appends to the ghost event
  trace and may raise SerialException; `readline` returns a blank line, a text line, or raises;
* call-site contracts of EBB3.command / EBB3.query / EBB3.record_error and of the legacy ebb_serial.command /
  ebb_serial.query, used when their *callers* are verified (modular: the callee body is never entered).
"""
import z3

from pyvc.engine import Raised, EngineError, fresh_name, Path, Exec
from pyvc.values import (NONE, VNone, VBool, TRUE, FALSE, VInt, VTuple, VRef, VHandle, HObj, HList)
from pyvc.strings import VStr, S, Atom, WS, concat
from pyvc import strops

EBB3 = 'plotink.ebb3_serial.EBB3'
WRAP = 'plotink.ebb3_motion.EBBMotionWrap'
SERIAL_EXC = 'SerialException'


# ------------------------------------------------------------------------------ reply lines
def text_line(tag, ascii_=True, kind='bytes'):
    """a reply line whose stripped core is a non-empty text (arbitrary characters)"""
    raw = Atom(z3.String(fresh_name(f'line_{tag}')), nonempty=True, origin=('line', tag))
    core = Atom(z3.String(fresh_name(f'reply_{tag}')), nonempty=True, origin=('reply', tag))
    core.edges_clean = True
    core.ascii = ascii_
    raw.stripped = core
    raw.ascii = ascii_
    return VStr([raw], kind), core


def blank_line(tag, kind='bytes'):
    """a line with nothing but whitespace (b'' included)"""
    a = Atom(z3.String(fresh_name(f'blank_{tag}')), incl=WS, origin=('blank', tag))
    return VStr([a], kind)


# ------------------------------------------------------------------------------ the port
class PortModel:
    """External model of a pyserial port object.

    faults: allow SerialException at write/readline/close/reset_input_buffer
    reads : 'any'   -> each readline forks {blank, text, raises}
            'ack'   -> device acknowledges: readline returns the reply the device model gives for the last write
            callable(ex, p, k) -> generator of (path, VStr|Raised)
    Every event is appended to p.events: ('write', VStr bytes) | ('write-exc', VStr) | ('read', kind, core|None) |
    ('read-exc',) | ('close',) | ('reset',)
    """
    def __init__(self, faults=True, reads='any', ascii_=True, exc_classes=(SERIAL_EXC,)):
        self.faults = faults
        self.reads = reads
        self.ascii = ascii_
        self.exc_classes = exc_classes

    def __call__(self, ex, p, h, method, args, kwargs, node):
        if method == 'write':
            (data,) = args
            if not (isinstance(data, VStr) and data.kind == 'bytes'):
                yield p, Raised('TypeError', node=node)
                return
            if self.faults:
                for cls in self.exc_classes:
                    q = p.fork()
                    q.trail.append(f'wexc{len(p.events)}' + ('' if cls == SERIAL_EXC else f':{cls}'))
                    q.events.append(('write-exc', data))
                    yield q, Raised(cls, node=node)
            p.events.append(('write', data))
            p.trail.append(f'w{len(p.events)}')
            yield p, VInt(z3.Int(fresh_name('nwritten')))
        elif method == 'readline':
            k = sum(1 for e in p.events if e[0] in ('read', 'read-exc'))
            if callable(self.reads):
                yield from self.reads(ex, p, k, node)
                return
            if self.faults:
                for cls in self.exc_classes:
                    q = p.fork()
                    q.trail.append(f'rexc{k}' + ('' if cls == SERIAL_EXC else f':{cls}'))
                    q.events.append(('read-exc',))
                    yield q, Raised(cls, node=node)
            if self.reads == 'any':
                q = p.fork()
                q.trail.append(f'rblank{k}')
                q.events.append(('read', 'blank', None))
                yield q, blank_line(k)
                line, core = text_line(k, self.ascii)
                p.trail.append(f'rtext{k}')
                p.events.append(('read', 'text', core))
                p.assume(z3.Length(core.term) >= 1)
                yield p, line
            else:
                raise EngineError(f'read mode {self.reads}')
        elif method in ('close', 'reset_input_buffer', 'flushInput', 'flush'):
            if self.faults:
                q = p.fork()
                q.trail.append(f'{method}-exc')
                q.events.append((method + '-exc',))
                yield q, Raised(SERIAL_EXC, node=node)
            p.events.append((method,))
            yield p, NONE
        else:
            raise EngineError(f'port method {method} is not modelled')


def writes(p):
    return [e[1] for e in p.events if e[0] == 'write']


def write_attempts(p):
    return [e[1] for e in p.events if e[0] in ('write', 'write-exc')]


def n_reads(p):
    return sum(1 for e in p.events if e[0] in ('read', 'read-exc'))


def logger_model(ex, p, h, method, args, kwargs, node):
    """logging.Logger methods: no-ops that cannot raise (DESIGN 2.1)"""
    yield p, NONE


# ------------------------------------------------------------------------------ EBB3 objects
PORT = VHandle('port', 'port0')


def new_ebb3(p, cls=WRAP, port=True, err=None, extra=None):
    """allocate an EBB3/EBBMotionWrap instance in a chosen abstract state"""
    fields = {
        'port_name': NONE, 'port': (PORT if port else NONE), 'version': NONE, 'version_parsed': NONE,
        'name': NONE, 'err': (NONE if err is None else err), 'caller': NONE,
    }
    if extra:
        fields.update(extra)
    return p.alloc(HObj(cls, fields), cls.rsplit('.', 1)[1])


def field(p, obj, name):
    return p.heap[obj.ref].fields[name]


def blocked(p, obj):
    return isinstance(field(p, obj, 'port'), VNone) or not isinstance(field(p, obj, 'err'), VNone)


def fresh_err(tag='err'):
    return VStr([Atom(z3.String(fresh_name(tag)), nonempty=True, origin=('errmsg', tag))])


# ------------------------------------------------------------------------------ call-site contracts (EBB3 layer)
class RecordError:
    """record_error(msg): err == old(err) if old(err) is not None else msg; nothing else changes"""
    def apply(self, ex, p, args, kwargs, node):
        obj, msg = args[0], args[1]
        h = p.heap[obj.ref]
        if isinstance(h.fields['err'], VNone):
            h.fields['err'] = msg
            p.ghost.setdefault('err_set_at', len(p.events))       # everything transmitted from here on happens with the error latched
        yield p, NONE


class CommandContract:
    """EBB3.command(cmd) as seen by its callers.

    blocked or cmd None: returns False, no event, nothing changes.
    otherwise one write attempt of ascii(strip(cmd) + CR), then one of
       ok      : returns True, err unchanged (None)
       failed  : err set to a message, returns False
       swallow : (exempt names rb/r/bl only) exception swallowed, returns True, err None  [known finding KF-C05-1]
    mode 'ack': the device acknowledges every command: only 'ok'.
    """
    def __init__(self, mode='any'):
        self.mode = mode

    def apply(self, ex, p, args, kwargs, node):
        obj = args[0]
        cmd = args[1] if len(args) > 1 else kwargs.get('cmd')
        if blocked(p, obj) or isinstance(cmd, VNone):
            yield p, FALSE
            return
        if not isinstance(cmd, VStr) or cmd.kind != 'str':
            ex.oblige(p, 'callee-requires', False, 'command(text:str)')
            yield p, Raised('AttributeError', node=node)
            return
        text = strops.strip(ex, p, cmd)
        data = concat(text, S('\r')).with_kind('bytes')
        p.events.append(('request', 'command', text))
        if self.mode == 'ack':
            p.events.append(('write', data))
            yield p, TRUE
            return
        # failed before anything was written
        q = p.fork()
        q.trail.append('cmd-wfail')
        q.events.append(('write-exc', data))
        q.heap[obj.ref].fields['err'] = fresh_err('cmd_err')
        q.ghost.setdefault('err_set_at', len(q.events))
        yield q, FALSE
        # written, then failed (timeout / error reply / mismatch / read exception)
        q = p.fork()
        q.trail.append('cmd-fail')
        q.events.append(('write', data))
        q.heap[obj.ref].fields['err'] = fresh_err('cmd_err')
        q.ghost.setdefault('err_set_at', len(q.events))
        yield q, FALSE
        p.events.append(('write', data))
        p.trail.append('cmd-ok')
        yield p, TRUE


class QueryContract:
    """EBB3.query(qry) as seen by its callers: None | str.

    blocked / None: returns None, nothing happens.  Otherwise one write attempt, then
       ok     : returns the reply payload (text without the echoed name and one comma), err unchanged
       failed : returns None, err set
    payload(ex, p, text) may be supplied by a device model; default: arbitrary text.
    """
    def __init__(self, mode='any', payload=None):
        self.mode = mode
        self.payload = payload

    def apply(self, ex, p, args, kwargs, node):
        obj = args[0]
        qry = args[1] if len(args) > 1 else kwargs.get('qry')
        if blocked(p, obj) or isinstance(qry, VNone):
            yield p, NONE
            return
        if not isinstance(qry, VStr) or qry.kind != 'str':
            ex.oblige(p, 'callee-requires', False, 'query(text:str)')
            yield p, Raised('AttributeError', node=node)
            return
        text = strops.strip(ex, p, qry)
        data = concat(text, S('\r')).with_kind('bytes')
        p.events.append(('request', 'query', text))
        if self.mode != 'ack':
            q = p.fork()
            q.trail.append('qry-wfail')
            q.events.append(('write-exc', data))
            q.heap[obj.ref].fields['err'] = fresh_err('qry_err')
            q.ghost.setdefault('err_set_at', len(q.events))
            yield q, NONE
            q = p.fork()
            q.trail.append('qry-fail')
            q.events.append(('write', data))
            q.heap[obj.ref].fields['err'] = fresh_err('qry_err')
            q.ghost.setdefault('err_set_at', len(q.events))
            yield q, NONE
        p.events.append(('write', data))
        p.trail.append('qry-ok')
        if self.payload is not None:
            yield from self.payload(ex, p, obj, text, node)
        else:
            a = Atom(z3.String(fresh_name('payload')), origin=('payload',))
            a.edges_clean = True      # query() returns a slice of a stripped reply: no trailing whitespace,
            yield p, VStr([a])        # but it may start with whitespace after the comma -- not relied upon


# ------------------------------------------------------------------------------ legacy layer call-site contracts
class LegacyCommand:
    """ebb_serial.command(port, cmd, verbose): port/cmd None -> nothing; else exactly one write of ascii(cmd); returns None"""
    def apply(self, ex, p, args, kwargs, node):
        port = args[0]
        cmd = args[1]
        if isinstance(port, VNone) or isinstance(cmd, VNone):
            yield p, NONE
            return
        if not isinstance(cmd, VStr):
            ex.oblige(p, 'callee-requires', False, 'command(port, text:str)')
            yield p, Raised('AttributeError', node=node)
            return
        p.events.append(('write', cmd.with_kind('bytes')))
        yield p, NONE


class LegacyQuery:
    """ebb_serial.query(port, cmd, verbose) -> None (no port / no text) | str (data line or '')"""
    def __init__(self, payload=None):
        self.payload = payload

    def apply(self, ex, p, args, kwargs, node):
        port = args[0]
        cmd = args[1]
        if isinstance(port, VNone) or isinstance(cmd, VNone):
            yield p, NONE
            return
        p.events.append(('write', cmd.with_kind('bytes')))
        if self.payload is not None:
            yield from self.payload(ex, p, cmd, node)
            return
        yield p, VStr([Atom(z3.String(fresh_name('legacy_reply')), origin=('legacy_reply',))])


def install_common(ctx, port_model=None):
    ctx.externals['port'] = port_model or PortModel()
    ctx.externals['logger'] = logger_model


def public_methods(modname, cls):
    from pyvc import front
    mi = front.load(modname)
    return [m for m in mi.classes[cls]['methods'] if not m.startswith('_') or m == '__init__']
