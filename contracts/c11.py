"""C11 -- plot_utils.vb_scale follows the SVG 1.1 preserveAspectRatio rules.

The contract quantifies over TOKEN LISTS: the attribute texts are abstract values whose strip / replace(',',' ') /
lower / split() behave as the Python builtins do on a text with those tokens (builtins trusted); numeric tokens
carry symbolic real values.  Spec (SVG 1.1 section 7.8), viewBox (mx,my,w,h), page (W,H):
   none           : s_x = W/w, s_y = H/h, offset (-mx, -my)
   otherwise      : s = min(W/w, H/h) for meet, max for slice; t_x in {0, (W - w s)/2, W - w s} for xMin/xMid/xMax (same in y);
                    result (s, s, -mx + t_x/s, -my + t_y/s)   under the documented application x -> (x + o_x) * s_x
   missing / malformed viewBox (fewer than 4 fields, a non-numeric field, w<=0, h<=0) or W<=0 or H<=0 : (1, 1, 0, 0)
"""
import itertools
import z3

from pyvc.harness import no_raise, oblige_at
from pyvc.engine import Ret, Raised, EngineError, Exec, Path
from pyvc.values import VInt, VFloat, VTuple, VNone, VBool, NONE, VRef, HList, Val
from pyvc.strings import VStr, S, Atom
from pyvc import strops
from pyvc.session import native

MOD = 'plotink.plot_utils'
ALIGNS = [f'x{a}Y{b}' for b in ('Min', 'Mid', 'Max') for a in ('Min', 'Mid', 'Max')]


class VTokText(VStr):
    """a text known only through its whitespace/comma tokenisation"""
    def __init__(self, toks, name='text'):
        VStr.__init__(self, [Atom(z3.String(name), origin=('toktext', name))], 'str')
        self.toks = list(toks)
        self.name = name

    def str_method(self, ex, p, name, args, kwargs, node):
        if name == 'strip' and not args:
            return iter([(p, self)])
        if name == 'replace' and len(args) == 2 and all(isinstance(a, VStr) and a.is_lit() for a in args) \
                and args[0].lit() == ',' and args[1].lit() == ' ':
            t = VTokText(self.toks, self.name)
            t.commas_gone = True
            return iter([(p, t)])
        if name == 'lower':
            t = VTokText([strops.lower(ex, p, x) for x in self.toks], self.name)
            t.commas_gone = getattr(self, 'commas_gone', False)
            return iter([(p, t)])
        if name == 'split' and not args and not kwargs:
            if not getattr(self, 'commas_gone', False):
                raise EngineError('tokenisation without replacing commas first is not modelled')
            return iter([(p, p.alloc(HList(list(self.toks)), 'list'))])
        raise EngineError(f'str.{name} on a token-level text is not modelled')


def num_tok(name, numeric=True):
    """a token; numeric ones have float(tok) == Real(name)"""
    a = Atom(z3.String('tok_' + name), nonempty=True, origin=('tok', name))
    a.is_num_text = True if numeric else False
    v = VStr([a])
    return v


def spec(kind, mos, ax, ay, mx, my, w, h, W, H):
    if kind == 'none':
        return W / w, H / h, -mx, -my
    rx, ry = W / w, H / h
    s = z3.If(rx <= ry, rx, ry) if mos == 'meet' else z3.If(rx >= ry, rx, ry)
    ex_x, ex_y = W - w * s, H - h * s
    tx = {'Min': z3.RealVal(0), 'Mid': ex_x / 2, 'Max': ex_x}[ax]
    ty = {'Min': z3.RealVal(0), 'Mid': ex_y / 2, 'Max': ex_y}[ay]
    return s, s, -mx + tx / s, -my + ty / s


def par_shapes():
    """(label, token list | None, (kind, mos, ax, ay))"""
    out = [('absent', None, ('align', 'meet', 'Mid', 'Mid')), ('empty', [], ('align', 'meet', 'Mid', 'Mid')),
           ('defer-only', ['defer'], ('align', 'meet', 'Mid', 'Mid'))]
    for defer in (False, True):
        pre = ['DEFER'] if defer else []
        out.append((f'{"defer+" if defer else ""}none', pre + ['none'], ('none', 'meet', 'Mid', 'Mid')))
        out.append((f'{"defer+" if defer else ""}NONE+slice', pre + ['None', 'slice'], ('none', 'slice', 'Mid', 'Mid')))
        for al in ALIGNS:
            ax, ay = al[1:4], al[5:8]
            for mos, toks in (('meet', [al]), ('meet', [al, 'meet']), ('slice', [al.upper(), 'SLICE']), ('slice', [al, 'slice'])):
                out.append((f'{"defer+" if defer else ""}{"/".join(toks)}', pre + toks, ('align', mos, ax, ay)))
    return out


def replay_vb(model, ob):
    out = native('n_c11', 'search', {})
    return {'native_input': out.get('input'), 'confirmed': bool(out.get('found')), 'observed': out.get('observed'),
            'expected': out.get('expected'), 'summary': f"vb_scale{out.get('input')} -> {out.get('observed')} expected {out.get('expected')}"}


def run_vb(ctx, vb, par, W, H, req):
    ex = Exec(ctx)
    p = Path()
    for r in req:
        p.assume(r)
    outs = list(ex.run_function(p, MOD, 'vb_scale', [vb, par, VFloat(W), VFloat(H)]))
    return ex, outs


def as_real(v):
    if isinstance(v, VInt):
        return z3.ToReal(v.z()) if not v.conc() else z3.RealVal(v.t)
    if isinstance(v, VFloat):
        return v.z()
    return None


def check_valid(sess):
    mx, my, w, h, W, H = z3.Reals('min_x min_y width height doc_width doc_height')
    vals = {'min_x': mx, 'min_y': my, 'width': w, 'height': h}
    n = 0
    for n_extra in (0, 1):
        for label, toks, (kind, mos, ax, ay) in par_shapes():
            if n_extra and label not in ('absent', 'xMidYMid', 'defer+xMaxYMin/slice'):
                continue
            ctx = sess.new_ctx()
            names = ['min_x', 'min_y', 'width', 'height'] + ['extra'] * n_extra
            vtoks = [num_tok(nm) for nm in names]
            vb = VTokText(vtoks, 'v_b')
            req = [w > 0, h > 0, W > 0, H > 0]
            for nm, tk in zip(names, vtoks):
                if nm in vals:
                    req.append(strops.NUM_OF(tk.z()) == vals[nm])
            par = NONE if toks is None else VTokText([S(t) for t in toks], 'p_a_r')
            ex, outs = run_vb(ctx, vb, par, W, H, req)
            tag = f'vb_scale[{label}{"+5th-field" if n_extra else ""}]'
            want = spec(kind, mos, ax, ay, mx, my, w, h, W, H)
            for q, out in outs:
                if not no_raise(ex, q, out, tag):
                    continue
                res = out.val
                got = [as_real(x) for x in res.items] if isinstance(res, VTuple) and len(res.items) == 4 else None
                if got is None or any(g is None for g in got):
                    oblige_at(ex, q, tag, 'result-shape', False, '(s_x,s_y,o_x,o_y)')
                    continue
                for nm, g, wv in zip(('s_x', 's_y', 'o_x', 'o_y'), got, want):
                    oblige_at(ex, q, tag, 'ensures', g == wv, f'{nm}==SVG-rule')
                n += 1
            sess.absorb(ctx, replay=replay_vb)
    if n == 0:
        raise EngineError('vb_scale: no path')
    # corollary stated on the mapped rectangle: the viewBox corners land where SVG says (meet: inside the page, aligned)
    sess.cover('vb_scale/requires', [w > 0, h > 0, W > 0, H > 0])


def check_identity(sess):
    """missing / malformed viewBox, non-positive sizes -> (1,1,0,0), raises nothing"""
    mx, my, w, h, W, H = z3.Reals('min_x min_y width height doc_width doc_height')
    cases = []
    cases.append(('viewBox-None', NONE, []))
    for k in range(4):
        cases.append((f'{k}-fields', VTokText([num_tok(f'f{i}') for i in range(k)], 'v_b'), []))
    for bad in range(4):
        toks = [num_tok(f'f{i}', numeric=(i != bad)) for i in range(4)]
        cases.append((f'field{bad}-not-numeric', VTokText(toks, 'v_b'), []))
    full = [num_tok(nm) for nm in ('min_x', 'min_y', 'width', 'height')]
    link = [strops.NUM_OF(t.z()) == v for t, v in zip(full, (mx, my, w, h))]
    cases.append(('width<=0', VTokText(full, 'v_b'), link + [w <= 0]))
    cases.append(('height<=0', VTokText(full, 'v_b'), link + [h <= 0]))
    cases.append(('doc_width<=0', VTokText(full, 'v_b'), link + [w > 0, h > 0, W <= 0]))
    cases.append(('doc_height<=0', VTokText(full, 'v_b'), link + [w > 0, h > 0, H <= 0]))
    for label, vb, req in cases:
        for par in (NONE, VTokText([S('xMinYMax'), S('slice')], 'p_a_r')):
            ctx = sess.new_ctx()
            ex, outs = run_vb(ctx, vb, par, W, H, req)
            tag = f'vb_scale[{label}]'
            for q, out in outs:
                if not no_raise(ex, q, out, tag):
                    continue
                res = out.val
                got = [as_real(x) for x in res.items] if isinstance(res, VTuple) and len(res.items) == 4 else None
                if got is None or any(g is None for g in got):
                    oblige_at(ex, q, tag, 'result-shape', False, '(s_x,s_y,o_x,o_y)')
                    continue
                oblige_at(ex, q, tag, 'ensures', z3.And(got[0] == 1, got[1] == 1, got[2] == 0, got[3] == 0), 'identity-transform')
            sess.absorb(ctx, replay=replay_vb)


def build(sess):
    sess.level = 'proof'
    sess.trust(
        'pyvc symbolic executor and its model of the Python subset',
        'z3 nlsat / cvc5 (QF_NRA with positive denominators)',
        'the tokenisers are Python builtins (strip, replace, lower, split): the contract quantifies over token lists; float(token) is '
        'num(token) for a numeral and raises ValueError otherwise',
        'floats are modelled as reals',
        'SVG 1.1 section 7.8 rule as transcribed in contracts/c11.py (spec function)',
    )
    check_valid(sess)
    check_identity(sess)
    # canary: Y-max alignment with the wrong sign must be refuted
    mx, my, w, h, W, H = z3.Reals('min_x min_y width height doc_width doc_height')
    s = z3.If(W / w <= H / h, W / w, H / h)
    sess.canary('ymax-offset-wrong-sign', [w > 0, h > 0, W > 0, H > 0], (-my + (H - h * s) / s) == (-my - (H - h * s) / s))
    sess.explanation = ('vb_scale is executed symbolically for every preserveAspectRatio token shape (absent, defer, none, 9 alignments x '
                        'meet/slice, mixed case) with symbolic real viewBox and page sizes; each of the four returned numbers is '
                        'proved equal to the SVG rule on both aspect-ratio orderings (including the equal-aspect boundary); every '
                        'malformed-input class returns the identity transform without raising.')


def fallback(sess):
    r = native('n_c11', 'search', {})
    r['what'] = 'n_c11.search'
    return [r]
