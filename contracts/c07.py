"""C07 -- legacy serial primitives ebb_serial.query / command / bootload.

Contract (DESIGN section 6, C07): exactly one write of ascii(cmd); never raises; query returns text: the first
non-empty line among the first 101 reads (decoded) or ''; OK-terminated queries additionally consume through the
next non-empty line (<= 101 reads); no port / no text => nothing happens, result None.

The two 100-retry loops are verified with an inductive invariant (RetryLoop): "k reads of this loop so far were
all empty (k <= 100), or the k-th one just returned the first non-empty line".
"""
import z3

from pyvc.harness import no_raise, oblige_at
from pyvc.engine import Ret, Raised, EngineError, Exec, Path, LoopSpec, fresh_name
from pyvc.values import VInt, VTuple, VNone, VBool, NONE, VRef
from pyvc.strings import VStr, S, sym_str, concat, Atom
from pyvc import strops
from pyvc.session import native
from . import serialmodel as sm

MOD = 'plotink.ebb_serial'
NO_OK = ("a", "i", "mr", "pi", "qm", "qg", "v")      # from the property statement
LIMIT = 100


def legacy_reads(ex, p, k, node):
    """legacy readline: b'' (empty read) | a non-empty line | raises"""
    # the exception classes the code itself names in its handlers (pyserial raises all three kinds)
    for cls in ('SerialException', 'OSError', 'RuntimeError'):
        q = p.fork()
        q.trail.append(f'rexc{k}' + ('' if cls == 'SerialException' else f':{cls}'))
        q.events.append(('read-exc',))
        yield q, Raised(cls, node=node)
    q = p.fork()
    q.trail.append(f'rblank{k}')
    q.events.append(('read', 'blank', None))
    yield q, S('', 'bytes')
    a = Atom(z3.String(fresh_name(f'line_{k}')), nonempty=True, origin=('line', k))
    p.assume(z3.Length(a.term) >= 1)
    p.trail.append(f'rtext{k}')
    p.events.append(('read', 'text', a))
    yield p, VStr([a], 'bytes')


class RetryLoop(LoopSpec):
    """while len(X) == 0 and n_retry_count < 100: X = port.readline()[.decode('ascii')]; n_retry_count += 1"""
    def __init__(self, var, kind):
        self.var = var
        self.kind = kind      # python type X must have: 'str' (decoded) or 'bytes' (raw)

    def establish(self, ex, p):
        obs = []
        c = p.env.get('n_retry_count')
        obs.append(('retry-counter-starts-at-0', z3.BoolVal(isinstance(c, VInt) and c.conc() and c.t == 0)))
        x = p.env.get(self.var)
        last = p.events[-1] if p.events else None
        ok = isinstance(x, VStr) and x.kind == self.kind and last is not None and last[0] == 'read'
        if ok:
            if last[1] == 'blank':
                ok = x.is_lit() and x.lit() == ''
            else:
                ok = len(x.chunks) == 1 and isinstance(x.chunks[0], Atom) and x.chunks[0].same(last[2])
        obs.append((f'{self.var}-holds-the-line-just-read-as-{self.kind}', z3.BoolVal(bool(ok))))
        p.ghost['retry_entry'] = last
        return obs

    def head(self, ex, p):
        last = p.ghost['retry_entry']
        if last is not None and p.events and p.events[-1] is last:
            p.events.pop()
        # state A: k+1 reads so far in this group, all empty
        a = p.fork()
        k = z3.Int(fresh_name('k_blank'))
        a.assume(z3.And(k >= 0, k <= LIMIT))
        a.env['n_retry_count'] = VInt(k)
        a.env[self.var] = S('', self.kind)
        a.events.append(('reads-blank', k + 1))
        a.ghost['retry_k'] = k
        a.ghost['retry_state'] = 'A'
        a.ghost['retry_mark'] = len(a.events)
        # state B: k empty reads, then the first non-empty line
        b = p
        k2 = z3.Int(fresh_name('k_text'))
        b.assume(z3.And(k2 >= 0, k2 <= LIMIT))
        line = Atom(z3.String(fresh_name('line_first')), nonempty=True, origin=('line', 'first'))
        b.assume(z3.Length(line.term) >= 1)
        b.env['n_retry_count'] = VInt(k2)
        b.env[self.var] = VStr([line], self.kind)
        b.events.append(('reads-blank', k2))
        b.events.append(('read', 'text', line))
        b.ghost['retry_k'] = k2
        b.ghost['retry_state'] = 'B'
        b.ghost['retry_mark'] = len(b.events)
        return [a, b]

    def after(self, ex, p):
        p.events.append(('group-end',))

    def preserve(self, ex, p):
        k = p.ghost['retry_k']
        obs = []
        c = p.env.get('n_retry_count')
        obs.append(('counter-incremented', (c.z() == k + 1) if isinstance(c, VInt) else z3.BoolVal(False)))
        obs.append(('k+1<=100', k + 1 <= LIMIT))
        new = [e for e in p.events[p.ghost['retry_mark']:] if e[0] in ('read', 'write', 'write-exc')]
        x = p.env.get(self.var)
        ok = len(new) == 1 and new[0][0] == 'read' and isinstance(x, VStr) and x.kind == self.kind
        if ok:
            if new[0][1] == 'blank':
                ok = x.is_lit() and x.lit() == ''
            else:
                ok = len(x.chunks) == 1 and isinstance(x.chunks[0], Atom) and x.chunks[0].same(new[0][2])
        obs.append((f'iteration-reads-one-line-into-{self.var}-as-{self.kind}', z3.BoolVal(bool(ok))))
        return obs


def install(ctx):
    sm.install_common(ctx, sm.PortModel(faults=True, reads=legacy_reads, exc_classes=('SerialException', 'OSError', 'RuntimeError')))
    ctx.loop_specs[(f'{MOD}.query', 0)] = RetryLoop('response', 'str')
    ctx.loop_specs[(f'{MOD}.query', 1)] = RetryLoop('unused_response', 'bytes')
    ctx.loop_specs[(f'{MOD}.command', 0)] = RetryLoop('response', 'str')


def groups(p):
    """summarise the read events of a path into groups: each group = (blank_count_term, text atom | None, exc: bool)"""
    out = []
    cur = None
    for e in p.events:
        if e[0] == 'reads-blank':
            if cur is not None and cur['text'] is None and not cur['exc'] and cur.get('open'):
                cur['blank'] = cur['blank'] + e[1]
            else:
                cur = {'blank': e[1], 'text': None, 'exc': False, 'open': True}
                out.append(cur)
        elif e[0] == 'read':
            if cur is None or cur['text'] is not None or cur['exc']:
                cur = {'blank': z3.IntVal(0), 'text': None, 'exc': False, 'open': True}
                out.append(cur)
            if e[1] == 'blank':
                cur['blank'] = cur['blank'] + 1
            else:
                cur['text'] = e[2]
        elif e[0] == 'read-exc':
            if cur is None or cur['text'] is not None or cur['exc']:
                cur = {'blank': z3.IntVal(0), 'text': None, 'exc': False, 'open': True}
                out.append(cur)
            cur['exc'] = True
        elif e[0] == 'group-end':
            cur = None
    return out


def nook_spec(cmd_z):
    idx = z3.IndexOf(cmd_z, z3.StringVal(','), 0)
    tok = z3.If(idx >= 0, z3.SubString(cmd_z, 0, idx), cmd_z)

    def key(t):
        k = strops.PY_LOWER(strops.PY_STRIP(t))
        return z3.Or(*[k == z3.StringVal(x) for x in NO_OK])
    return idx, z3.If(idx >= 0, key(z3.SubString(cmd_z, 0, idx - 0)), key(z3.SubString(cmd_z, 0, z3.Length(cmd_z) - 0)))


def replay_legacy(fn):
    def rp(model, ob):
        out = native('n_c07', 'search', {'fn': fn})
        return {'native_input': out.get('input'), 'confirmed': bool(out.get('found')), 'observed': out.get('observed'),
                'expected': out.get('expected'),
                'summary': f"{fn}: {out.get('observed')} expected {out.get('expected')} on {out.get('input')}"}
    return rp


def check_query(sess):
    ctx = sess.new_ctx()
    install(ctx)
    ex = Exec(ctx)
    p = Path()
    cmd = sym_str('cmd')
    outs = list(ex.run_function(p, MOD, 'query', [sm.PORT, cmd, VBool(True)]))
    want = cmd.with_kind('bytes')
    n_ok = 0
    for q, out in outs:
        tag = 'ebb_serial.query'
        if not no_raise(ex, q, out, tag):
            continue
        res = out.val
        att = sm.write_attempts(q)
        oblige_at(ex, q, tag, 'ensures', len(att) == 1 and att[0].struct_eq(want) is True, 'exactly-one-write-of-ascii(cmd)')
        if not (isinstance(res, VStr) and res.kind == 'str'):
            oblige_at(ex, q, tag, 'ensures', False, f'returns-text(got {getattr(res, "pytype", "?")})')
            continue
        wrote = len(sm.writes(q)) == 1
        gs = groups(q)
        oblige_at(ex, q, tag, 'ensures', wrote or not gs, 'no-read-before-the-write-succeeds')
        oblige_at(ex, q, tag, 'ensures', len(gs) <= 2, 'at-most-two-line-groups-consumed')
        # data group
        data = gs[0] if gs else None
        if data is None or data['text'] is None:
            oblige_at(ex, q, tag, 'ensures', res.is_lit() and res.lit() == '', 'empty-text-when-no-data-line-arrived')
        else:
            ok = len(res.chunks) == 1 and isinstance(res.chunks[0], Atom) and res.chunks[0].same(data['text'])
            oblige_at(ex, q, tag, 'ensures', ok, 'result-is-the-data-line-of-this-request')
        for gi, g in enumerate(gs):
            nm = 'data' if gi == 0 else 'OK'
            oblige_at(ex, q, tag, 'ensures', g['blank'] <= LIMIT + 1, f'{nm}-group:-at-most-101-reads')
            if g['text'] is None and not g['exc']:
                oblige_at(ex, q, tag, 'ensures', g['blank'] == LIMIT + 1, f'{nm}-group:-gives-up-only-after-100-empty-retries')
            if g['text'] is not None:
                oblige_at(ex, q, tag, 'ensures', g['blank'] <= LIMIT, f'{nm}-group:-line-found-within-100-retries')
        # OK-terminated queries consume the second group, the others do not
        idx, nook = nook_spec(cmd.z())
        first_done = data is not None and not data['exc']
        if first_done:
            oblige_at(ex, q, tag, 'ensures', z3.BoolVal(len(gs) == 2) == z3.Not(nook), 'OK-line-consumed-iff-query-is-OK-terminated')
        n_ok += 1
    if n_ok == 0:
        raise EngineError('query: no returning path')
    sess.absorb(ctx, replay=replay_legacy('query'))
    # no port / no text
    for pv, cv, nm in ((NONE, sym_str('cmd'), 'no-port'), (sm.PORT, NONE, 'no-text')):
        ctx = sess.new_ctx()
        install(ctx)
        ex = Exec(ctx)
        for q, out in ex.run_function(Path(), MOD, 'query', [pv, cv, VBool(True)]):
            tag = f'ebb_serial.query[{nm}]'
            if not no_raise(ex, q, out, tag):
                continue
            oblige_at(ex, q, tag, 'ensures', isinstance(out.val, VNone) and not q.events, 'does-nothing-and-returns-None')
        sess.absorb(ctx, replay=replay_legacy('query'))


def check_command(sess):
    ctx = sess.new_ctx()
    install(ctx)
    ex = Exec(ctx)
    p = Path()
    cmd = sym_str('cmd')
    outs = list(ex.run_function(p, MOD, 'command', [sm.PORT, cmd, VBool(True)]))
    want = cmd.with_kind('bytes')
    for q, out in outs:
        tag = 'ebb_serial.command'
        if not no_raise(ex, q, out, tag):
            continue
        att = sm.write_attempts(q)
        oblige_at(ex, q, tag, 'ensures', len(att) == 1 and att[0].struct_eq(want) is True, 'exactly-one-write-of-ascii(cmd)')
        oblige_at(ex, q, tag, 'ensures', isinstance(out.val, VNone), 'returns-None')
        gs = groups(q)
        wrote = len(sm.writes(q)) == 1
        oblige_at(ex, q, tag, 'ensures', (wrote or not gs) and len(gs) <= 1, 'consumes-one-line-group-after-the-write')
        for g in gs:
            oblige_at(ex, q, tag, 'ensures', g['blank'] <= LIMIT + 1, 'at-most-101-reads')
            if g['text'] is None and not g['exc']:
                oblige_at(ex, q, tag, 'ensures', g['blank'] == LIMIT + 1, 'gives-up-only-after-100-empty-retries')
    sess.absorb(ctx, replay=replay_legacy('command'))
    for pv, cv, nm in ((NONE, sym_str('cmd'), 'no-port'), (sm.PORT, NONE, 'no-text')):
        ctx = sess.new_ctx()
        install(ctx)
        ex = Exec(ctx)
        for q, out in ex.run_function(Path(), MOD, 'command', [pv, cv, VBool(True)]):
            tag = f'ebb_serial.command[{nm}]'
            if not no_raise(ex, q, out, tag):
                continue
            oblige_at(ex, q, tag, 'ensures', isinstance(out.val, VNone) and not q.events, 'does-nothing-and-returns-None')
        sess.absorb(ctx, replay=replay_legacy('command'))


def check_bootload(sess):
    for pv, nm in ((sm.PORT, 'port'), (NONE, 'no-port')):
        ctx = sess.new_ctx()
        install(ctx)
        ex = Exec(ctx)
        for q, out in ex.run_function(Path(), MOD, 'bootload', [pv]):
            tag = f'ebb_serial.bootload[{nm}]'
            if not no_raise(ex, q, out, tag):
                continue
            att = sm.write_attempts(q)
            if nm == 'port':
                oblige_at(ex, q, tag, 'ensures', len(att) == 1 and att[0].struct_eq(S('BL\r', 'bytes')) is True, 'one-write-BL+CR')
                oblige_at(ex, q, tag, 'ensures', sm.n_reads(q) == 0, 'no-read')
                wrote = len(sm.writes(q)) == 1
                r = out.val
                oblige_at(ex, q, tag, 'ensures', isinstance(r, VBool) and r.conc() and r.b == wrote, 'True-iff-written')
            else:
                oblige_at(ex, q, tag, 'ensures', not q.events and isinstance(out.val, VNone), 'does-nothing')
        sess.absorb(ctx, replay=replay_legacy('bootload'))


def alignment_lemma(sess):
    """conforming board: per request a data group (b1 <= 100 empty reads + 1 line) and, for OK-terminated queries and
    commands, an OK group (b2 <= 100 empty reads + 1 line).  From the contracts: query consumes b1+1 (+ b2+1) reads =
    exactly its own lines, so the stream offset before request n is the sum of the sizes of the earlier groups."""
    b1, b2, pos = z3.Ints('b1 b2 pos')
    used = lambda b: z3.If(b <= LIMIT, b + 1, LIMIT + 1)
    sess.add('lemma/alignment/query-OK-terminated', 'spec', 'lemma', [b1 >= 0, b1 <= LIMIT, b2 >= 0, b2 <= LIMIT, pos >= 0],
             pos + used(b1) + used(b2) == pos + (b1 + 1) + (b2 + 1))
    sess.add('lemma/alignment/query-no-OK-or-command', 'spec', 'lemma', [b1 >= 0, b1 <= LIMIT, pos >= 0],
             pos + used(b1) == pos + (b1 + 1))
    sess.canary('alignment-with-101-empty-reads', [b1 == LIMIT + 1], used(b1) == b1 + 1)


def build(sess):
    sess.level = 'proof'
    sess.trust(
        'pyvc symbolic executor and its model of the Python subset (str and bytes are distinct types)',
        'port model: readline returns b"" (empty read), a non-empty ASCII line, or raises SerialException; write may raise',
        'logger.* calls are no-ops that cannot raise; str.split/strip/lower uninterpreted on the symbolic request text',
        'inductive invariant RetryLoop for the three 100-retry loops (establish / preserve obligations are part of this check)',
    )
    check_query(sess)
    check_command(sess)
    check_bootload(sess)
    alignment_lemma(sess)
    obs = native('n_c07', 'observations', {})
    sess.notes.extend(obs.get('notes', []))
    sess.explanation = ('query/command/bootload are executed symbolically for a symbolic request text; the retry loops are '
                        'handled by an inductive invariant (k <= 100 empty reads so far, or the first non-empty line just read), '
                        'every external call forked {returns, raises}. Alignment follows from the two contracts by induction.')


def fallback(sess):
    out = []
    for fn in ('query', 'command', 'bootload'):
        r = native('n_c07', 'search', {'fn': fn})
        r['what'] = f'n_c07.search[{fn}]'
        out.append(r)
    return out
