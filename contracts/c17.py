"""C17 -- ebb_calc.max_rate_t3 brackets the true peak |rate| of a T3 move within one jerk increment.

q(k) = r_k is the per-tick rate of the recurrence (contract of rate_t3, proved in C02; used modularly here).
For T >= 1:   result >= |q(1)|, result >= |q(T)|,
              result == |q(k0)| for some tick 1 <= k0 <= T           (so it never exceeds the true peak)
              for every tick 1 <= k <= T:  |q(k)| - result <= |jerk| (falls short by at most one jerk increment)
The last clause is proved through a lemma chain (DESIGN C17): vertex form 2q(x) = jerk*(D + (x - t*)^2), a reduced
claim about the parabola D + (x-t*)^2 on integer ticks, and a scaling lemma.
"""
import os
import z3

from pyvc.harness import run, no_raise, oblige_at
from pyvc.engine import Ret, Raised, EngineError, fresh_name
from pyvc.values import VInt, VFloat, VTuple, VNone
from pyvc.session import native
from . import specs
from .c02 import narrowed

MOD = 'plotink.ebb_calc'


def zabs(x):
    return z3.If(x >= 0, x, -x)


def zmax(*xs):
    m = xs[0]
    for x in xs[1:]:
        m = z3.If(x > m, x, m)
    return m


class RateT3:
    """call-site contract of rate_t3(k, rate, accel, jerk) for a tick k of the move: returns q(k), 2 q(k) == L2(k)"""
    def __init__(self, T, rate, accel, jerk):
        self.T, self.rate, self.accel, self.jerk = T, rate, accel, jerk
        self.calls = []

    def apply(self, ex, p, args, kwargs, node):
        k, r, a, j = args
        same = all(isinstance(x, VInt) and x.z().eq(y) for x, y in ((r, self.rate), (a, self.accel), (j, self.jerk)))
        ex.oblige(p, 'callee-requires', same, 'rate_t3-called-with-the-move-parameters')
        if not isinstance(k, VInt):
            ex.oblige(p, 'callee-requires', False, 'rate_t3-tick-is-an-int')
            yield p, Raised('TypeError', node=node)
            return
        kz = k.z()
        ex.oblige(p, 'callee-requires', z3.And(kz >= 1, kz <= self.T), 'rate_t3-evaluated-at-a-tick-of-the-move(1<=k<=T)')
        res = z3.Int(fresh_name('q'))
        p.assume(2 * res == specs.t3_r2(self.rate, self.accel, self.jerk, kz))
        p.ghost.setdefault('rate_calls', [])
        p.ghost['rate_calls'] = p.ghost['rate_calls'] + [(kz, res)]
        yield p, VInt(res)


def replay_max(model, ob):
    def g(n, d=0):
        try:
            return int(model.get(n, d))
        except (TypeError, ValueError):
            return d
    payload = {'fn': 'max_rate_t3', 'time': max(g('time', 1), 1), 'rate': g('rate'), 'accel': g('accel'), 'jerk': g('jerk')}
    out = native('n_c02', 'replay', payload)
    if not out.get('fails'):
        sr = native('n_c02', 'search_max', {'n': 20000})
        if sr.get('found'):
            payload, out = sr['input'], {'fails': True, 'observed': sr['observed'], 'expected': sr['expected']}
    return {'native_input': payload, 'confirmed': bool(out.get('fails')), 'observed': out.get('observed'), 'expected': out.get('expected'),
            'summary': f"max_rate_t3(time={payload['time']}, rate={payload['rate']}, accel={payload['accel']}, jerk={payload['jerk']}) -> "
                       f"{out.get('observed')} expected {out.get('expected')}"}


def lemmas(sess):
    # scaling: |a| <= |b| + 2  =>  |j a| <= |j b| + 2 |j|
    j, a, b = z3.Reals('j a b')
    sess.add('lemma/scaling', 'spec', 'lemma', [zabs(a) <= zabs(b) + 2], zabs(j * a) <= zabs(j * b) + 2 * zabs(j))
    # reduced claim on the parabola A(x) = D + (x - t)^2 over integer ticks 1..T, c any integer within 1 of the vertex t (ceil or floor):
    #   L_in :  |A(k)| <= max(|A(1)|, |A(T)|, |A(c)|) + 2                      (unconditionally)
    #   L_out:  |A(k)| <= max(|A(1)|, |A(T)|) + 2   when  t <= 5/2  or  t >= T - 3/2   (vertex within 3/2 of an end tick: the weakest
    #           such condition; the bound 2 is attained at t = 5/2, k = 2 or 3, and at t = T - 3/2, k = T - 1 or T - 2)
    # Each is split into cases that z3 decides instantly and reproducibly (sign of A(k); which end; the distance of k from that end);
    # un-split, the same query took anything from 0.2 s to > 300 s from run to run.
    D, t = z3.Reals('D t')
    k, T, c = z3.Ints('k T c')
    A = lambda x: D + (z3.ToReal(x) - t) * (z3.ToReal(x) - t)
    rng = [k >= 1, k <= T, T >= 2]
    cdef = [z3.ToReal(c) + 1 > t, z3.ToReal(c) - 1 < t]
    left, right = t <= z3.RealVal('5/2'), t >= z3.ToReal(T) - z3.RealVal('3/2')
    claim_c = zabs(A(k)) <= zmax(zabs(A(z3.IntVal(1))), zabs(A(T)), zabs(A(c))) + 2
    claim_noc = zabs(A(k)) <= zmax(zabs(A(z3.IntVal(1))), zabs(A(T))) + 2
    sess.add('lemma/reduced-claim/L_in[A(k)>=0]', 'spec', 'lemma', rng + cdef + [A(k) >= 0], claim_c)
    sess.add('lemma/reduced-claim/L_in[A(k)<0]', 'spec', 'lemma', rng + cdef + [A(k) < 0], claim_c)
    sess.add('lemma/reduced-claim/L_out[near-tick-1,A(k)>=0]', 'spec', 'lemma', rng + [left, A(k) >= 0], claim_noc)
    sess.add('lemma/reduced-claim/L_out[near-tick-T,A(k)>=0]', 'spec', 'lemma', rng + [right, A(k) >= 0], claim_noc)
    for nm, kc in (('k==1', k == 1), ('k==2', k == 2), ('k==3', k == 3), ('k>=4', k >= 4)):
        sess.add(f'lemma/reduced-claim/L_out[near-tick-1,A(k)<0,{nm}]', 'spec', 'lemma', rng + [left, A(k) < 0, kc], claim_noc)
    for nm, kc in (('k==T', k == T), ('k==T-1', k == T - 1), ('k==T-2', k == T - 2), ('k<=T-3', k <= T - 3)):
        sess.add(f'lemma/reduced-claim/L_out[near-tick-T,A(k)<0,{nm}]', 'spec', 'lemma', rng + [right, A(k) < 0, kc], claim_noc)
    sess.add('lemma/reduced-claim/case-split-is-exhaustive', 'spec', 'lemma', rng,
             z3.And(z3.Or(k == 1, k == 2, k == 3, k >= 4), z3.Or(k == T, k == T - 1, k == T - 2, k <= T - 3)))
    inside = z3.And(t > z3.RealVal('3/2'), t < z3.ToReal(T) - z3.RealVal('3/2'))
    sess.add('lemma/vertex-tick-is-a-real-tick', 'spec', 'lemma', rng + cdef + [inside], z3.And(c >= 1, c <= T))
    # canaries: the bound +2 is tight (+1/2 must be refuted: the shortfall can reach |jerk|); and beyond 5/2 the end ticks do not suffice
    sess.canary('reduced-claim-with-slack-1/2', rng + [z3.Or(left, right)], zabs(A(k)) <= zmax(zabs(A(z3.IntVal(1))), zabs(A(T))) + z3.RealVal('1/2'))
    sess.canary('reduced-claim-with-vertex-up-to-7/2-from-tick-1', rng + [t <= z3.RealVal('7/2')], claim_noc)
    # monotonicity used for the callee precondition: a tick k <= T of a move in the narrowed domain is in the narrowed domain
    jj, kk, TT = z3.Reals('jj kk TT')
    sess.add('lemma/narrowed-domain-monotone', 'spec', 'lemma', [jj >= 0, kk >= 1, kk <= TT], z3.And(jj * kk * kk <= jj * TT * TT, jj * kk <= jj * TT))


def check_max(sess):
    ctx = sess.new_ctx()
    T, rate, accel, jerk = z3.Ints('time rate accel jerk')
    req = narrowed(T, rate, accel, jerk)
    contract = RateT3(T, rate, accel, jerk)
    ctx.contracts[f'{MOD}.rate_t3'] = contract
    ex, outs = run(ctx, MOD, 'max_rate_t3', [VInt(T), VInt(rate), VInt(accel), VInt(jerk)], requires=req)
    sess.cover('max_rate_t3/requires', req)
    ctx.assume_note('max_rate_t3: the binary64 quotient t_mid = (jerk/2 - accel)/jerk and its comparisons with 1.5 and time-1.5 are '
                    'treated as exact real arithmetic (a mis-classification would need |jerk|*T >= 2^52; argued, not mechanised)')
    k = z3.Int('k_any_tick')
    r0 = specs.t3_r0(rate, accel, jerk)
    q_of = lambda x: specs.t3_r2(rate, accel, jerk, x)        # 2 q(x)
    n = 0
    for q, out in outs:
        tag = 'max_rate_t3'
        if not no_raise(ex, q, out):
            continue
        res = out.val
        if not isinstance(res, VInt):
            oblige_at(ex, q, tag, 'result-shape', False, 'int')
            continue
        n += 1
        R = res.z()
        calls = q.ghost.get('rate_calls', [])
        # P1
        oblige_at(ex, q, tag, 'ensures', 2 * R >= zabs(q_of(z3.IntVal(1))), 'at-least-|rate-at-tick-1|')
        oblige_at(ex, q, tag, 'ensures', 2 * R >= zabs(q_of(T)), 'at-least-|rate-at-tick-T|')
        # P2: the result is the absolute rate at one of the evaluated ticks (each proved to be a tick of the move)
        oblige_at(ex, q, tag, 'ensures', z3.Or(*[R == zabs(v) for _, v in calls]) if calls else False, 'equals-|rate|-at-a-real-tick(never-exceeds-the-peak)')
        # P3: short of any tick's rate by at most |jerk|
        hyp_k = [k >= 1, k <= T]
        goal = zabs(q_of(k)) - 2 * R <= 2 * zabs(jerk)
        # staging: on paths with jerk != 0 and T >= 2 use the lemma chain; otherwise direct
        q.pc.extend(hyp_k)
        direct = oblige_at(ex, q, tag, 'ensures', z3.Or(z3.And(jerk != 0, T >= 2), goal), 'within-|jerk|-of-every-tick[jerk==0-or-T==1]')
        # lemma chain
        jr = z3.ToReal(jerk)
        t = z3.RealVal('1/2') - z3.ToReal(accel) / jr
        D = (2 * z3.ToReal(r0) - jr * t * t) / jr
        A = lambda x: D + (z3.ToReal(x) - t) * (z3.ToReal(x) - t)
        c = z3.Int('c_vertex_tick')
        nz = [jerk != 0, T >= 2]
        inside = z3.And(t > z3.RealVal('3/2'), t < z3.ToReal(T) - z3.RealVal('3/2'))
        cdef = [z3.ToReal(c) + 1 > t, z3.ToReal(c) - 1 < t]
        # (a) vertex form at the four ticks
        for nm, x in (('k', k), ('1', z3.IntVal(1)), ('T', T), ('c', c)):
            oblige_at(ex, q, tag, 'lemma', z3.Implies(z3.And(*nz), z3.ToReal(q_of(x)) == jr * A(x)), f'vertex-form-at-{nm}')
        # (b) the code's t_mid is t* and its ceiling is c; evaluated ticks are {1, T} (+ c when inside)
        tm = q.env.get('t_mid') if q.frames else None
        facts = list(nz) + cdef
        for nm, x in (('k', k), ('1', z3.IntVal(1)), ('T', T), ('c', c)):
            facts.append(z3.ToReal(q_of(x)) == jr * A(x))
        # instances of the proved lemmas (reduced claim, scaling) -- assumed here, proved in lemmas()
        for x in (z3.IntVal(1), T, c):
            facts.append(z3.Implies(zabs(A(k)) <= zabs(A(x)) + 2, zabs(jr * A(k)) <= zabs(jr * A(x)) + 2 * zabs(jr)))
        # what the code evaluated: every call (kz, v) has 2v == q_of(kz); the vertex tick, if evaluated, is c
        evaluated_c = [kz for kz, _ in calls if not (z3.is_int_value(z3.simplify(kz)) or kz.eq(T))]
        for kz in evaluated_c:
            oblige_at(ex, q, tag, 'lemma', z3.Implies(z3.And(*nz), z3.And(z3.ToReal(kz) + 1 > t, z3.ToReal(kz) - 1 < t)), 'evaluated-vertex-tick-is-within-1-of-t*')
            facts.append(kz == c)
        # reduced claim on THIS path: the hypothesis is the code's own branch condition (whatever test on t_mid it
        # uses), so an equivalent or more generous vertex test still verifies and a too narrow one is refuted
        took_mid = bool(evaluated_c)
        if ex.feasible(q, z3.And(*nz)):
            if isinstance(tm, VFloat) and not tm.conc():
                oblige_at(ex, q, tag, 'lemma', z3.Implies(z3.And(*nz), tm.z() == t), "code's-t_mid-is-the-vertex-t*")
            local = [c_ for c_ in q.pc if 'q!' not in str(c_)] + list(nz) + cdef + [kz == c for kz in evaluated_c]
            if took_mid:
                # the vertex tick was evaluated: L_in applies as it stands (c within 1 of t* is the obligation above)
                claim = zabs(A(k)) <= zmax(zabs(A(z3.IntVal(1))), zabs(A(T)), zabs(A(c))) + 2
            else:
                # only the end ticks were evaluated: L_out needs the vertex within 3/2 of an end tick.  That must follow from the code's
                # OWN branch condition on this path (whatever test on t_mid it uses): an equivalent or more generous vertex test still
                # verifies, a too narrow one is refuted.  The obligation is generalised first -- every real subterm of the path
                # condition provably equal to t* (the code's t_mid in whatever shape the path condition stores it) becomes one fresh
                # real, hypotheses still mentioning rate/accel/jerk are dropped -- which only weakens the hypotheses and leaves a
                # linear query; if the generalised form is not provable the full one is emitted instead.
                claim = zabs(A(k)) <= zmax(zabs(A(z3.IntVal(1))), zabs(A(T))) + 2
                need = z3.Or(t <= z3.RealVal('5/2'), t >= z3.ToReal(T) - z3.RealVal('3/2'))
                t_abs = z3.Real('t_vertex')
                pairs = [(t, t_abs), (z3.simplify(t), t_abs)]
                seen_terms = {}

                def walk(e_):
                    if e_.get_id() in seen_terms or not z3.is_app(e_):
                        return
                    seen_terms[e_.get_id()] = e_
                    for ch in e_.children():
                        walk(ch)
                for c_ in local:
                    walk(c_)
                for e_ in seen_terms.values():
                    if e_.sort() != z3.RealSort() or e_.num_args() == 0 or e_.eq(t):
                        continue
                    vs = {str(v) for v in z3.z3util.get_vars(e_)}
                    if not vs or not vs <= {str(accel), str(jerk)}:
                        continue
                    sv = z3.Solver()
                    sv.set('timeout', 2000)
                    sv.add(*nz)
                    sv.add(e_ != t)
                    if sv.check() == z3.unsat:
                        pairs.append((e_, t_abs))
                sub = lambda e_: z3.substitute(e_, *pairs)
                gone = {str(rate), str(accel), str(jerk)}
                keep = [c2 for c2 in (sub(c_) for c_ in local) if not ({str(v) for v in z3.z3util.get_vars(c2)} & gone)]
                sv = z3.Solver()
                sv.set('timeout', 5000)
                sv.add(*keep)
                sv.add(z3.Not(sub(need)))
                ob1 = ex.oblige(q, 'lemma', need, "code's-vertex-test-not-taken=>vertex-within-3/2-of-an-end-tick")
                if sv.check() == z3.unsat:
                    ob1.goal, ob1.hyps = sub(need), keep
                else:
                    ob1.hyps = local
                ob1.func = tag
            facts.append(claim)
        ob = ex.oblige(q, 'ensures', goal, 'within-|jerk|-of-every-tick[lemma-chain]', extra_hyps=facts)
        ob.func = tag
        # vacuity guard: the path condition together with the assumed lemma instances is satisfiable
        if ex.feasible(q, z3.And(*nz)):
            sess.cover(f'max_rate_t3/lemma-chain-hyps#{q.sig()}', list(q.pc) + facts)
        del q.pc[-len(hyp_k):]
    if n == 0:
        raise EngineError('max_rate_t3: no returning path')
    sess.absorb(ctx, replay=replay_max)


def build(sess):
    sess.level = 'proof'
    sess.trust(
        'pyvc symbolic executor and its model of the Python subset',
        'z3 nlsat / cvc5 (QF_NRA/NIA)',
        'contract of rate_t3 (result == r_k of the recurrence), proved of the real body in C02 on the narrowed domain; '
        'lemma L5 of C02 links the firmware domain to it',
        't_mid = (jerk/2 - accel)/jerk and its comparisons are treated over the reals (binary64 rounding not modelled)',
    )
    lemmas(sess)
    check_max(sess)
    sess.explanation = ('max_rate_t3 is executed symbolically against the rate_t3 contract; the bracket clauses are obligations on every '
                        'path; the |jerk| shortfall bound is proved by a staged lemma chain (vertex form, reduced parabola claim on '
                        'integer ticks, scaling), each stage its own obligation.')


def fallback(sess):
    r = native('n_c02', 'search_max', {'n': 20000})
    r['what'] = 'n_c02.search_max'
    r.setdefault('tried', 20000)
    return [r]
