"""Symbolic device model of a conforming EBB in future-syntax mode (DESIGN 3.4), used by C16.

Board state (p.ghost['board']): vars  z3 Array Int->Int (32 byte slots), nick VStr, en1/en2 z3 Bool, mode z3 Int (1..5).
Effects are computed from the TRANSMITTED TEXT (the structured string the real code built), so the text path is part
of the proof:  int_of(str_of(n)) == n is the only string axiom used.
   SL,<v>,<i>     vars[i] := v        (device accepts 0<=v<=255, 0<=i<=31: obligation 'device-accepts')
   QL,<i>         reply payload str_of(vars[i])
   ST,<text>      nick := text ;  QT reply payload nick
   EM,<a>,<b>     mode := a when 1<=a<=5 ; en1 := (a != 0) ; en2 := (b != 0)
   QE             reply '<m1>,<m2>' with m = microsteps(mode) for an enabled motor, 0 otherwise
   CU,<p>,<v>     no effect on the modelled state
"""
import z3

from pyvc.engine import Raised, EngineError, fresh_name
from pyvc.values import NONE, VNone, VBool, TRUE, FALSE, VInt, VRef, HList
from pyvc.strings import VStr, S, Atom, concat, str_of_int
from pyvc import strops
from . import serialmodel as sm


def new_board(p, tag='board'):
    b = {'vars': z3.Array(f'{tag}_vars', z3.IntSort(), z3.IntSort()), 'nick': VStr([Atom(z3.String(f'{tag}_nick'), origin=('sym', 'nick'))]),
         'en1': z3.Bool(f'{tag}_en1'), 'en2': z3.Bool(f'{tag}_en2'), 'mode': z3.Int(f'{tag}_mode')}
    p.assume(z3.And(b['mode'] >= 1, b['mode'] <= 5))
    p.ghost['board'] = b
    return b


def microsteps(mode):
    return z3.If(mode == 1, 16, z3.If(mode == 2, 8, z3.If(mode == 3, 4, z3.If(mode == 4, 2, 1))))


def fields(ex, p, text):
    """split the request text at commas -> list of VStr"""
    res = list(strops.split(ex, p, text, S(','), None))
    if len(res) != 1 or not isinstance(res[0][1], VRef):
        raise EngineError(f'device model: request text {text!r} does not split structurally')
    return list(p.heap[res[0][1].ref].items)


def int_field(ex, p, f):
    r = list(strops.parse_int(ex, p, f, None))
    if len(r) != 1 or isinstance(r[0][1], Raised):
        raise EngineError(f'device model: field {f!r} is not an integer text')
    return r[0][1].z()


class DeviceCommand:
    """EBB3.command against the device: one write of strip(text)+CR, device effect, acknowledged"""
    def apply(self, ex, p, args, kwargs, node):
        obj, cmd = args[0], args[1]
        if sm.blocked(p, obj) or isinstance(cmd, VNone):
            yield p, FALSE
            return
        text = strops.strip(ex, p, cmd)
        data = concat(text, S('\r')).with_kind('bytes')
        p.events.append(('write', data))
        b = dict(p.ghost['board'])
        if text.chunks and isinstance(text.chunks[0], str) and text.chunks[0].startswith('ST,'):
            # nickname: everything after 'ST,' (may itself contain commas)
            b['nick'] = VStr((text.chunks[0][3:],) + tuple(text.chunks[1:]))
            p.ghost['board'] = b
            yield p, TRUE
            return
        f = fields(ex, p, text)
        name = f[0]
        if not name.is_lit():
            raise EngineError('device model: symbolic command name')
        nm = name.lit()
        if nm == 'SL':
            v, i = int_field(ex, p, f[1]), (int_field(ex, p, f[2]) if len(f) > 2 else z3.IntVal(0))
            ex.oblige(p, 'device-accepts', z3.And(v >= 0, v <= 255, i >= 0, i <= 31), 'SL-value-in-0..255-and-slot-in-0..31')
            b['vars'] = z3.Store(b['vars'], i, v)
            p.ghost['sl_log'] = p.ghost.get('sl_log', []) + [(i, v)]
        elif nm == 'ST':
            # everything after the first comma
            rest = VStr([])
            for k, piece in enumerate(f[1:]):
                if k:
                    rest = concat(rest, S(','))
                rest = concat(rest, piece)
            b['nick'] = rest
        elif nm == 'EM':
            a = int_field(ex, p, f[1])
            bb = int_field(ex, p, f[2]) if len(f) > 2 else None
            b['mode'] = z3.If(z3.And(a >= 1, a <= 5), a, b['mode'])
            b['en1'] = a != 0
            if bb is not None:
                b['en2'] = bb != 0
        elif nm in ('CU', 'SM', 'SP', 'SC', 'SR', 'PO', 'PD', 'CS', 'T3', 'HM', 'XM', 'LM', 'TP'):
            pass
        else:
            raise EngineError(f'device model: command {nm}')
        p.ghost['board'] = b
        yield p, TRUE


class DeviceQuery:
    def apply(self, ex, p, args, kwargs, node):
        obj, qry = args[0], args[1]
        if sm.blocked(p, obj) or isinstance(qry, VNone):
            yield p, NONE
            return
        text = strops.strip(ex, p, qry)
        p.events.append(('write', concat(text, S('\r')).with_kind('bytes')))
        b = p.ghost['board']
        f = fields(ex, p, text)
        nm = f[0].lit()
        if nm == 'QL':
            i = int_field(ex, p, f[1]) if len(f) > 1 else z3.IntVal(0)
            ex.oblige(p, 'device-accepts', z3.And(i >= 0, i <= 31), 'QL-slot-in-0..31')
            val = z3.Select(b['vars'], i)
            p.assume(z3.And(val >= 0, val <= 255))     # board invariant: slots hold bytes (only accepted SL values are stored)
            yield p, str_of_int(VInt(val))
        elif nm == 'QT':
            yield p, b['nick']
        elif nm == 'QE':
            ms = microsteps(b['mode'])
            yield p, concat(concat(str_of_int(VInt(z3.If(b['en1'], ms, 0))), S(',')), str_of_int(VInt(z3.If(b['en2'], ms, 0))))
        else:
            raise EngineError(f'device model: query {nm}')
