"""C15 -- firmware version gating uses numeric version order and blocks unsupported boards.

(a) order   : ebb_serial.min_version(port, "x.y.z") and EBB3.parse_version + EBB3.min_version("x.y.z") on a board that reports
              "... Firmware Version a.b.c" return (a,b,c) >=_lex (x,y,z) over integer triples (multi-digit components), both layers.
              Assumed: packaging.version.parse orders "a.b.c" as the integer triple; proved: both operands go through it, the board
              text is the part after the marker, stripped, and the comparison is >= in the right direction.
(b) handshake: EBB3.connect from a not-connected object (any stale version fields), every external call may fail, reply lines arbitrary
              bytes:  True => err unchanged (None stays None), port open, the accepted reply contains "EBB" and ITS version >= 3.0.2;
              False => err set; nothing but the version probe (at most twice) is written unless the result is True; raises nothing.
(c) legacy gates: servo_timeout / queryVoltage / query_nickname / write_nickname / reboot transmit their command only after
              min_version(port, <documented threshold>) returned True.
"""
import z3

from pyvc.harness import no_raise, oblige_at
from pyvc.engine import Ret, Raised, EngineError, Exec, Path, fresh_name
from pyvc.values import VInt, VTuple, VNone, VBool, NONE, VVersion, VHandle, TRUE, FALSE
from pyvc.strings import VStr, S, sym_str, Atom, concat, str_of_int, DIGITS
from pyvc import strops
from pyvc.session import native
from . import serialmodel as sm
from .c04 import GetPortName, serial_Serial

EB3 = 'plotink.ebb3_serial'
LEG = 'plotink.ebb_serial'
MOT = 'plotink.ebb_motion'
StrS = z3.StringSort()
IS_VERSION = z3.Function('is_version_text', StrS, z3.BoolSort())
VER = [z3.Function(f'version_{c}', StrS, z3.IntSort()) for c in 'abc']
MARK = 'Firmware Version '


def lex_ge(a, b):
    return z3.Or(a[0] > b[0], z3.And(a[0] == b[0], z3.Or(a[1] > b[1], z3.And(a[1] == b[1], a[2] >= b[2]))))


def triple_text(a, b, c):
    return VStr(list(str_of_int(VInt(a)).chunks) + ['.'] + list(str_of_int(VInt(b)).chunks) + ['.'] + list(str_of_int(VInt(c)).chunks))


def parse_model(ex, p, args, kwargs, node):
    """assumed contract of packaging.version.parse"""
    (v,) = args
    if isinstance(v, VNone) or not isinstance(v, VStr):
        yield p, Raised('TypeError', node=node)
        return
    ch = list(v.chunks)
    # structural form  str_of(a) . str_of(b) . str_of(c)
    if len(ch) == 5 and ch[1] == '.' and ch[3] == '.' and all(isinstance(ch[i], Atom) and ch[i].origin and ch[i].origin[0] == 'str_of' for i in (0, 2, 4)):
        yield p, VVersion(ch[0].origin[1], ch[2].origin[1], ch[4].origin[1])
        return
    if v.is_lit():
        parts = v.lit().split('.')
        if len(parts) == 3 and all(x.isdigit() for x in parts):
            yield p, VVersion(*[z3.IntVal(int(x)) for x in parts])
        else:
            # anything else: packaging may accept other forms; outside the a.b.c family only "raises or some version"
            yield p, Raised('InvalidVersion', node=node)
        return
    z = v.z()
    ex.ctx.assume_note('packaging.version.parse(text): InvalidVersion unless is_version(text); then ordered as the integer triple '
                       '(version_a(text), version_b(text), version_c(text))')
    q = p.fork()
    q.assume(z3.Not(IS_VERSION(z)))
    q.trail.append('parse-invalid')
    yield q, Raised('InvalidVersion', node=node)
    p.assume(IS_VERSION(z))
    p.trail.append('parse-ok')
    yield p, VVersion(VER[0](z), VER[1](z), VER[2](z))


def replay15(what):
    def fn(model, ob):
        out = native('n_c15', 'search', {'what': what})
        return {'native_input': out.get('input'), 'confirmed': bool(out.get('found')), 'observed': out.get('observed'),
                'expected': out.get('expected'), 'summary': f"{what}: {out.get('input')} -> {out.get('observed')} expected {out.get('expected')}"}
    return fn


# ------------------------------------------------------------------------------ (a) order
def check_order(sess):
    a, b, c, x, y, z = z3.Ints('a b c x y z')
    nonneg = [t >= 0 for t in (a, b, c, x, y, z)]
    board = VStr(['EBBv13_and_above EB ' + MARK] + list(triple_text(a, b, c).chunks) + ['\r\n'])
    thr = triple_text(x, y, z)
    # legacy layer
    ctx = sess.new_ctx()
    sm.install_common(ctx)
    ctx.ext_funcs['packaging.version.parse'] = parse_model

    class VersionReply:
        def apply(self, ex, p, args, kwargs, node):
            p.events.append(('write', S('V\r', 'bytes')))
            yield p, board
    ctx.contracts[f'{LEG}.query'] = VersionReply()
    ctx.inline.add(f'{LEG}.queryVersion')
    ex = Exec(ctx)
    p = Path()
    for r in nonneg:
        p.assume(r)
    for q, out in ex.run_function(p, LEG, 'min_version', [sm.PORT, thr]):
        tag = 'ebb_serial.min_version'
        if not no_raise(ex, q, out, tag):
            continue
        r = out.val
        oblige_at(ex, q, tag, 'ensures', (r.z() == lex_ge((a, b, c), (x, y, z))) if isinstance(r, VBool) else False,
                  'result==((a,b,c)>=lex(x,y,z))')
    sess.absorb(ctx, replay=replay15('order'))
    # a reply that does not carry the "Firmware Version " label (silence, foreign text, a bare number) never yields a verdict: None
    ctx = sess.new_ctx()
    sm.install_common(ctx)
    ctx.ext_funcs['packaging.version.parse'] = parse_model
    nolabel = Atom(z3.String('reply_without_label'), origin=('legacy_reply',))

    class UnlabelledReply:
        def apply(self, ex, p, args, kwargs, node):
            p.events.append(('write', S('V\r', 'bytes')))
            yield p, VStr([nolabel])
    ctx.contracts[f'{LEG}.query'] = UnlabelledReply()
    ctx.inline.add(f'{LEG}.queryVersion')
    ex = Exec(ctx)
    p = Path()
    p.assume(z3.Not(z3.Contains(nolabel.term, z3.StringVal(MARK))))
    n_paths = 0
    for q, out in ex.run_function(p, LEG, 'min_version', [sm.PORT, thr]):
        tag = 'ebb_serial.min_version[reply-without-the-version-label]'
        if not no_raise(ex, q, out, tag):
            continue
        n_paths += 1
        oblige_at(ex, q, tag, 'ensures', isinstance(out.val, VNone), 'no-label=>None(no-verdict,so-no-gated-command)')
    if n_paths == 0:
        raise EngineError('min_version on an unlabelled reply: no path')
    sess.absorb(ctx, replay=replay15('gates'))
    # EBB3 layer: parse_version then min_version
    ctx = sess.new_ctx()
    sm.install_common(ctx)
    ctx.ext_funcs['packaging.version.parse'] = parse_model
    ex = Exec(ctx)
    p = Path()
    for r in nonneg:
        p.assume(r)
    obj = sm.new_ebb3(p, cls=sm.EBB3)
    stripped = strops.strip(ex, p, board)
    n = 0
    for q, out in ex.run_function(p, EB3, 'EBB3.parse_version', [obj, stripped]):
        tag = 'EBB3.parse_version'
        if not no_raise(ex, q, out, tag):
            continue
        vp = sm.field(q, obj, 'version_parsed')
        ok = isinstance(vp, VVersion)
        oblige_at(ex, q, tag, 'ensures', z3.And(vp.a == a, vp.b == b, vp.c == c) if ok else False, 'version_parsed==(a,b,c)')
        for q2, out2 in ex.run_function(q, EB3, 'EBB3.min_version', [obj, thr]):
            tag2 = 'EBB3.min_version'
            if not no_raise(ex, q2, out2, tag2):
                continue
            r = out2.val
            oblige_at(ex, q2, tag2, 'ensures', (r.z() == lex_ge((a, b, c), (x, y, z))) if isinstance(r, VBool) else False,
                      'result==((a,b,c)>=lex(x,y,z))')
            n += 1
    if n == 0:
        raise EngineError('EBB3 version order: no path')
    sess.absorb(ctx, replay=replay15('order'))
    sess.canary('string-order', nonneg + [a == 2, b == 10, c == 0, x == 2, y == 9, z == 9], z3.Not(lex_ge((a, b, c), (x, y, z))))


# ------------------------------------------------------------------------------ (b) handshake
def check_connect(sess):
    n = 0
    for stale in ('none', 'stale'):
        ctx = sess.new_ctx()
        sm.install_common(ctx, sm.PortModel(faults=True, reads='any', ascii_=False))
        ctx.ext_funcs['packaging.version.parse'] = parse_model
        ctx.ext_funcs['serial.Serial'] = serial_Serial
        ctx.contracts[f'{sm.EBB3}.record_error'] = sm.RecordError()
        ctx.contracts[f'{sm.EBB3}._get_port_name'] = GetPortName()
        ctx.contracts[f'{sm.EBB3}.query'] = sm.QueryContract('any')
        for m in ('disconnect', 'query_nickname', 'parse_version', 'min_version'):
            ctx.inline.add(f'{sm.EBB3}.{m}')
        ex = Exec(ctx)
        p = Path()
        extra = {}
        if stale == 'stale':
            sa, sb, sc = z3.Ints('stale_a stale_b stale_c')
            extra = {'version': sym_str('stale_version'), 'version_parsed': VVersion(sa, sb, sc)}
        obj = sm.new_ebb3(p, cls=sm.EBB3, port=False, extra=extra)
        outs = list(ex.run_function(p, EB3, 'EBB3.connect', [obj, NONE, NONE]))
        tag = f'EBB3.connect[{stale}-version-fields]'
        for q, out in outs:
            if not no_raise(ex, q, out, tag):
                continue
            r = out.val
            if not (isinstance(r, VBool) and r.conc()):
                oblige_at(ex, q, tag, 'ensures', False, 'returns-bool')
                continue
            n += 1
            err = sm.field(q, obj, 'err')
            ws = sm.write_attempts(q)
            probes = [w for w in ws if w.struct_eq(S('v\r', 'bytes')) is True]
            others = [w for w in ws if w.struct_eq(S('v\r', 'bytes')) is not True]
            oblige_at(ex, q, tag, 'ensures', len(probes) <= 2, 'version-probe-sent-at-most-twice')
            beyond = bool(others) or any(e[0] == 'request' for e in q.events)
            if not r.b:
                oblige_at(ex, q, tag, 'ensures', not isinstance(err, VNone), 'False=>error-recorded')
                if beyond:
                    # connect failed after the device HAD identified itself as supported (port failure afterwards): the extra
                    # traffic may only be the CU,10,1 mode switch
                    only_cu = all(w.struct_eq(S('CU,10,1\r', 'bytes')) is True for w in others) and not any(e[0] == 'request' for e in q.events)
                    oblige_at(ex, q, tag, 'ensures', only_cu, 'False-after-identification=>only-the-CU,10,1-mode-switch-was-sent')
            elif isinstance(err, VNone):
                oblige_at(ex, q, tag, 'ensures', isinstance(sm.field(q, obj, 'port'), VHandle), 'True-with-no-error=>port-open')
                oblige_at(ex, q, tag, 'ensures', beyond, 'True-with-no-error=>handshake-completed(mode-switch-sent)')
            if not beyond:
                oblige_at(ex, q, tag, 'ensures', True, 'device-received-nothing-beyond-the-version-probe')
                continue
            # from here on: the device was addressed beyond the version probe -- it must have identified itself as an EBB
            # with firmware >= 3.0.2 IN THIS handshake
            # the accepted reply: the last text line read during the probing phase
            texts = [e[2] for e in q.events if e[0] == 'read' and e[1] == 'text']
            if not texts:
                oblige_at(ex, q, tag, 'ensures', False, 'device-addressed-beyond-the-probe=>some-probe-reply-was-read')
                continue
            # find the reply whose text the code accepted: the last text read before the first non-probe write
            idx_first_other = next((i for i, e in enumerate(q.events) if e[0] in ('write', 'write-exc') and e[1].struct_eq(S('v\r', 'bytes')) is not True), len(q.events))
            acc = [e[2] for e in q.events[:idx_first_other] if e[0] == 'read' and e[1] == 'text']
            if not acc:
                oblige_at(ex, q, tag, 'ensures', False, 'device-addressed-beyond-the-probe=>an-identification-reply-was-read')
                continue
            reply = acc[-1].term
            oblige_at(ex, q, tag, 'ensures', z3.Contains(reply, z3.StringVal('EBB')), 'addressed-beyond-the-probe=>reply-identifies-an-EBB')
            vtxt = strops.PY_STRIP(z3.SubString(reply, z3.IndexOf(reply, z3.StringVal(MARK), 0) + len(MARK),
                                                z3.Length(reply) - (z3.IndexOf(reply, z3.StringVal(MARK), 0) + len(MARK))))
            vp = sm.field(q, obj, 'version_parsed')
            okv = isinstance(vp, VVersion)
            oblige_at(ex, q, tag, 'ensures', z3.Contains(reply, z3.StringVal(MARK)), 'addressed-beyond-the-probe=>reply-carries-a-firmware-version')
            oblige_at(ex, q, tag, 'ensures', z3.And(IS_VERSION(vtxt), vp.a == VER[0](vtxt), vp.b == VER[1](vtxt), vp.c == VER[2](vtxt)) if okv else False,
                      'addressed-beyond-the-probe=>version-compared-is-the-version-of-THIS-reply')
            oblige_at(ex, q, tag, 'ensures', lex_ge((vp.a, vp.b, vp.c), (3, 0, 2)) if okv else False, 'addressed-beyond-the-probe=>firmware>=3.0.2')
        sess.absorb(ctx, replay=replay15('connect'))
    if n == 0:
        raise EngineError('connect: no path')
    # port already open: returns at once and writes nothing; in particular an object left with the port open and an error recorded
    # (firmware too old) must not come out of connect() as "connected, no error" -- the class invariant behind the handshake clause is
    #   port is not None and err is None  =>  this board passed the identification of a connect()
    for has_err in (False, True):
        ctx = sess.new_ctx()
        sm.install_common(ctx)
        ctx.contracts[f'{sm.EBB3}.record_error'] = sm.RecordError()
        ex = Exec(ctx)
        p = Path()
        e0 = sm.fresh_err('old_firmware_error') if has_err else None
        obj = sm.new_ebb3(p, cls=sm.EBB3, port=True, err=e0)
        tag = f'EBB3.connect[port-open,err-{"set" if has_err else "None"}]'
        for q, out in ex.run_function(p, EB3, 'EBB3.connect', [obj, NONE, NONE]):
            if no_raise(ex, q, out, tag):
                oblige_at(ex, q, tag, 'ensures', not q.events, 'port-already-open=>nothing-transmitted')
                err = sm.field(q, obj, 'err')
                oblige_at(ex, q, tag, 'ensures', (not isinstance(err, VNone)) if has_err else isinstance(err, VNone),
                          'an-unverified-board-stays-in-the-error-state(err-not-cleared)')
        sess.absorb(ctx, replay=replay15('connect'))


# ------------------------------------------------------------------------------ (c) legacy gates
class MinVersionGate:
    def apply(self, ex, p, args, kwargs, node):
        port, thr = args[0], args[1]
        for tag, val in (('mv-true', TRUE), ('mv-false', FALSE), ('mv-none', NONE)):
            q = p.fork()
            q.trail.append(tag)
            q.events.append(('minver', thr.lit() if isinstance(thr, VStr) and thr.is_lit() else None, tag))
            yield q, val


GATES = [  # (module, function, args builder, threshold, command prefix)
    (MOT, 'servo_timeout', lambda: [sm.PORT, VInt(z3.Int('timeout_ms')), NONE], '2.6.0', 'SR,'),
    (MOT, 'servo_timeout', lambda: [sm.PORT, VInt(z3.Int('timeout_ms')), VInt(z3.Int('state'))], '2.6.0', 'SR,'),
    (MOT, 'queryVoltage', lambda: [sm.PORT], '2.2.3', 'QC'),
    (LEG, 'query_nickname', lambda: [sm.PORT, VBool(True)], '2.5.5', 'QT'),
    (LEG, 'query_nickname', lambda: [sm.PORT, VBool(False)], '2.5.5', 'QT'),
    (LEG, 'write_nickname', lambda: [sm.PORT, sym_str('nickname')], '2.5.5', 'ST,'),
    (LEG, 'reboot', lambda: [sm.PORT], '2.5.5', 'RB'),
]


def check_gates(sess):
    for mod, fn, mk, thr, prefix in GATES:
        ctx = sess.new_ctx()
        sm.install_common(ctx)
        ctx.contracts[f'{LEG}.min_version'] = MinVersionGate()
        ctx.contracts[f'{LEG}.command'] = sm.LegacyCommand()
        ctx.contracts[f'{LEG}.query'] = sm.LegacyQuery()
        ex = Exec(ctx)
        outs = list(ex.run_function(Path(), mod, fn, mk()))
        tag = f'{mod.rsplit(".", 1)[1]}.{fn}'
        for q, out in outs:
            if isinstance(out, Raised):
                # consumers of a malformed reply may raise (not a gating matter); a gating path must not
                if not sm.writes(q):
                    no_raise(ex, q, out, tag)
                continue
            ws = sm.writes(q)
            gate = [e for e in q.events if e[0] == 'minver']
            if ws:
                ok_gate = len(gate) >= 1 and gate[-1][2] == 'mv-true' and gate[-1][1] == thr
                oblige_at(ex, q, tag, 'ensures', ok_gate, f'transmits-only-after-min_version({thr})-returned-True')
                w0 = ws[0]
                starts = w0.chunks and isinstance(w0.chunks[0], str) and w0.chunks[0].startswith(prefix)
                oblige_at(ex, q, tag, 'ensures', bool(starts) and len(ws) == 1, f'transmits-exactly-its-own-command({prefix}...)')
            else:
                oblige_at(ex, q, tag, 'ensures', True, 'nothing-transmitted')
            if gate and gate[-1][2] == 'mv-true':
                oblige_at(ex, q, tag, 'ensures', len(ws) == 1, 'supported-firmware=>the-command-is-sent')
        sess.absorb(ctx, replay=replay15('gates'))


def build(sess):
    sess.level = 'proof'
    sess.trust(
        'pyvc symbolic executor and its model of the Python subset',
        'ASSUMED of the dependency: packaging.version.parse orders "a.b.c" (decimal components of any length) as the integer triple and '
        'raises InvalidVersion on non-versions',
        'port model with faults at every external call; probe replies are arbitrary bytes (non-ASCII allowed: decode may raise)',
        'z3 sequence theory for "EBB" in reply / split at the version marker',
        'call-site contracts: _get_port_name (C19), query (C05), legacy command/query (C07), record_error (C04)',
    )
    check_order(sess)
    check_connect(sess)
    check_gates(sess)
    sess.explanation = ('(a) both min_version implementations are executed on a structured board string with symbolic multi-digit '
                        'components and compared with the lexicographic integer order; (b) EBB3.connect is executed from a '
                        'not-connected object with arbitrary (possibly stale) version fields, every external call forked; (c) each legacy '
                        'gate is executed against a three-valued min_version contract.')


def fallback(sess):
    out = []
    for what in ('order', 'connect', 'gates'):
        r = native('n_c15', 'search', {'what': what})
        r['what'] = f'n_c15.search[{what}]'
        out.append(r)
    return out
