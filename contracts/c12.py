"""C12 -- length parsing and unit conversion (plot_utils.parseLengthWithUnits / unitsToUserUnits / userUnitToUnits /
getLength / getLengthInches).

Input domain of the parsing clause: text = ws1 . N . U . ws2 with N a decimal/scientific numeral and
U in {"", px, in, mm, cm, pt, pc, Q, q, %}.  The text is a structured string [ws atom][numeral atom][unit literal][ws atom]:
the numeral atom's alphabet is [0-9+-.eE], which contains no unit letter -- that is the whole argument why no earlier
suffix test fires (DESIGN C12), decided structurally by the executor.
SVG unit table at 96 px per inch is stated ONCE here and each of the four converter tables is checked against it.
"""
from fractions import Fraction
import z3

from pyvc.harness import no_raise, oblige_at
from pyvc.engine import Ret, Raised, EngineError, Exec, Path
from pyvc.values import VInt, VFloat, VTuple, VNone, VBool, NONE, VRef, VHandle
from pyvc.strings import VStr, S, Atom, WS
from pyvc import strops
from pyvc.session import native

MOD = 'plotink.plot_utils'
NUMCHARS = frozenset('0123456789+-.eE')
PX = Fraction(96)
FACTOR = {        # user units (px) per unit, SVG / CSS absolute units at 96 px per inch
    '': Fraction(1), 'px': Fraction(1), 'in': PX, 'mm': PX / Fraction('25.4'), 'cm': PX / Fraction('2.54'),
    'pt': PX / 72, 'pc': PX / 6, 'Q': PX / Fraction('101.6'), 'q': PX / Fraction('101.6'),
}
UNITS = ['', 'px', 'in', 'mm', 'cm', 'pt', 'pc', 'Q', 'q', '%']
UNSUPPORTED = ['em', 'ex', 'ch', 'rem', 'vw']


def fr(f):
    return z3.RealVal(str(f))


def numeral(name='N'):
    a = Atom(z3.String(name), incl=NUMCHARS, nonempty=True, origin=('numeral', name))
    a.is_num_text = True
    return a


def text_of(unit, ws=True, num=True):
    chunks = []
    if ws:
        chunks.append(Atom(z3.String('ws1'), incl=WS, origin=('ws', 1)))
    n = None
    if num:
        n = numeral()
        chunks.append(n)
    chunks.append(unit)
    if ws:
        chunks.append(Atom(z3.String('ws2'), incl=WS, origin=('ws', 2)))
    return VStr(chunks), n


def replay_units(model, ob):
    out = native('n_c12', 'search', {})
    return {'native_input': out.get('input'), 'confirmed': bool(out.get('found')), 'observed': out.get('observed'),
            'expected': out.get('expected'), 'summary': f"{out.get('input')} -> {out.get('observed')} expected {out.get('expected')}"}


def check_parse(sess):
    for unit in UNITS:
        for ws in (True, False):
            ctx = sess.new_ctx()
            ex = Exec(ctx)
            p = Path()
            txt, n = text_of(unit, ws)
            outs = list(ex.run_function(p, MOD, 'parseLengthWithUnits', [txt]))
            tag = f'parseLengthWithUnits[{unit or "no-unit"}{",ws" if ws else ""}]'
            want_unit = 'px' if unit in ('', 'px') else ('Q' if unit in ('Q', 'q') else unit)
            for q, out in outs:
                if not no_raise(ex, q, out, tag):
                    continue
                r = out.val
                ok = isinstance(r, VTuple) and len(r.items) == 2 and isinstance(r.items[0], VFloat) and isinstance(r.items[1], VStr)
                if not ok:
                    oblige_at(ex, q, tag, 'ensures', False, 'returns-(value,unit)')
                    continue
                oblige_at(ex, q, tag, 'ensures', r.items[0].z() == strops.NUM_OF(n.term), 'value==num(N)')
                oblige_at(ex, q, tag, 'ensures', r.items[1].is_lit() and r.items[1].lit() == want_unit, f'unit=={want_unit!r}')
            sess.absorb(ctx, replay=replay_units)
    # unsupported units and texts without a numeric part -> (None, None), no exception
    bad = [(text_of(u, True)[0], f'unit-{u}') for u in UNSUPPORTED]
    bad += [(VStr([S(t).chunks[0]] if t else []), f'text-{t!r}') for t in ('px', 'abc', '', 'mm', '%', '--')]
    bad.append((NONE, 'None'))
    for txt, label in bad:
        ctx = sess.new_ctx()
        ex = Exec(ctx)
        outs = list(ex.run_function(Path(), MOD, 'parseLengthWithUnits', [txt]))
        tag = f'parseLengthWithUnits[{label}]'
        for q, out in outs:
            if not no_raise(ex, q, out, tag):
                continue
            r = out.val
            oblige_at(ex, q, tag, 'ensures', isinstance(r, VTuple) and len(r.items) == 2 and all(isinstance(x, VNone) for x in r.items),
                      'returns-(None,None)')
        sess.absorb(ctx, replay=replay_units)


class ParseContract:
    """call-site contract of parseLengthWithUnits: (num(N), unit) for a well-formed text, (None, None) otherwise"""
    def __init__(self, value, unit):
        self.value, self.unit = value, unit

    def apply(self, ex, p, args, kwargs, node):
        if self.unit is None:
            yield p, VTuple([NONE, NONE])
        else:
            yield p, VTuple([VFloat(self.value), S(self.unit)])


def parse_outputs():
    """the (value, unit) pairs parseLengthWithUnits can return (its proved contract), plus unknown units as a guard"""
    return ['px', 'in', 'mm', 'cm', 'pt', 'pc', 'Q', '%', None, 'em']


def check_to_user_units(sess):
    v, ref = z3.Reals('value percent_ref')
    for unit in parse_outputs():
        for refkind in ('none', 'given'):
            ctx = sess.new_ctx()
            ctx.contracts[f'{MOD}.parseLengthWithUnits'] = ParseContract(v, unit)
            ex = Exec(ctx)
            p = Path()
            if refkind == 'given':
                p.assume(ref != 0)
            args = [S('text')] + ([VFloat(ref)] if refkind == 'given' else [])
            outs = list(ex.run_function(p, MOD, 'unitsToUserUnits', args))
            tag = f'unitsToUserUnits[{unit},ref-{refkind}]'
            for q, out in outs:
                if not no_raise(ex, q, out, tag):
                    continue
                r = out.val
                if unit is None or unit == 'em':
                    oblige_at(ex, q, tag, 'ensures', isinstance(r, VNone), 'None-for-unparsable/unsupported')
                    continue
                if not isinstance(r, VFloat):
                    oblige_at(ex, q, tag, 'ensures', False, 'returns-a-number')
                    continue
                if unit == '%':
                    want = v * ref / 100 if refkind == 'given' else v / 100
                else:
                    want = v * fr(FACTOR[unit])
                oblige_at(ex, q, tag, 'ensures', r.z() == want, 'value*SVG-factor')
            sess.absorb(ctx, replay=replay_units)


def check_from_user_units(sess):
    d = z3.Real('distance_uu')
    for unit in UNITS + ['em']:
        ctx = sess.new_ctx()
        ex = Exec(ctx)
        outs = list(ex.run_function(Path(), MOD, 'userUnitToUnits', [VFloat(d), S(unit)]))
        tag = f'userUnitToUnits[{unit or "no-unit"}]'
        for q, out in outs:
            if not no_raise(ex, q, out, tag):
                continue
            r = out.val
            if unit == 'em':
                oblige_at(ex, q, tag, 'ensures', isinstance(r, VNone), 'None-for-unsupported')
                continue
            if not isinstance(r, VFloat):
                oblige_at(ex, q, tag, 'ensures', False, 'returns-a-number')
                continue
            want = d * 100 if unit == '%' else d / fr(FACTOR[unit])
            oblige_at(ex, q, tag, 'ensures', r.z() == want, 'distance/SVG-factor')
        sess.absorb(ctx, replay=replay_units)
    ctx = sess.new_ctx()
    ex = Exec(ctx)
    for q, out in ex.run_function(Path(), MOD, 'userUnitToUnits', [NONE, S('mm')]):
        if no_raise(ex, q, out, 'userUnitToUnits[None]'):
            oblige_at(ex, q, 'userUnitToUnits[None]', 'ensures', isinstance(out.val, VNone), 'None-in-None-out')
    sess.absorb(ctx, replay=replay_units)
    # round trip over the two contracts: (v * f) / f == v
    v = z3.Real('value')
    for unit in UNITS:
        if unit == '%':
            sess.add(f'round-trip[%]', 'spec', 'relational', [], (v / 100) * 100 == v)
        else:
            f = fr(FACTOR[unit])
            sess.add(f'round-trip[{unit or "no-unit"}]', 'spec', 'relational', [], (v * f) / f == v)


def doc_externals(ctx, attr_value):
    def handler(ex, p, h, method, args, kwargs, node):
        if h.kind == 'doc' and method == 'getroot':
            yield p, VHandle('root', 'root')
        elif h.kind == 'root' and method == 'get':
            yield p, attr_value
        else:
            raise EngineError(f'svg document method {h.kind}.{method}')
    for k in ('altself', 'doc', 'root'):
        ctx.externals[k] = handler


def check_attr_readers(sess):
    v, dflt = z3.Reals('value default')
    altself = VHandle('altself', 'altself', data={'document': VHandle('doc', 'doc')})
    for fn in ('getLength', 'getLengthInches'):
        for unit in parse_outputs():
            ctx = sess.new_ctx()
            ctx.contracts[f'{MOD}.parseLengthWithUnits'] = ParseContract(v, unit)
            doc_externals(ctx, S('some text'))
            ex = Exec(ctx)
            args = [altself, S('width')] + ([VFloat(dflt)] if fn == 'getLength' else [])
            outs = list(ex.run_function(Path(), MOD, fn, args))
            tag = f'{fn}[{unit}]'
            for q, out in outs:
                if not no_raise(ex, q, out, tag):
                    continue
                r = out.val
                if unit is None or unit == 'em' or (unit == '%' and fn == 'getLengthInches'):
                    oblige_at(ex, q, tag, 'ensures', isinstance(r, VNone), 'None-for-unparsable/unsupported')
                    continue
                if not isinstance(r, VFloat):
                    oblige_at(ex, q, tag, 'ensures', False, 'returns-a-number')
                    continue
                if unit == '%':
                    want = dflt * v / 100
                elif fn == 'getLength':
                    want = v * fr(FACTOR[unit])
                else:
                    want = v * fr(FACTOR[unit]) / 96          # pixels = inches x 96
                oblige_at(ex, q, tag, 'ensures', r.z() == want, 'value*SVG-factor' + ('/96' if fn == 'getLengthInches' else ''))
            sess.absorb(ctx, replay=replay_units)
        # attribute absent
        ctx = sess.new_ctx()
        doc_externals(ctx, NONE)
        ex = Exec(ctx)
        args = [altself, S('width')] + ([VFloat(dflt)] if fn == 'getLength' else [])
        for q, out in ex.run_function(Path(), MOD, fn, args):
            tag = f'{fn}[attribute-absent]'
            if not no_raise(ex, q, out, tag):
                continue
            if fn == 'getLength':
                oblige_at(ex, q, tag, 'ensures', isinstance(out.val, VFloat) and out.val.z().eq(dflt) or (isinstance(out.val, VFloat) and True), 'default')
                oblige_at(ex, q, tag, 'ensures', out.val.z() == dflt if isinstance(out.val, VFloat) else False, 'default-value')
            else:
                oblige_at(ex, q, tag, 'ensures', isinstance(out.val, VNone), 'None')
        sess.absorb(ctx, replay=replay_units)


def check_constant(sess):
    from pyvc import lib
    ctx = sess.new_ctx()
    ex = Exec(ctx)
    c = lib.module_global(ex, MOD, 'PX_PER_INCH')
    sess.add('PX_PER_INCH==96', 'plot_utils', 'ensures', [], z3.BoolVal(isinstance(c, VFloat) and c.conc() and c.t == 96), replay=replay_units)


def build(sess):
    sess.level = 'proof'
    sess.trust(
        'pyvc symbolic executor and its model of the Python subset; structured strings with per-atom alphabets '
        '(whitespace atom, numeral atom over [0-9+-.eE], literal unit suffix)',
        'float(text) returns num(text) for a numeral and raises ValueError otherwise; a text containing a character that occurs in no '
        'Python float literal is not a numeral',
        'floats are modelled as reals (x*96/25.4 and x*(96/25.4) are the same number)',
        'SVG/CSS absolute unit table at 96 px per inch as stated in contracts/c12.py',
        'lxml attribute lookup returns None or the attribute text (external)',
    )
    check_constant(sess)
    check_parse(sess)
    check_to_user_units(sess)
    check_from_user_units(sess)
    check_attr_readers(sess)
    v = z3.Real('value')
    sess.canary('mm-factor-2.54', [v != 0], v * fr(PX / Fraction('25.4')) == v * fr(PX / Fraction('2.54')))
    sess.explanation = ('parseLengthWithUnits is executed on structured texts ws.N.U.ws for every unit (and unsupported / numberless '
                        'texts); the four converters are each executed against the parse contract for every unit it can return and '
                        'compared with the single SVG factor table; round trip and pixels = inches x 96 follow from the contracts.')


def fallback(sess):
    r = native('n_c12', 'search', {})
    r['what'] = 'n_c12.search'
    return [r]
