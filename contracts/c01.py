"""C01 -- ebb_calc.move_dist_lt equals the firmware second-order recurrence; aliases delegate.

Spec (from the property): r0 = rate - tz(accel,2); per tick r += accel, S += r, S_0 = a0;
result (S_T div 2^31, S_T mod 2^31); a0 = accumulator, or for "clear": 2^31-1 iff the first non-zero
per-tick rate is negative, else 0.  Lemma L1 (induction) gives the closed form of S_T.
"""
import z3

from pyvc.harness import run, no_raise, oblige_at
from pyvc.engine import Ret, Raised, EngineError
from pyvc.values import VInt, VTuple, VNone
from pyvc.strings import S
from pyvc.session import native
from . import specs
from .specs import M

MOD = 'plotink.ebb_calc'


def domain(rate, accel, time):
    return [time >= 1, time <= 2 ** 33, rate >= -2 ** 32, rate <= 2 ** 32, accel >= -2 ** 32, accel <= 2 ** 32]


def replay_mdlt(model, ob):
    def g(n, d=0):
        try:
            return int(model.get(n, d))
        except (TypeError, ValueError):
            return d
    accum = g('accum', None) if ob.info.get('accum_kind') == 'int' else 'clear'
    if accum is None:
        accum = 0
    payload = {'fn': ob.info.get('native_fn', 'move_dist_lt'), 'rate': g('rate'), 'accel': g('accel'), 'time': g('time', 1),
               'accum': accum, 'dps': g('mp_dps0', 15)}
    out = native('n_c01', 'replay', payload)
    if not out.get('fails'):
        # the model is one point of the refuted obligation; look for a natively failing input nearby
        kinds = ['clear'] if accum == 'clear' else ['int']
        sr = native('n_c01', 'search', {'fn': payload['fn'], 'dps': payload['dps'], 'accum_kinds': kinds, 'n': 4000})
        if sr.get('found'):
            payload = sr['input']
            out = {'fails': True, 'observed': sr['observed'], 'expected': sr['expected']}
            accum = payload['accum']
    return {'native_input': payload, 'confirmed': bool(out.get('fails')), 'observed': out.get('observed'),
            'expected': out.get('expected'),
            'summary': f"{payload['fn']}(rate={payload['rate']}, accel={payload['accel']}, time={payload['time']}, accum={accum!r}) "
                       f"under mp.dps={payload['dps']} -> {out.get('observed')} expected {out.get('expected')}"}


def lemmas(sess):
    # L1: 2*S_T == 2*a0 + 2*T*r0 + accel*T*(T+1), by induction on T over the recurrence
    #     r_k = r_{k-1} + accel, S_k = S_{k-1} + r_k
    k, a0, r0, accel = z3.Ints('k a0 r0 accel')
    Sk, rk = z3.Ints('S_k r_k')
    closed = lambda T: 2 * a0 + 2 * T * r0 + accel * T * (T + 1)
    sess.add('lemma/L1/base', 'spec', 'lemma', [], closed(z3.IntVal(0)) == 2 * a0)
    hyp = [k >= 0, 2 * Sk == closed(k), rk == r0 + k * accel]
    rk1 = rk + accel
    Sk1 = Sk + rk1
    sess.add('lemma/L1/step-S', 'spec', 'lemma', hyp, 2 * Sk1 == closed(k + 1))
    sess.add('lemma/L1/step-r', 'spec', 'lemma', hyp, rk1 == r0 + (k + 1) * accel)
    # clear rule: if r_1 == 0 then for every k >= 2 the sign of r_k is the sign of accel,
    # so "first non-zero motion is backward" <=> r_1 < 0 or (r_1 == 0 and accel < 0)
    r1 = r0 + accel
    rk_ = r0 + k * accel
    sess.add('lemma/clear/first-nonzero', 'spec', 'lemma', [k >= 2, r1 == 0],
             z3.And((rk_ < 0) == (accel < 0), (rk_ == 0) == (accel == 0)))
    sess.canary('L1-off-by-one', hyp, 2 * Sk1 == closed(k))


def check_mdlt(sess, accum_kind):
    ctx = sess.new_ctx()
    ctx.opts['track_float'] = True
    ctx.opts['prune_timeout_ms'] = 3000
    rate, accel, time = z3.Ints('rate accel time')
    dps0 = z3.Int('mp_dps0')
    req = domain(rate, accel, time) + [dps0 >= 1]
    if accum_kind == 'int':
        accum = z3.Int('accum')
        req += [accum >= 0, accum < M]
        a0 = accum
        acc_arg = VInt(accum)
    else:
        a0 = specs.lt_clear_a0(rate, accel)
        acc_arg = S('clear')

    # lemma hint: T*(T+1) is even.  The ghost hh is justified by the witness obligation below, then assumed.
    hh = z3.Int('hh')
    wit = z3.If(time % 2 == 0, (time / 2) * (time + 1), time * ((time + 1) / 2))
    sess.add(f'lemma/T(T+1)-even[{accum_kind}]', 'spec', 'lemma', [time >= 0], time * (time + 1) == 2 * wit)
    req = req + [time * (time + 1) == 2 * hh]

    def setup(ex, p):
        p.ghost['mp_dps'] = VInt(dps0)
    ex, outs = run(ctx, MOD, 'move_dist_lt', [VInt(rate), VInt(accel), VInt(time), acc_arg], requires=req, setup=setup)
    sess.cover(f'move_dist_lt[{accum_kind}]/requires', req)
    S2 = specs.lt_S2(rate, accel, time, a0)
    n_ret = 0
    for q, out in outs:
        if not no_raise(ex, q, out):
            continue
        res = out.val
        if not (isinstance(res, VTuple) and len(res.items) == 2 and all(isinstance(x, VInt) for x in res.items)):
            oblige_at(ex, q, 'move_dist_lt', 'result-shape', False, 'tuple(int,int)')
            continue
        n_ret += 1
        pos, acc = res.items[0].z(), res.items[1].z()
        tag = f'move_dist_lt[{accum_kind}]'
        if accum_kind == 'int':
            oblige_at(ex, q, tag, 'ensures', 2 * (pos * M + acc) == S2, 'position*2^31+accumulator==S_T')
        else:
            # case split on the value of the specified start accumulator (it is 0 or 2^31-1): keeps the
            # If-term of the clear rule out of the nonlinear identity
            oblige_at(ex, q, tag, 'ensures', z3.Or(a0 == 0, a0 == M - 1), 'clear-value-is-0-or-2^31-1')
            for c in (0, M - 1):
                q.pc.append(a0 == c)
                oblige_at(ex, q, tag, 'ensures', 2 * (pos * M + acc) == specs.lt_S2(rate, accel, time, z3.IntVal(c)),
                          f'position*2^31+accumulator==S_T[a0={c}]')
                q.pc.pop()
        oblige_at(ex, q, tag, 'ensures', z3.And(acc >= 0, acc < M), 'accumulator-in-[0,2^31)')
        # (what mp.dps is left at on exit is not part of the property: a version that restores the caller's
        #  precision is as good; only the precision in force at each mpmath operation is an obligation)
    if n_ret == 0:
        raise EngineError('move_dist_lt: no returning path')
    for ob in ctx.obligations:
        ob.info['accum_kind'] = accum_kind
    sess.absorb(ctx, replay=replay_mdlt)
    # canary: the floor-instead-of-truncation spec must be refuted
    if accum_kind == 'int':
        wrong = 2 * a0 + 2 * time * (rate - accel / 2) + accel * time * (time + 1)
        for q, out in outs:
            if isinstance(out, Ret) and isinstance(out.val, VTuple):
                pos, acc = out.val.items[0].z(), out.val.items[1].z()
                sess.canary('floor-halving-spec', list(q.pc), 2 * (pos * M + acc) == wrong)
                break


MDLT_POS = z3.Function('move_dist_lt.pos', z3.IntSort(), z3.IntSort(), z3.IntSort(), z3.IntSort(), z3.IntSort())
MDLT_ACC = z3.Function('move_dist_lt.acc', z3.IntSort(), z3.IntSort(), z3.IntSort(), z3.IntSort(), z3.IntSort())
CLEAR_CODE = -1


class MdltContract:
    """call-site view of move_dist_lt: a deterministic function of its four arguments (accum 'clear' coded as -1)"""
    def apply(self, ex, p, args, kwargs, node):
        names = ['rate', 'accel', 'time', 'accum']
        vals = dict(zip(names, args))
        vals.update(kwargs)
        if 'accum' not in vals:
            vals['accum'] = S('clear')
        enc = []
        for n in names:
            v = vals[n]
            if isinstance(v, VInt):
                enc.append(v.z())
            elif hasattr(v, 'is_lit') and v.is_lit() and v.lit() == 'clear' and n == 'accum':
                enc.append(z3.IntVal(CLEAR_CODE))
            else:
                raise EngineError(f'move_dist_lt called with {n}={v!r}')
        yield p, VTuple([VInt(MDLT_POS(*enc)), VInt(MDLT_ACC(*enc))])


def check_aliases(sess):
    ctx = sess.new_ctx()
    ctx.contracts['plotink.ebb_calc.move_dist_lt'] = MdltContract()
    r, a, t, acc = z3.Ints('rate accel time accum')
    # moveDistLMA(rate, accel, time, accum) == move_dist_lt(rate, accel, time, accum)
    for kind, accv, code in (('int', VInt(acc), acc), ('clear', S('clear'), z3.IntVal(CLEAR_CODE))):
        ex, outs = run(ctx, 'plotink.ebb_motion', 'moveDistLMA', [VInt(r), VInt(a), VInt(t), accv])
        for q, out in outs:
            if not no_raise(ex, q, out):
                continue
            res = out.val
            ok = isinstance(res, VTuple) and len(res.items) == 2 and all(isinstance(x, VInt) for x in res.items)
            goal = z3.And(res.items[0].z() == MDLT_POS(r, a, t, code), res.items[1].z() == MDLT_ACC(r, a, t, code)) if ok else False
            ob = oblige_at(ex, q, f'moveDistLMA[{kind}]', 'ensures', goal, 'same-as-move_dist_lt')
            ob.info['native_fn'] = 'moveDistLMA'
            ob.info['accum_kind'] = kind
    # moveDistLM(rate, accel, time) == move_dist_lt(rate, accel, time, 0)[0]
    ex, outs = run(ctx, 'plotink.ebb_motion', 'moveDistLM', [VInt(r), VInt(a), VInt(t)])
    for q, out in outs:
        if not no_raise(ex, q, out):
            continue
        res = out.val
        goal = (res.z() == MDLT_POS(r, a, t, z3.IntVal(0))) if isinstance(res, VInt) else False
        ob = oblige_at(ex, q, 'moveDistLM', 'ensures', goal, 'position-of-move_dist_lt-with-accumulator-0')
        ob.info['native_fn'] = 'moveDistLM'
        ob.info['accum_kind'] = 'none'
    sess.absorb(ctx, replay=replay_mdlt)



def check_default_accum(sess, module, qualname, param='accum', want='clear'):
    """a call that omits the start accumulator is the call with the parameter's default: the default must be the text "clear"
    (the clear-rule paths are verified above for an explicit "clear")"""
    import ast
    from pyvc import front
    fn = front.load(module).func(qualname)
    names = [a.arg for a in fn.args.args]
    ok = False
    if param in names:
        j = names.index(param) - (len(names) - len(fn.args.defaults))
        if j >= 0:
            d = fn.args.defaults[j]
            ok = isinstance(d, ast.Constant) and d.value == want
    sess.add(f'{qualname}/default-of-{param}-is-"{want}"', f'{module}.{qualname}', 'ensures', [], z3.BoolVal(bool(ok)))

def build(sess):
    sess.level = 'proof'
    sess.trust(
        'pyvc symbolic executor and its model of the Python subset',
        'z3 / cvc5 (QF_NIA/NRA)',
        'assumed contract of mpmath at mp.dps=30 (prec 103, round-to-nearest): an operation whose exact result has a '
        '103-bit significand returns it exactly; representability is a discharged obligation at every operation (mpf-exact)',
        'int/int true division feeding int(): binary64 quotient truncates like the exact quotient for |a| < 2^53 (stated lemma)',
        'Python int = mathematical integer',
    )
    lemmas(sess)
    check_mdlt(sess, 'int')
    check_mdlt(sess, 'clear')
    check_default_accum(sess, MOD, 'move_dist_lt')
    check_aliases(sess)
    sess.explanation = ('move_dist_lt is executed symbolically from the real source for all ints with 1<=time<=2^33, '
                        '|rate|,|accel|<=2^32 (a superset of the firmware domain), accumulator in [0,2^31) or "clear", and any '
                        'ambient mp.dps>=1; the result is proved equal to the closed form of the recurrence (lemma L1, proved by '
                        'induction) and every mpmath operation is proved exact at 103 bits. The aliases are verified modularly '
                        'against move_dist_lt as an uninterpreted function of its arguments.')


def fallback(sess):
    out = []
    for fn in ('move_dist_lt', 'moveDistLMA', 'moveDistLM'):
        for dps in (15, 5):
            r = native('n_c01', 'search', {'fn': fn, 'dps': dps, 'n': 4000})
            r['what'] = f'n_c01.search[{fn},dps={dps}]'
            r.setdefault('tried', 4000)
            out.append(r)
    return out
