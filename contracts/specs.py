"""Spec functions shared by the motion-math contracts (C01, C02, C03, C17)."""
import z3

M = 2 ** 31


def tz(a, b):
    """a/b truncated toward zero, b a positive python int, a z3 Int"""
    return z3.If(a >= 0, a / b, -((-a) / b))


def lt_r0(rate, accel):
    return rate - tz(accel, 2)


def lt_clear_a0(rate, accel):
    """cleared accumulator of a timed move: M-1 iff the first non-zero per-tick rate is negative"""
    r1 = lt_r0(rate, accel) + accel
    return z3.If(z3.Or(r1 < 0, z3.And(r1 == 0, accel < 0)), M - 1, 0)


def lt_S2(rate, accel, T, a0):
    """2 * S_T for the second-order recurrence (lemma L1)"""
    r0 = lt_r0(rate, accel)
    return 2 * a0 + 2 * T * r0 + accel * T * (T + 1)


def t3_r0(rate, accel, jerk):
    return rate - tz(accel, 2) + tz(jerk, 6)


def t3_r2(rate, accel, jerk, k):
    """2 * r_k for the third-order recurrence (lemma L2)"""
    return 2 * t3_r0(rate, accel, jerk) + 2 * k * accel + jerk * k * (k - 1)


def t3_S6(rate, accel, jerk, T, a0):
    """6 * S_T (lemma L3)"""
    r0 = t3_r0(rate, accel, jerk)
    return 6 * a0 + 6 * T * r0 + 3 * accel * T * (T + 1) + jerk * (T - 1) * T * (T + 1)


def t3_clear_a0(rate, accel, jerk):
    r0 = t3_r0(rate, accel, jerk)
    r1 = r0 + accel
    r2 = r1 + accel + jerk
    r3 = r2 + accel + 2 * jerk
    first_neg = z3.Or(r1 < 0, z3.And(r1 == 0, z3.Or(r2 < 0, z3.And(r2 == 0, r3 < 0))))
    return z3.If(first_neg, M - 1, 0)
