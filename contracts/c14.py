"""C14 -- R-tree: Index(bboxes).intersection(q) equals brute force; construction terminates.

Ghost view of a node t: content(t) = set(t.bboxes) U content of every subtree (pairs (id, box)).
  __init__(bboxes)  requires every box x1<=x2, y1<=y2, finite
                    ensures  content(self) == set(bboxes); extent encloses content; shape is leaf or 4-node;
                             recursion on strictly shorter lists (termination measure len(bboxes))
  intersection(q)   ensures  result == { i : (i,b) in content(self), overlap(b,q) }   (closed intervals: touching counts)
All set statements are proved pointwise for one arbitrary element e* / one arbitrary id j*; the list `bboxes` is an
abstract sequence of unknown length (membership predicate Mem), the loops carry inductive invariants, the
recursive calls use the function's own contract as induction hypothesis.  The centre point is whatever the code
computes (a havoc'd real inside the loop invariant): correctness does not depend on it.
"""
import z3

from pyvc.harness import no_raise, oblige_at
from pyvc.engine import Ret, Raised, EngineError, Exec, Path, LoopSpec, fresh_name, NORMAL
from pyvc.values import VInt, VFloat, VTuple, VNone, VBool, NONE, VRef, HObj, HList
from pyvc.absseq import VAbsSeq, HAbsSet
from pyvc.session import native

MOD = 'plotink.rtree'
CLS = 'plotink.rtree.Index'
INF = z3.Real('INF')
R, I, B = z3.RealSort(), z3.IntSort(), z3.BoolSort()


def make_elem(tag):
    i = z3.Int(f'{tag}.id')
    k = [i] + [z3.Real(f'{tag}.{c}') for c in ('x1', 'y1', 'x2', 'y2')]
    v = VTuple([VInt(i), VTuple([VFloat(t) for t in k[1:]])])
    return v, k


def valid(k):
    fin = z3.And(*[z3.And(t < INF, t > -INF) for t in k[1:]])
    return z3.And(k[1] <= k[3], k[2] <= k[4], fin)


def overlap(k, q):
    """closed boxes share at least one point"""
    return z3.Not(z3.Or(q[0] > k[3], q[1] > k[4], q[2] < k[1], q[3] < k[2]))


def encloses(ext, k):
    return z3.And(ext[0] <= k[1], ext[1] <= k[2], k[3] <= ext[2], k[4] <= ext[3])


def forall_elems(tag, body):
    _, k = make_elem(tag)
    return z3.ForAll(k, body(k))


def keq(a, b):
    return z3.And(*[x == y for x, y in zip(a, b)])


def new_seq(p, name):
    """an arbitrary valid input list"""
    mem_f = z3.Function(f'Mem_{name}', I, R, R, R, R, B)
    n = z3.Int(f'len_{name}')
    mem = lambda k: mem_f(*k)
    p.assume(n >= 0)
    seq = VAbsSeq(n, make_elem, mem=mem, name=name)
    # requires:  forall e. Mem(e) => valid(e) /\ len >= 1 ; used by explicit instantiation (quantifier-free VCs)
    seq.requires_at = lambda k: z3.Implies(mem(k), z3.And(valid(k), n >= 1))
    return seq


# ------------------------------------------------------------------------------ __init__
class ExtentLoop(LoopSpec):
    """for (_, (xmin, ymin, xmax, ymax)) in bboxes: running centre / extent.
    invariant (pointwise at the witness e*): visited(e*) => self.{xmin,ymin} <= e* <= self.{xmax,ymax}"""
    abstract_only = True

    def establish(self, ex, p):
        return []

    def head(self, ex, p):
        selfv = p.env['self']
        f = p.heap[selfv.ref].fields
        for nm in ('center_x', 'center_y'):
            p.env[nm] = VFloat(z3.Real(fresh_name(nm)))
        for nm in ('xmin', 'ymin', 'xmax', 'ymax'):
            f[nm] = VFloat(z3.Real(fresh_name('self_' + nm)))
        vis = z3.Bool(fresh_name('visited_witness'))
        p.ghost['vis'] = vis
        w = p.ghost['witness']
        p.assume(z3.Implies(vis, encloses(self.ext(p), w)))

    @staticmethod
    def ext(p):
        f = p.heap[p.env['self'].ref].fields
        return [f[nm].z() for nm in ('xmin', 'ymin', 'xmax', 'ymax')]

    def bind(self, ex, h, s, it):
        if not isinstance(it, VAbsSeq):
            raise EngineError('extent loop over a non-abstract list')
        w = h.ghost['witness']
        done = h.fork()
        done.trail.append('for-exhausted')
        done.assume(z3.Implies(it.mem(w), done.ghost['vis']))      # every element has been visited
        yield done, False
        cur_v, cur_k = it.make(fresh_name('cur'))
        h.assume(z3.And(it.mem(cur_k), it.n >= 1))
        h.pc.append(valid(cur_k))
        h.ghost['cur'] = cur_k
        h.trail.append('for-next')
        res = list(ex.assign(h, s.target, cur_v))
        for q, o in res:
            if o is NORMAL:
                yield q, True
            else:
                yield q, o

    def preserve(self, ex, p):
        w, cur, vis = p.ghost['witness'], p.ghost['cur'], p.ghost['vis']
        vis2 = z3.Or(vis, keq(w, cur))
        return [('extent-encloses-every-visited-box', z3.Implies(vis2, encloses(self.ext(p), w)))]


class IndexCtor:
    """call-site contract of Index(sub) inside __init__ (the induction hypothesis)"""
    def apply(self, ex, p, args, kwargs, node):
        (sub,) = args
        if not isinstance(sub, VAbsSeq):
            raise EngineError('Index(...) on a non-abstract list')
        caller_n = p.ghost['ctor_len']
        ex.oblige(p, 'termination', sub.n < caller_n, 'recursive-call-on-a-strictly-shorter-list')
        _, k = make_elem(fresh_name('sub_elem'))
        ex.oblige(p, 'callee-requires', valid(k), 'boxes-handed-to-the-recursive-call-are-valid',
                  extra_hyps=[sub.mem(k), p.ghost['requires_at'](k)])
        ext = [z3.Real(fresh_name(f'sub_{nm}')) for nm in ('xmin', 'ymin', 'xmax', 'ymax')]
        obj = p.alloc(HObj(CLS, {'xmin': VFloat(ext[0]), 'ymin': VFloat(ext[1]), 'xmax': VFloat(ext[2]), 'ymax': VFloat(ext[3])}), 'Index')
        p.ghost[('content', obj.ref)] = sub.mem
        # induction hypothesis (ensures of the recursive call), instantiated at the witness
        w = p.ghost['witness']
        p.pc.append(z3.Implies(sub.mem(w), encloses(ext, w)))
        yield p, obj


def content_of(p, obj, k):
    """ghost view: is element k in content(obj)?  (from the heap shape in state p)"""
    g = p.ghost.get(('content', obj.ref))
    if g is not None:
        return g(k)
    f = p.heap[obj.ref].fields
    parts = []
    bb = f.get('bboxes')
    if isinstance(bb, VAbsSeq):
        parts.append(bb.mem(k))
    elif isinstance(bb, VRef) and isinstance(p.heap[bb.ref], HList):
        if p.heap[bb.ref].items:
            raise EngineError('concrete non-empty bboxes')
    elif bb is not None:
        raise EngineError('unexpected self.bboxes')
    st = f.get('subtrees')
    if isinstance(st, VRef) and isinstance(p.heap[st.ref], HList):
        for t in p.heap[st.ref].items:
            parts.append(content_of(p, t, k))
    elif st is not None:
        raise EngineError('unexpected self.subtrees')
    return z3.Or(*parts) if parts else z3.BoolVal(False)


def replay_rtree(model, ob):
    out = native('n_c14', 'search', {})
    return {'native_input': out.get('input'), 'confirmed': bool(out.get('found')), 'observed': out.get('observed'),
            'expected': out.get('expected'), 'summary': f"{out.get('input')} -> {out.get('observed')} expected {out.get('expected')}"}


def check_init(sess):
    ctx = sess.new_ctx()
    ctx.opts['inf_symbol'] = INF
    ctx.loop_specs[(f'{MOD}.Index.__init__', 0)] = ExtentLoop()
    ctx.contracts[CLS] = IndexCtor()
    ex = Exec(ctx)
    p = Path()
    p.assume(INF > 0)
    seq = new_seq(p, 'bboxes')
    _, w = make_elem('witness')
    p.ghost['witness'] = w
    p.ghost['ctor_len'] = seq.n
    p.ghost['requires_at'] = seq.requires_at
    p.pc.append(seq.requires_at(w))
    obj = p.alloc(HObj(CLS, {}), 'Index')
    # vacuity guard: the precondition instantiated at the witness is satisfiable (quantifier-free instance)
    sess.cover('Index.__init__/requires', [c for c in p.pc if not z3.is_quantifier(c)] + [seq.mem(w), valid(w), seq.n >= 1])
    outs = list(ex.run_function(p, MOD, 'Index.__init__', [obj, seq]))
    shapes = set()
    for q, out in outs:
        tag = 'Index.__init__'
        if not no_raise(ex, q, out, tag):
            continue
        f = q.heap[obj.ref].fields
        ext = [f[nm].z() for nm in ('xmin', 'ymin', 'xmax', 'ymax')]
        cont = content_of(q, obj, w)
        oblige_at(ex, q, tag, 'ensures', z3.Implies(seq.mem(w), cont), 'nothing-lost:every-box-is-in-the-tree(coverage-of-the-quadrants)')
        oblige_at(ex, q, tag, 'ensures', z3.Implies(cont, seq.mem(w)), 'nothing-invented')
        oblige_at(ex, q, tag, 'ensures', z3.Implies(seq.mem(w), encloses(ext, w)), 'extent-encloses-content')
        # shape: leaf (bboxes is the input list, no subtrees) or node (no own boxes, 4 subtrees)
        bb, st = f.get('bboxes'), f.get('subtrees')
        leaf = bb is seq and st is None
        node = bb is None and isinstance(st, VRef) and len(q.heap[st.ref].items) == 4
        oblige_at(ex, q, tag, 'ensures', leaf or node, 'shape-is-leaf-or-4-node')
        shapes.add('leaf' if leaf else 'node' if node else 'other')
    if not shapes:
        raise EngineError('Index.__init__: no returning path')
    sess.extra_cov['init_shapes_reached'] = sorted(shapes)
    sess.absorb(ctx, replay=replay_rtree)
    # canary: with strict quadrant filters coverage fails -- here: the claim "every box is strictly inside a quadrant"
    c = z3.Real('c')
    sess.canary('strict-filters-cover', [w[1] <= w[3]], z3.Or(w[1] < c, w[3] > c))


# ------------------------------------------------------------------------------ intersection
class LeafLoop(LoopSpec):
    """for (i, box) in self.bboxes: if overlaps: ids.add(i)
       invariant (pointwise):  visited(e*) /\\ overlap(e*,q) => e*.id in ids
                               j* in ids => Mem(wit) /\\ wit.id == j* /\\ overlap(wit, q)"""
    abstract_only = True

    def establish(self, ex, p):
        return []

    def head(self, ex, p):
        ids = p.env['ids']
        h = p.heap[ids.ref]
        inids = z3.Function(fresh_name('InIds'), I, B)
        h.mem = lambda j: inids(j)
        vis = z3.Bool(fresh_name('visited_witness'))
        p.ghost['vis'] = vis
        w, q, j = p.ghost['witness'], p.ghost['query'], p.ghost['jstar']
        _, wit = make_elem(fresh_name('wit'))
        h.ghost['wit'] = wit
        bb = p.heap[p.env['self'].ref].fields['bboxes']
        p.ghost['leaf_mem'] = bb.mem
        p.assume(z3.Implies(z3.And(vis, overlap(w, q)), inids(w[0])))
        p.assume(z3.Implies(inids(j), z3.And(bb.mem(wit), wit[0] == j, overlap(wit, q))))

    def bind(self, ex, h, s, it):
        w = h.ghost['witness']
        done = h.fork()
        done.trail.append('for-exhausted')
        done.assume(z3.Implies(it.mem(w), done.ghost['vis']))
        yield done, False
        cur_v, cur_k = it.make(fresh_name('cur'))
        h.assume(z3.And(it.mem(cur_k), it.n >= 1))
        h.pc.append(valid(cur_k))
        h.ghost['cur'] = cur_k
        h.trail.append('for-next')
        for q, o in ex.assign(h, s.target, cur_v):
            yield q, (True if o is NORMAL else o)

    def preserve(self, ex, p):
        w, q, j, cur, vis = p.ghost['witness'], p.ghost['query'], p.ghost['jstar'], p.ghost['cur'], p.ghost['vis']
        h = p.heap[p.env['ids'].ref]
        vis2 = z3.Or(vis, keq(w, cur))
        wit2 = h.ghost['wit']
        mem = p.ghost['leaf_mem']
        return [('nothing-missed', z3.Implies(z3.And(vis2, overlap(w, q)), h.mem(w[0]))),
                ('nothing-extra', z3.Implies(h.mem(j), z3.And(mem(wit2), wit2[0] == j, overlap(wit2, q))))]


def on_set_add(ex, p, h, k):
    """ghost: remember which element justified the id being added"""
    cur = p.ghost.get('cur')
    if cur is None or 'wit' not in h.ghost:
        return
    old_mem, old_wit = h.mem, h.ghost['wit']
    j = p.ghost['jstar']
    h.ghost['wit'] = [z3.If(old_mem(j), a, b) for a, b in zip(old_wit, cur)]


def on_set_union(ex, p, h, o):
    j = p.ghost['jstar']
    if 'wit' in h.ghost and 'wit' in o.ghost:
        h.ghost['wit'] = [z3.If(h.mem(j), a, b) for a, b in zip(h.ghost['wit'], o.ghost['wit'])]
    elif 'wit' in o.ghost:
        h.ghost['wit'] = list(o.ghost['wit'])


class IntersectionContract:
    """call-site contract of subt.intersection(q) (induction hypothesis, instantiated at the witnesses)"""
    def apply(self, ex, p, args, kwargs, node):
        subt, bbox = args
        cont = p.ghost.get(('content', subt.ref))
        if cont is None:
            raise EngineError('intersection on an object without a ghost content')
        ex.oblige(p, 'termination', p.ghost[('height', subt.ref)] < p.ghost['self_height'], 'recursion-descends-the-tree')
        q, w, j = p.ghost['query'], p.ghost['witness'], p.ghost['jstar']
        same_q = isinstance(bbox, VTuple) and len(bbox.items) == 4 and all(a.z().eq(b) for a, b in zip(bbox.items, q))
        ex.oblige(p, 'callee-requires', same_q, 'recursive-query-is-the-same-box')
        inr = z3.Function(fresh_name('InSub'), I, B)
        _, wit = make_elem(fresh_name('subwit'))
        p.assume(z3.Implies(z3.And(cont(w), overlap(w, q)), inr(w[0])))
        p.assume(z3.Implies(inr(j), z3.And(cont(wit), wit[0] == j, overlap(wit, q))))
        yield p, p.alloc(HAbsSet(lambda jj: inr(jj), ghost={'wit': wit}), 'set')


def check_intersection(sess):
    for shape in ('leaf', 'node'):
        ctx = sess.new_ctx()
        ctx.opts['inf_symbol'] = INF
        ctx.opts['abstract_sets'] = True
        ctx.opts['on_set_add'] = on_set_add
        ctx.opts['on_set_union'] = on_set_union
        ctx.loop_specs[(f'{MOD}.Index.intersection', 0)] = LeafLoop()
        ctx.contracts[f'{CLS}.intersection'] = IntersectionContract()
        ex = Exec(ctx)
        p = Path()
        p.assume(INF > 0)
        q = [z3.Real(f'query.{c}') for c in ('x1', 'y1', 'x2', 'y2')]
        p.assume(z3.And(*[z3.And(t < INF, t > -INF) for t in q]))
        _, w = make_elem('witness')
        j = z3.Int('jstar')
        p.ghost.update(witness=w, query=q, jstar=j)
        ext = [z3.Real(f'self_{nm}') for nm in ('xmin', 'ymin', 'xmax', 'ymax')]
        fields = {nm: VFloat(t) for nm, t in zip(('xmin', 'ymin', 'xmax', 'ymax'), ext)}
        hs = z3.Int('height_self')
        p.ghost['self_height'] = hs
        if shape == 'leaf':
            seq = new_seq(p, 'leafboxes')
            p.pc.append(seq.requires_at(w))
            fields['bboxes'] = seq
            obj = p.alloc(HObj(CLS, fields), 'Index')
        else:
            subs = []
            for k in range(4):
                mem_f = z3.Function(f'Mem_sub{k}', I, R, R, R, R, B)
                sext = [z3.Real(f'sub{k}_{nm}') for nm in ('xmin', 'ymin', 'xmax', 'ymax')]
                o = p.alloc(HObj(CLS, {nm: VFloat(t) for nm, t in zip(('xmin', 'ymin', 'xmax', 'ymax'), sext)}), 'Index')
                p.ghost[('content', o.ref)] = (lambda kk, _f=mem_f: _f(*kk))
                hk = z3.Int(f'height_sub{k}')
                p.ghost[('height', o.ref)] = hk
                p.assume(z3.And(hk >= 0, hk < hs))
                # Inv(subtree): its extent encloses its content, content boxes valid  (ensures of __init__)
                p.pc.append(z3.Implies(mem_f(*w), z3.And(encloses(sext, w), valid(w))))      # instance at the witness
                subs.append(o)
            fields['subtrees'] = p.alloc(HList(subs), 'list')
            obj = p.alloc(HObj(CLS, fields), 'Index')
        bbox = VTuple([VFloat(t) for t in q])
        outs = list(ex.run_function(p, MOD, 'Index.intersection', [obj, bbox]))
        tag = f'Index.intersection[{shape}]'
        n = 0
        for qq, out in outs:
            if not no_raise(ex, qq, out, tag):
                continue
            res = out.val
            if not (isinstance(res, VRef) and isinstance(qq.heap[res.ref], HAbsSet)):
                oblige_at(ex, qq, tag, 'result-shape', False, 'set')
                continue
            h = qq.heap[res.ref]
            cont = lambda kk: content_of(qq, obj, kk)
            oblige_at(ex, qq, tag, 'ensures', z3.Implies(z3.And(cont(w), overlap(w, q)), h.mem(w[0])), 'nothing-missed')
            wit = h.ghost.get('wit')
            if wit is None:
                oblige_at(ex, qq, tag, 'ensures', z3.Not(h.mem(j)), 'nothing-extra(empty-result)')
            else:
                oblige_at(ex, qq, tag, 'ensures', z3.Implies(h.mem(j), z3.And(cont(wit), wit[0] == j, overlap(wit, q))), 'nothing-extra')
            n += 1
        if n == 0:
            raise EngineError('intersection: no returning path')
        sess.absorb(ctx, replay=replay_rtree)
    # canary: touching must count -- "overlap requires a strict gap test" must be refuted
    _, w = make_elem('cw')
    q = [z3.Real(f'cq{c}') for c in range(4)]
    sess.canary('touching-does-not-count', [w[3] == q[0], w[1] <= w[3], w[2] <= w[4], q[1] <= w[4], q[3] >= w[2], q[0] <= q[2]], z3.Not(overlap(w, q)))


def composition(sess):
    """Index(bboxes).intersection(q) == {i : (i,b) in bboxes, overlap(b,q)}: from content(self)==set(bboxes) (ensures of
    __init__) substituted into the ensures of intersection -- the two contracts speak about the same ghost view"""
    a, b, c = z3.Bools('in_content in_bboxes overlaps')
    sess.add('lemma/composition', 'spec', 'lemma', [a == b], z3.And(a, c) == z3.And(b, c))


def build(sess):
    sess.level = 'proof'
    sess.trust(
        'pyvc symbolic executor and its model of the Python subset; abstract sequences (membership predicate, length) and '
        'abstract sets (membership predicate): a filtering comprehension keeps exactly the elements satisfying the filter and is no longer than its source',
        'floats are modelled as reals; math.inf as a symbolic bound INF larger in magnitude than every input coordinate',
        'z3 (LRA with quantified hypotheses instantiated by E-matching); goals are skolemised (pointwise at one element / one id)',
        'ids are modelled as integers; the tree is a finite acyclic heap structure (ghost height)',
    )
    check_init(sess)
    check_intersection(sess)
    composition(sess)
    # supplementary (bounded, labelled, not counted): the proof is over the reals and per call; binary64 rounding inside a comparison
    # helper and state shared between calls are outside it
    fs = native('n_c14', 'float_sweep', {'seed': sess.seed, 'n': 300 if sess.tier == 'quick' else 3000})
    sess.bounded.append({'function': 'rtree.Index on non-dyadic binary64 coordinates and repeated queries (supplementary)', 'bound': fs.get('bound'),
                         'evaluations': fs.get('tried', 0), 'distinct_nontrivial': fs.get('distinct', 0),
                         'rule': 'brute-force comparison oracle (exact on binary64 inputs); a query is repeated after the caller edited its result'})
    if fs.get('found'):
        sess.native_violations.append({'obligation': 'C14/bounded/binary64-and-repeated-queries', 'native_input': fs.get('input'), 'observed': fs.get('observed'),
                                       'expected': fs.get('expected'), 'summary': f"{fs.get('input')} -> {fs.get('observed')} expected {fs.get('expected')}"})
    sess.explanation = ('Index.__init__ and Index.intersection are executed symbolically on an input list of unknown length; set '
                        'equalities are proved pointwise with loop invariants and the functions\' own contracts as induction '
                        'hypotheses; termination by the measure len(bboxes) (construction) and tree height (query).')


def fallback(sess):
    r = native('n_c14', 'search', {})
    r['what'] = 'n_c14.search'
    return [r]
