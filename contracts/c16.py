"""C16 -- board-state round trips through the EBB3 layer are faithful (against the device contract, contracts/device.py).

  int32   : var_write_int32(v, k), -2^31 <= v < 2^31, 0 <= k <= 28: slots k..k+3 hold the big-endian two's-complement bytes of v
            (each 0..255), other slots unchanged, result True; var_read_int32(k) on that board returns v.
  nickname: write_nickname(s); query_nickname()  =>  name == strip(s)
  motors  : motors_enable(r1, r2) from ANY board state: en1 <=> clamp(r1) != 0, en2 <=> clamp(r2) != 0, and when some motor is
            enabled the global microstep mode equals the requested non-zero resolution (motor 1's when both are given).
The real methods run against DeviceCommand / DeviceQuery, which derive the device's reaction from the transmitted text.
"""
import z3

from pyvc.harness import no_raise, oblige_at
from pyvc.engine import Ret, Raised, EngineError, Exec, Path
from pyvc.values import VInt, VTuple, VNone, VBool, NONE
from pyvc.strings import VStr, S, sym_str, Atom
from pyvc import strops
from pyvc.session import native
from . import serialmodel as sm
from . import device as dev
from .c06 import clamp05

EB = 'plotink.ebb3_serial'
EM = 'plotink.ebb3_motion'


def make_ctx(sess):
    ctx = sess.new_ctx()
    sm.install_common(ctx, sm.PortModel(faults=False))
    ctx.contracts[f'{sm.EBB3}.record_error'] = sm.RecordError()
    ctx.contracts[f'{sm.EBB3}.command'] = dev.DeviceCommand()
    ctx.contracts[f'{sm.EBB3}.query'] = dev.DeviceQuery()
    for w in ('var_write', 'var_read'):
        ctx.inline.add(f'{sm.EBB3}.{w}')
    ctx.inline.add('plotink.ebb3_motion.EBBMotionWrap.motors_query_enabled')
    return ctx


def replay16(what):
    def fn(model, ob):
        out = native('n_c16', 'search', {'what': what})
        return {'native_input': out.get('input'), 'confirmed': bool(out.get('found')), 'observed': out.get('observed'),
                'expected': out.get('expected'), 'summary': f"{what}: {out.get('input')} -> {out.get('observed')} expected {out.get('expected')}"}
    return fn


def be_byte(v, j):
    u = v % (2 ** 32)
    return (u / (256 ** (3 - j))) % 256


def check_int32(sess):
    ctx = make_ctx(sess)
    ex = Exec(ctx)
    p = Path()
    v, k, i = z3.Ints('value start_index any_slot')
    p.assume(z3.And(v >= -2 ** 31, v < 2 ** 31, k >= 0, k <= 28))
    b0 = dev.new_board(p)
    vars0 = b0['vars']
    obj = sm.new_ebb3(p)
    sess.cover('var_write_int32/requires', list(p.pc))
    outs = list(ex.run_function(p, EB, 'EBB3.var_write_int32', [obj, VInt(v), VInt(k)]))
    tag = 'EBB3.var_write_int32'
    n = 0
    for q, out in outs:
        if not no_raise(ex, q, out, tag):
            continue
        r = out.val
        oblige_at(ex, q, tag, 'ensures', isinstance(r, VBool) and r.conc() and r.b is True, 'returns-True')
        vars1 = q.ghost['board']['vars']
        for j in range(4):
            oblige_at(ex, q, tag, 'ensures', z3.Select(vars1, k + j) == be_byte(v, j), f'slot[k+{j}]==big-endian-byte-{j}')
        oblige_at(ex, q, tag, 'ensures', z3.Implies(z3.Or(i < k, i > k + 3), z3.Select(vars1, i) == z3.Select(vars0, i)), 'other-slots-unchanged')
        log = q.ghost.get('sl_log', [])
        oblige_at(ex, q, tag, 'ensures', len(log) == 4 and all(z3.is_true(z3.simplify(log[j][0] == k + j)) for j in range(len(log))) if len(log) == 4 else False,
                  'four-SL-commands-to-consecutive-slots')
        # then read back on the resulting board, same object
        for q2, out2 in ex.run_function(q, EB, 'EBB3.var_read_int32', [obj, VInt(k)]):
            tag2 = 'EBB3.var_read_int32(after-write)'
            if not no_raise(ex, q2, out2, tag2):
                continue
            r2 = out2.val
            oblige_at(ex, q2, tag2, 'ensures', (r2.z() == v) if isinstance(r2, VInt) else False, 'reads-back-the-written-value')
            n += 1
    if n == 0:
        raise EngineError('int32 round trip: no path')
    sess.absorb(ctx, replay=replay16('int32'))
    # var_read_int32 alone, on an arbitrary board: big-endian signed join of the four slots
    ctx = make_ctx(sess)
    ex = Exec(ctx)
    p = Path()
    p.assume(z3.And(k >= 0, k <= 28))
    b0 = dev.new_board(p)
    obj = sm.new_ebb3(p)
    for q, out in ex.run_function(p, EB, 'EBB3.var_read_int32', [obj, VInt(k)]):
        tag = 'EBB3.var_read_int32'
        if not no_raise(ex, q, out, tag):
            continue
        s = [z3.Select(b0['vars'], k + j) for j in range(4)]
        u = ((s[0] * 256 + s[1]) * 256 + s[2]) * 256 + s[3]
        want = z3.If(u >= 2 ** 31, u - 2 ** 32, u)
        oblige_at(ex, q, tag, 'ensures', (out.val.z() == want) if isinstance(out.val, VInt) else False, 'big-endian-signed-join')
    sess.absorb(ctx, replay=replay16('int32'))
    sess.canary('little-endian-bytes', [v >= -2 ** 31, v < 2 ** 31], be_byte(v, 0) == (v % (2 ** 32)) % 256)


def check_nickname(sess):
    ctx = make_ctx(sess)
    ex = Exec(ctx)
    p = Path()
    dev.new_board(p)
    obj = sm.new_ebb3(p, extra={'name': sym_str('name_known_before')})      # any earlier nickname may be cached
    s = sym_str('nickname')
    want = strops.strip(ex, p, s)
    n = 0
    for q, out in ex.run_function(p, EB, 'EBB3.write_nickname', [obj, s]):
        tag = 'EBB3.write_nickname'
        if not no_raise(ex, q, out, tag):
            continue
        oblige_at(ex, q, tag, 'ensures', isinstance(out.val, VBool) and out.val.conc() and out.val.b, 'returns-True')
        nick = q.ghost['board']['nick']
        se = nick.struct_eq(want)
        oblige_at(ex, q, tag, 'ensures', z3.BoolVal(se) if se is not None else (nick.z() == want.z()), 'board-stores-the-trimmed-text')
        nm1 = sm.field(q, obj, 'name')
        se1 = nm1.struct_eq(want) if isinstance(nm1, VStr) else False
        oblige_at(ex, q, tag, 'ensures', z3.BoolVal(se1) if se1 is not None else (nm1.z() == want.z()), 'object-reports-the-trimmed-text-as-its-name')
        for forget in (True, False):
          qq = q.fork()
          if forget:
            qq.heap[obj.ref].fields['name'] = NONE      # forget the cached name: it must come back from the board
          for q2, out2 in ex.run_function(qq, EB, 'EBB3.query_nickname', [obj]):
            tag2 = f'EBB3.query_nickname(after-write{",cache-cleared" if forget else ""})'
            if not no_raise(ex, q2, out2, tag2):
                continue
            nm = sm.field(q2, obj, 'name')
            if isinstance(nm, VNone):
                # an all-blank reply leaves name unset: only acceptable when the trimmed text is empty
                oblige_at(ex, q2, tag2, 'ensures', z3.Length(want.z()) == 0, 'name-unset-only-for-an-empty-nickname')
            else:
                se = nm.struct_eq(want) if isinstance(nm, VStr) else False
                oblige_at(ex, q2, tag2, 'ensures', z3.BoolVal(se) if se is not None else (nm.z() == want.z()), 'name==trimmed-written-nickname')
            n += 1
    if n == 0:
        raise EngineError('nickname round trip: no path')
    sess.absorb(ctx, replay=replay16('nickname'))


def check_motors(sess):
    ctx = make_ctx(sess)
    ex = Exec(ctx)
    p = Path()
    b0 = dev.new_board(p)
    obj = sm.new_ebb3(p)
    r1, r2 = z3.Ints('resolution_1 resolution_2')
    c1, c2 = clamp05(r1), clamp05(r2)
    n = 0
    for q, out in ex.run_function(p, EM, 'EBBMotionWrap.motors_enable', [obj, VInt(r1), VInt(r2)]):
        tag = 'EBBMotionWrap.motors_enable'
        if not no_raise(ex, q, out, tag):
            continue
        b = q.ghost['board']
        oblige_at(ex, q, tag, 'ensures', b['en1'] == (c1 != 0), 'motor-1-enabled-iff-clamp(r1)!=0')
        oblige_at(ex, q, tag, 'ensures', b['en2'] == (c2 != 0), 'motor-2-enabled-iff-clamp(r2)!=0')
        oblige_at(ex, q, tag, 'ensures', z3.Implies(z3.Or(c1 != 0, c2 != 0), b['mode'] == z3.If(c1 != 0, c1, c2)),
                  'global-mode==requested-non-zero-resolution')
        # and the board then reports it
        for q2, out2 in ex.run_function(q, EM, 'EBBMotionWrap.motors_query_enabled', [obj]):
            tag2 = 'EBBMotionWrap.motors_query_enabled(after-enable)'
            if not no_raise(ex, q2, out2, tag2):
                continue
            r = out2.val
            ok = isinstance(r, VTuple) and len(r.items) == 2 and all(isinstance(x, VInt) for x in r.items)
            if not ok:
                oblige_at(ex, q2, tag2, 'ensures', False, 'returns-(res1,res2)')
                continue
            m = z3.If(c1 != 0, c1, c2)
            oblige_at(ex, q2, tag2, 'ensures', z3.And(r.items[0].z() == z3.If(c1 != 0, m, 0), r.items[1].z() == z3.If(c2 != 0, m, 0)),
                      'reports-(mode-if-enabled-else-0)-per-motor')
            n += 1
    if n == 0:
        raise EngineError('motors: no path')
    sess.absorb(ctx, replay=replay16('motors'))
    sess.cover('motors_enable/board-states', [b0['mode'] >= 1, b0['mode'] <= 5, b0['en2'], z3.Not(b0['en1'])])


def build(sess):
    sess.level = 'proof'
    sess.trust(
        'pyvc symbolic executor and its model of the Python subset',
        'device contract (contracts/device.py): SL/QL byte slots, ST/QT nickname, EM/QE/CU motor state -- it IS the specification of '
        '"the documented commands"; if it misreads the firmware the proof is about the wrong board',
        'call-site contracts of command/query (framing proved in C05): one write of the trimmed text, reply attributed to the request',
        'int.to_bytes / int.from_bytes follow the two\'s-complement reference semantics; int_of(str_of(n)) == n',
    )
    # the device contracts stand in for EBB3.command / EBB3.query: their framing (one write of the trimmed text, reply attributed to
    # the request, payload = reply minus name and one comma) is re-proved of the real bodies here, as in C05
    from . import c05
    kf = native('n_serial', 'kf_c05_1', {})
    c05.check_request(sess, 'command', bool(kf.get('reproduces')))
    c05.check_request(sess, 'query', False)
    check_int32(sess)
    check_nickname(sess)
    check_motors(sess)
    sess.explanation = ('The real writer/reader methods run against a symbolic board whose reactions are derived from the transmitted '
                        'text; round trips are proved by running the reader on the state the writer left, for all values, slots, '
                        'texts, requests and prior board states.')


def fallback(sess):
    out = []
    for what in ('int32', 'nickname', 'motors'):
        r = native('n_c16', 'search', {'what': what})
        r['what'] = f'n_c16.search[{what}]'
        out.append(r)
    return out
