"""C04 -- EBB3 error latch: first error wins, then nothing is transmitted.

Two-state contract proved of EVERY public request method found in the real classes (the list is derived from the
class bodies on every run), from every blocked pre-state:

    old(blocked) => no write attempt, err/port unchanged, result == documented failure value, raises nothing
    old(err) is not None => err == old(err)         (also for connect / disconnect)
    record_error(m): err' == old(err) if old(err) is not None else m ; nothing else changes
    frame: no method other than record_error / __init__ stores to self.err

By induction over the call sequence these give the property for all histories (DESIGN section 6, C04).
"""
import ast
import z3

from pyvc.harness import no_raise, oblige_at
from pyvc.engine import Ret, Raised, EngineError, Exec, Path
from pyvc.values import VInt, VTuple, VNone, VBool, NONE, VRef, VHandle, HObj
from pyvc.strings import VStr, S, sym_str, Atom
from pyvc import front
from pyvc.session import native
from . import serialmodel as sm
from .methods import METHODS, FAIL, variants, sym_args, method_home, request_methods
from .c05 import fail_matches

STATES = {          # name -> (port present, err set)
    'not-connected': (False, False),
    'error-latched': (True, True),
    'error-latched-and-disconnected': (False, True),
}


def first_err():
    a = Atom(z3.String('first_error'), nonempty=True, origin=('sym', 'first_error'))
    return VStr([a])


def make_ctx(sess):
    ctx = sess.new_ctx()
    sm.install_common(ctx, sm.PortModel(faults=True, reads='any'))
    ctx.contracts[f'{sm.EBB3}.record_error'] = sm.RecordError()
    ctx.opts['unroll_limit'] = 64
    from .c06 import install_loops
    install_loops(ctx, strict=False)
    return ctx


def replay_latch(meth, shape, state):
    def fn(model, ob):
        args = []
        for nm, ty in METHODS[meth]:
            k = shape[nm]
            if k == 'none':
                args.append(None)
            elif k == 'int':
                try:
                    args.append(int(model.get(nm, 1)))
                except (TypeError, ValueError):
                    args.append(1)
            else:
                args.append(model.get(nm) if isinstance(model.get(nm), str) and model.get(nm) else 'QG')
        port, err = STATES[state]
        payload = {'method': meth, 'args': args, 'state': {'port': port, 'err': ('first error' if err else None)},
                   'fail_value': FAIL.get(meth)}
        out = native('n_serial', 'replay_latch', payload)
        if not out.get('fails') and any(ty in ('str', 'optstr') for _, ty in METHODS[meth]):
            # uninterpreted lower()/strip() make the solver's text unreliable: directed search over request texts
            for cand in ('R', 'RB', 'BL', 'r', 'rb', 'bl', ' R ', 'R,1', 'QG', 'V', 'SM,1,0,0', 'x', '', ' '):
                alt = dict(payload, args=[cand if isinstance(a, str) else a for a in args])
                o2 = native('n_serial', 'replay_latch', alt)
                if o2.get('fails'):
                    payload, out = alt, o2
                    break
        return {'native_input': payload, 'confirmed': bool(out.get('fails')), 'observed': out.get('observed'),
                'expected': out.get('expected'),
                'summary': f"{meth}{tuple(payload['args'])} in state {state}: {out.get('observed')} (expected {out.get('expected')})"}
    return fn


def check_blocked(sess):
    methods = request_methods()
    n = 0
    for meth in methods:
        mod, qual = method_home(meth)
        for shape in variants(meth):
            for state, (has_port, has_err) in STATES.items():
                ctx = make_ctx(sess)
                # callees: the real command/query are verified here themselves; callers see their contracts
                if meth not in ('command',):
                    ctx.contracts[f'{sm.EBB3}.command'] = sm.CommandContract('any')
                if meth not in ('query',):
                    ctx.contracts[f'{sm.EBB3}.query'] = sm.QueryContract('any')
                for w in ('var_write', 'var_read'):
                    if meth != w:
                        ctx.inline.add(f'{sm.EBB3}.{w}')
                if meth != 'motors_query_enabled':
                    ctx.inline.add('plotink.ebb3_motion.EBBMotionWrap.motors_query_enabled')
                ctx.inline.add(f'{sm.EBB3}.disconnect')

                def hook(ex, p, base, attr, v, node, _m=meth):
                    if attr in ('err',):
                        ex.oblige(p, 'frame', False, f'{_m}-stores-to-self.{attr}-directly')
                ctx.opts['on_setattr'] = hook
                ex = Exec(ctx)
                p = Path()
                e0 = first_err() if has_err else None
                obj = sm.new_ebb3(p, port=has_port, err=e0)
                args, req = sym_args(meth, shape)
                for r in req:
                    p.assume(r)
                outs = list(ex.run_function(p, mod, qual, [obj] + args))
                sfx = ''.join('1' if shape[nm] != 'none' else '0' for nm, ty in METHODS[meth] if ty.startswith('opt'))
                tag = f'{qual}[{state}{sfx and ":" + sfx}]'
                for q, out in outs:
                    if not no_raise(ex, q, out, tag):
                        continue
                    att = [e for e in q.events if e[0] in ('write', 'write-exc', 'read', 'read-exc', 'close', 'close-exc',
                                                            'reset_input_buffer', 'request')]
                    oblige_at(ex, q, tag, 'ensures', len(att) == 0, 'blocked-object-touches-the-port-not-at-all')
                    err = sm.field(q, obj, 'err')
                    same_err = (isinstance(err, VNone) and e0 is None) or (e0 is not None and isinstance(err, VStr) and err.struct_eq(e0) is True)
                    oblige_at(ex, q, tag, 'ensures', same_err, 'err-unchanged')
                    port = sm.field(q, obj, 'port')
                    same_port = (isinstance(port, VNone) and not has_port) or (has_port and isinstance(port, VHandle) and port.name == sm.PORT.name)
                    oblige_at(ex, q, tag, 'ensures', same_port, 'port-unchanged')
                    oblige_at(ex, q, tag, 'ensures', fail_matches(out.val, FAIL[meth]), f'returns-failure-value-{FAIL[meth]!r}')
                    n += 1
                sess.absorb(ctx, replay=replay_latch(meth, shape, state))
    if n == 0:
        raise EngineError('C04: no paths')
    return methods


def check_record_error(sess):
    for has_err in (False, True):
        ctx = sess.new_ctx()
        ex = Exec(ctx)
        p = Path()
        e0 = first_err() if has_err else None
        obj = sm.new_ebb3(p, port=True, err=e0)
        before = dict(p.heap[obj.ref].fields)
        msg = sym_str('message')
        outs = list(ex.run_function(p, 'plotink.ebb3_serial', 'EBB3.record_error', [obj, msg]))
        tag = f'EBB3.record_error[{"err-set" if has_err else "err-None"}]'
        for q, out in outs:
            if not no_raise(ex, q, out, tag):
                continue
            err = sm.field(q, obj, 'err')
            want = e0 if has_err else msg
            oblige_at(ex, q, tag, 'ensures', isinstance(err, VStr) and err.struct_eq(want) is True, 'first-error-wins')
            same = all(q.heap[obj.ref].fields[k] is before[k] for k in before if k != 'err')
            oblige_at(ex, q, tag, 'ensures', same and not q.events, 'nothing-else-changes')
        sess.absorb(ctx)
    # canary: "last error wins" must be refuted for the err-set case: the obligation err == message
    sess.canary('last-error-wins', [], z3.String('first_error') == z3.String('message'))


def check_frame_ast(sess):
    """syntactic frame: the only stores to self.err are in record_error and __init__"""
    for modname, cls in (('plotink.ebb3_serial', 'EBB3'), ('plotink.ebb3_motion', 'EBBMotionWrap')):
        mi = front.load(modname)
        for m in mi.classes[cls]['methods']:
            fn = mi.func(f'{cls}.{m}')
            bad = []
            for node in ast.walk(fn):
                targets = []
                if isinstance(node, ast.Assign):
                    targets = node.targets
                elif isinstance(node, (ast.AugAssign, ast.AnnAssign)):
                    targets = [node.target]
                elif isinstance(node, ast.Call) and isinstance(node.func, ast.Name) and node.func.id in ('setattr', 'delattr'):
                    if len(node.args) >= 2 and isinstance(node.args[1], ast.Constant) and node.args[1].value == 'err':
                        bad.append(node.lineno)
                for t in targets:
                    for sub in ast.walk(t):
                        if isinstance(sub, ast.Attribute) and sub.attr == 'err' and isinstance(sub.ctx, ast.Store):
                            bad.append(node.lineno)
            allowed = m in ('record_error', '__init__')
            sess.add(f'frame/{cls}.{m}/err-is-stored-only-by-record_error', f'{cls}.{m}', 'frame', [],
                     z3.BoolVal(allowed or not bad), info={'lines': bad},
                     replay=(lambda model, ob, _c=cls, _m=m, _b=tuple(bad): native('n_serial', 'replay_overwrite', {'method': _m})))


class GetPortName:
    """_get_port_name(given_name): port_name becomes None or a text; when None the error is recorded (first wins)"""
    def apply(self, ex, p, args, kwargs, node):
        obj = args[0]
        q = p.fork()
        q.trail.append('portname-none')
        q.heap[obj.ref].fields['port_name'] = NONE
        yield from sm.RecordError().apply(ex, q, [obj, sm.fresh_err('locate_err')], {}, node)
        p.trail.append('portname-found')
        p.heap[obj.ref].fields['port_name'] = sym_str('found_port_name')
        yield p, NONE


def serial_Serial(ex, p, args, kwargs, node):
    q = p.fork()
    q.trail.append('open-exc')
    yield q, Raised('SerialException', node=node)
    p.trail.append('open-ok')
    p.events.append(('open',))
    yield p, sm.PORT


class ParseVersionAny:
    """parse_version(s): may set version / version_parsed; touches nothing else (weak call-site contract for C04;
    the body is verified in C15)"""
    def apply(self, ex, p, args, kwargs, node):
        obj = args[0]
        from pyvc.values import VVersion
        q = p.fork()
        q.trail.append('pv-none')
        yield q, NONE
        p.trail.append('pv-set')
        p.heap[obj.ref].fields['version'] = sym_str('version_text')
        p.heap[obj.ref].fields['version_parsed'] = VVersion(z3.Int('va'), z3.Int('vb'), z3.Int('vc'))
        yield p, NONE


class MinVersionAny:
    def apply(self, ex, p, args, kwargs, node):
        for k, v in (('mv-true', VBool(True)), ('mv-false', VBool(False)), ('mv-none', NONE)):
            q = p.fork()
            q.trail.append(k)
            yield q, v


def check_connect_disconnect(sess):
    # disconnect: err never changes; port becomes None
    for has_port in (True, False):
        for has_err in (True, False):
            ctx = make_ctx(sess)
            ex = Exec(ctx)
            p = Path()
            e0 = first_err() if has_err else None
            obj = sm.new_ebb3(p, port=has_port, err=e0)
            outs = list(ex.run_function(p, 'plotink.ebb3_serial', 'EBB3.disconnect', [obj]))
            tag = f'EBB3.disconnect[port={has_port},err={has_err}]'
            for q, out in outs:
                if not no_raise(ex, q, out, tag):
                    continue
                err = sm.field(q, obj, 'err')
                same = (isinstance(err, VNone) and e0 is None) or (e0 is not None and isinstance(err, VStr) and err.struct_eq(e0) is True)
                oblige_at(ex, q, tag, 'ensures', same, 'err-unchanged')
                oblige_at(ex, q, tag, 'ensures', isinstance(sm.field(q, obj, 'port'), VNone), 'port-is-None-afterwards')
                oblige_at(ex, q, tag, 'ensures', not any(e[0] in ('write', 'write-exc') for e in q.events), 'disconnect-writes-nothing')
            sess.absorb(ctx)
    # connect with an error already recorded: the message is never replaced
    for has_port in (True, False):
        ctx = make_ctx(sess)
        ctx.contracts[f'{sm.EBB3}._get_port_name'] = GetPortName()
        ctx.contracts[f'{sm.EBB3}.parse_version'] = ParseVersionAny()
        ctx.contracts[f'{sm.EBB3}.min_version'] = MinVersionAny()
        ctx.contracts[f'{sm.EBB3}.query'] = sm.QueryContract('any')
        ctx.inline.add(f'{sm.EBB3}.disconnect')
        ctx.inline.add(f'{sm.EBB3}.query_nickname')
        ctx.ext_funcs['serial.Serial'] = serial_Serial

        def hook(ex, p, base, attr, v, node):
            if attr == 'err':
                ex.oblige(p, 'frame', False, 'connect-stores-to-self.err-directly')
        ctx.opts['on_setattr'] = hook
        ex = Exec(ctx)
        p = Path()
        e0 = first_err()
        obj = sm.new_ebb3(p, port=has_port, err=e0)
        outs = list(ex.run_function(p, 'plotink.ebb3_serial', 'EBB3.connect', [obj, NONE, NONE]))
        tag = f'EBB3.connect[err-set,port={has_port}]'
        for q, out in outs:
            if not no_raise(ex, q, out, tag):
                continue
            err = sm.field(q, obj, 'err')
            oblige_at(ex, q, tag, 'ensures', isinstance(err, VStr) and err.struct_eq(e0) is True, 'recorded-message-is-never-replaced')
        sess.absorb(ctx, replay=lambda model, ob: native('n_serial', 'replay_overwrite', {'method': 'connect'}))


def build(sess):
    sess.level = 'proof'
    sess.trust(
        'pyvc symbolic executor and its model of the Python subset (heap object for self, typed None/str fields)',
        'port model: any call on the port object is an event; write/readline/close may raise SerialException',
        'call-site contracts of command/query for the other methods (their bodies are verified against the same latch '
        'clauses here, and against the full contract in C05)',
        'connect: weak call-site contracts for _get_port_name / parse_version / min_version (bodies verified in C15/C19)',
    )
    methods = check_blocked(sess)
    # how the latch gets SET: a fault in any of the three methods that talk to the port directly (timeout, error reply, wrong name,
    # SerialException or plain OSError at the write or at any read) leaves err recorded and raises nothing -- the same obligations
    # as C05's request contract, repeated here because "then transmits nothing" is only worth something if the error is recorded
    from . import c05
    kf = native('n_serial', 'kf_c05_1', {})
    c05.check_request(sess, 'command', bool(kf.get('reproduces')))
    c05.check_request(sess, 'query', False)
    c05.check_statusbyte(sess)
    # ... and the latch holds WITHIN a call: a helper that issues several requests transmits nothing after the first failed one
    sess.notes_set = getattr(sess, 'notes_set', set())
    c05.check_callers(sess)
    check_record_error(sess)
    check_frame_ast(sess)
    check_connect_disconnect(sess)
    sess.extra_cov['request_methods_found'] = methods
    sess.explanation = (f'{len(methods)} public request methods (derived from the class bodies) x argument shapes x 3 blocked states: '
                        'no port event, err and port unchanged, documented failure value, no exception; record_error is '
                        'first-wins; no other method stores to self.err (AST frame check + store hook); connect/disconnect never '
                        'replace a recorded message.')


def fallback(sess):
    r = native('n_serial', 'search_latch', {})
    r['what'] = 'n_serial.search_latch'
    r2 = native('n_serial', 'search_callers', {})
    r2['what'] = 'n_serial.search_callers (k-th request of a call fails: nothing may be transmitted afterwards)'
    return [r, r2]
