"""Native oracle / bounded check for C13: Inv on the real Index object after __init__, and removal histories against brute force."""
import itertools
import math
import random

from plotink import spatial_grid as sg


def sqd(a, b):
    return (a[0] - b[0]) ** 2 + (a[1] - b[1]) ** 2


def ends(idx, live):
    out = []
    for i in sorted(live):
        out.append((i, idx.vertices[i][0]))
        if idx.reverse:
            out.append((i + idx.path_count, idx.vertices[i][1]))
    return out


def cell_xy(idx, p):
    B = idx.bins_per_side
    bx = max(0, min(math.floor((p[0] - idx.xmin) / idx.bin_size_x), B - 1))
    by = max(0, min(math.floor((p[1] - idx.ymin) / idx.bin_size_y), B - 1))
    return bx, by


def check_inv(idx, live):
    B = idx.bins_per_side
    n = idx.path_count
    if len(idx.grid) != B * B or len(idx.adjacents) != B * B or len(idx.lookup) != n * (2 if idx.reverse else 1):
        return 'R1: sizes'
    if not (idx.bin_size_x > 0 and idx.bin_size_y > 0):
        return 'R1: bin sizes'
    want = {}
    for e, p in ends(idx, live):
        bx, by = cell_xy(idx, p)
        c = bx + B * by
        if idx.lookup[e] != c:
            return f'R2: lookup[{e}] = {idx.lookup[e]}, cell is {c}'
        if idx.grid[c].count(e) != 1:
            return f'R2: end {e} occurs {idx.grid[c].count(e)} times in its cell'
        want.setdefault(c, set()).add(e)
    for c in range(B * B):
        if set(idx.grid[c]) != want.get(c, set()):
            return f'R3: grid[{c}] = {idx.grid[c]} expected {sorted(want.get(c, set()))}'
        x0, y0 = c % B, c // B
        nb = {x + B * y for x in range(B) for y in range(B) if abs(x - x0) <= 1 and abs(y - y0) <= 1}
        if set(idx.adjacents[c]) != nb or len(idx.adjacents[c]) != len(nb):
            return f'R4: adjacents[{c}] = {idx.adjacents[c]}'
    return None


def check_query(idx, live, q):
    got = idx.nearest(q)
    es = ends(idx, live)
    if not es:
        return None if got is None else f'nearest({q}) = {got} on an empty index'
    if got is None:
        return f'nearest({q}) = None with {len(es)} live ends'
    d = dict(es)
    if got not in d:
        return f'nearest({q}) = {got}: not a live end'
    B = idx.bins_per_side
    qx, qy = cell_xy(idx, q)
    near = [(e, p) for e, p in es if abs(cell_xy(idx, p)[0] - qx) <= 1 and abs(cell_xy(idx, p)[1] - qy) <= 1]
    best = min(sqd(q, p) for e, p in (near or es))
    if sqd(q, d[got]) > best:
        return f'nearest({q}) = {got} at {sqd(q, d[got])}; a {"neighbouring" if near else "remaining"} end is at {best}'
    return None


def scenario(verts, B, rev, rnd, n_q=6):
    idx = sg.Index([list(v) for v in verts], B, rev)
    live = set(range(len(verts)))
    r = check_inv(idx, live)
    if r:
        return r
    order = list(live)
    rnd.shuffle(order)
    qs = [(rnd.uniform(-2, 6), rnd.uniform(-2, 6)) for _ in range(n_q)] + [(0, 0), (-30, -30), (40, 2)]
    for k in range(len(order) + 1):
        for q in qs:
            r = check_query(idx, live, q)
            if r:
                return r + f' (after removing {order[:k]})'
        if k < len(order):
            idx.remove_path(order[k])
            live.discard(order[k])
            r = check_inv(idx, live)
            if r:
                return r + f' (after removing {order[:k + 1]})'
    return None


def scenario_two(verts_a, verts_b, B, rev, rnd):
    """two indexes alive at once, interleaved queries and removals: an index must not depend on state shared with another instance
    (class-level containers mutated in place; seed C13-17)"""
    ia = sg.Index([list(v) for v in verts_a], B, rev)
    live_a = set(range(len(verts_a)))
    ib = sg.Index([list(v) for v in verts_b], B, rev)
    live_b = set(range(len(verts_b)))
    qs = [(rnd.uniform(-2, 6), rnd.uniform(-2, 6)) for _ in range(4)] + [(0, 0), (-30, -30), (40, 2), (3, 3)]
    both = [(ia, live_a, 'A'), (ib, live_b, 'B')]
    hist = []
    for _ in range(len(verts_a) + len(verts_b) + 1):
        for idx, live, nm in both:
            r = check_inv(idx, live)
            if r:
                return r + f' (index {nm} of two live indexes, history {hist})'
            for q in qs:
                r = check_query(idx, live, q)
                if r:
                    return r + f' (index {nm} of two live indexes, history {hist})'
        idx, live, nm = both[rnd.randrange(2)]
        if not live:
            idx, live, nm = both[0] if live_a else both[1]
        if not live:
            break
        victim = rnd.choice(sorted(live))
        idx.remove_path(victim)
        live.discard(victim)
        hist.append((nm, victim))
    return None


def bounded(payload):
    tier = payload.get('tier', 'quick')
    rnd = random.Random(payload.get('seed', 0))
    pts = [(x, y) for x in range(4) for y in range(4)]
    tried = 0
    configs = set()
    cases = []
    # exhaustive: 1..2 paths on the 4x4 lattice (subsampled), then random 3..6 paths
    seg = [(a, b) for a in pts[::3] for b in pts[::2]]
    for v in seg:
        cases.append([v])
    for a, b in itertools.combinations(seg[::3], 2):
        cases.append([a, b])
    for _ in range(150 if tier == 'quick' else 1500):
        k = rnd.randint(3, 7)
        cases.append([(rnd.choice(pts), rnd.choice(pts)) for _ in range(k)])
    prev = None
    for verts in cases:
        for B in ((1, 2, 3, 4) if tier != 'quick' else (1, 3, 4)):
            for rev in (False, True):
                # non-zero extent required (the property's precondition)
                xs = [v[0][0] for v in verts] + ([v[1][0] for v in verts] if rev else [])
                ys = [v[0][1] for v in verts] + ([v[1][1] for v in verts] if rev else [])
                if (max(xs) - min(xs)) + (max(ys) - min(ys)) == 0:
                    continue
                tried += 1
                try:
                    r = scenario(verts, B, rev, rnd)
                except Exception as ex:   # noqa
                    r = f'raised {type(ex).__name__}: {ex}'
                if r:
                    return {'found': True, 'input': {'vertices': verts, 'bins_per_side': B, 'reverse': rev}, 'observed': r, 'expected': 'Inv and brute-force agreement', 'tried': tried}
                configs.add((B, rev, len(verts)))
                if prev is not None and tried % 8 == 0 and prev[1]:
                    other = prev[0]
                    oxs = [v[0][0] for v in other] + ([v[1][0] for v in other] if rev else [])
                    oys = [v[0][1] for v in other] + ([v[1][1] for v in other] if rev else [])
                    if (max(oxs) - min(oxs)) + (max(oys) - min(oys)) != 0:
                        tried += 1
                        try:
                            r = scenario_two(verts, other, B, rev, rnd)
                        except Exception as ex:   # noqa
                            r = f'raised {type(ex).__name__}: {ex}'
                        if r:
                            return {'found': True, 'input': {'vertices': verts, 'second_index_vertices': other, 'bins_per_side': B, 'reverse': rev},
                                    'observed': r, 'expected': 'Inv and brute-force agreement for each of two live indexes', 'tried': tried}
        prev = (verts, True)
    return {'found': False, 'tried': tried, 'distinct': len(configs),
            'bound': f'{len(cases)} vertex sets (1-2 paths exhaustive on a 4x4 lattice subsample, 3-7 paths random) x bins per side x reverse; each with a full random removal history and 9 queries per step; every 8th configuration additionally as TWO live indexes with interleaved removals and queries'}


def search(payload):
    r = bounded({'tier': 'quick', 'seed': payload.get('seed', 0)})
    return r
