"""Native side of the engine-versus-CPython differential: call the real function on concrete arguments."""
import copy
import importlib
from fractions import Fraction

import mpmath


def enc(x):
    if isinstance(x, (bool, int, str)) or x is None:
        return x
    if isinstance(x, float):
        return x
    if isinstance(x, Fraction):
        return float(x)
    if isinstance(x, bytes):
        return ['bytes', x.decode('latin-1')]
    if isinstance(x, (tuple, list)):
        return [enc(y) for y in x]
    if isinstance(x, (set, frozenset)):
        return {'set': sorted(enc(y) for y in x)}
    try:
        return float(x)          # mpf and friends
    except Exception:            # noqa
        return repr(x)


def dec(x):
    if isinstance(x, list):
        if len(x) == 2 and x[0] == '__tuple__':
            return tuple(dec(y) for y in x[1])
        return [dec(y) for y in x]
    return x


def call(payload):
    mod = importlib.import_module(payload['module'])
    qual = payload['qualname']
    out = []
    for args in payload['cases']:
        a = [dec(x) for x in copy.deepcopy(args)]
        mpmath.mp.dps = int(payload.get('dps', 15))
        try:
            if '.' in qual and payload.get('ctor'):
                cls, meth = qual.split('.')
                obj = getattr(mod, cls)(*a[0])
                if payload.get('history'):
                    r = []
                    for meth_k, margs in a[1]:
                        try:
                            r.append(getattr(obj, meth_k)(*margs))
                        except Exception as e:    # noqa
                            r.append(('raise', type(e).__name__))
                            break
                else:
                    r = getattr(obj, meth)(*a[1:])
            else:
                fn = mod
                for part in qual.split('.'):
                    fn = getattr(fn, part)
                r = fn(*a)
            out.append({'ret': enc(r), 'args': enc(a)})
        except Exception as e:    # noqa
            out.append({'raise': type(e).__name__, 'mro': [c.__name__ for c in type(e).__mro__]})
    return out


def serial(payload):
    import logging
    logging.disable(logging.CRITICAL)
    import sys, os
    sys.path.insert(0, os.path.dirname(os.path.abspath(__file__)))
    from fakeport import FakePort, decode_reads
    from plotink import ebb_serial, ebb3_motion
    out = []
    for layer, method, args, script in payload['cases']:
        responder = None
        if script.get('ack'):
            def responder(data, _s=script):
                text = data.decode('latin-1')
                name = text.split(',')[0].split('\r')[0]
                return [(name + _s.get('data', '') + '\r\n').encode('latin-1')]
        port = FakePort(decode_reads(script.get('reads', [])), write_exc_at=script.get('write_exc_at', []), responder=responder)
        try:
            if layer in ('legacy', 'legacy_motion'):
                from plotink import ebb_motion
                r = getattr(ebb_serial if layer == 'legacy' else ebb_motion, method)(port, *args)
                out.append({'ret': enc(r), 'writes': [w.decode('latin-1') for w in port.writes]})
            else:
                e = ebb3_motion.EBBMotionWrap()
                e.port = port
                r = getattr(e, method)(*args)
                out.append({'ret': enc(r), 'writes': [w.decode('latin-1') for w in port.writes], 'err_set': e.err is not None})
        except Exception as ex:    # noqa
            out.append({'raise': type(ex).__name__})
    return out
