"""Entry point of the native side (runs under /venv/bin/python, which imports /repo/plotink)."""
import importlib
import json
import os
import sys

sys.path.insert(0, os.path.dirname(os.path.abspath(__file__)))


def main():
    module, action = sys.argv[1], sys.argv[2]
    payload = json.loads(sys.stdin.read() or 'null')
    mod = importlib.import_module(module)
    out = getattr(mod, action)(payload)
    json.dump(out, sys.stdout, default=str)


if __name__ == '__main__':
    main()
