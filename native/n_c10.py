"""Native oracle / search for C10: subdivideCubicPath with a growth cap against an exact-rational de Casteljau oracle."""
import random
from fractions import Fraction as F

from plotink import plot_utils as pu


class Capped(list):
    cap = 20000

    def __setitem__(self, k, v):
        list.__setitem__(self, k, v)
        if len(self) > self.cap:
            raise OverflowError('node list grew past the cap: no termination')


def lerp(a, b, t):
    return (a[0] + t * (b[0] - a[0]), a[1] + t * (b[1] - a[1]))


def restrict(b, u, v):
    def blossom(t1, t2, t3):
        p = [lerp(b[k], b[k + 1], t1) for k in range(3)]
        q = [lerp(p[k], p[k + 1], t2) for k in range(2)]
        return lerp(q[0], q[1], t3)
    return [blossom(u, u, u), blossom(u, u, v), blossom(u, v, v), blossom(v, v, v)]


def d2(p, a, b):
    px, py, ax, ay, bx, by = map(F, (*p, *a, *b))
    dx, dy = bx - ax, by - ay
    L2 = dx * dx + dy * dy
    t = (px - ax) * dx + (py - ay) * dy
    if t <= 0:
        return (px - ax) ** 2 + (py - ay) ** 2
    if t >= L2:
        return (px - bx) ** 2 + (py - by) ** 2
    c = (px - ax) * dy - dx * (py - ay)
    return c * c / L2


def check(nodes, flat):
    orig = [[tuple(map(F, pt)) for pt in nd] for nd in nodes]
    work = Capped([[list(map(float, pt)) for pt in nd] for nd in nodes])
    try:
        pu.subdivideCubicPath(work, flat)
    except OverflowError as e:
        return str(e), 'terminates'
    except Exception as e:   # noqa
        return f'raised {type(e).__name__}: {e}', 'no exception'
    # walk the result: each piece must be a dyadic restriction of the current original piece, in order
    m, u = 1, F(0)
    tol = 1e-7
    for k in range(1, len(work)):
        if m >= len(orig):
            return 'more pieces than the original curve accounts for', 'tiling'
        b = [orig[m - 1][1], orig[m - 1][2], orig[m][0], orig[m][1]]
        got = [work[k - 1][1], work[k - 1][2], work[k][0], work[k][1]]
        ok = False
        w = F(1)
        for _ in range(40):
            v = u + w
            if v <= 1:
                want = restrict(b, u, v)
                if all(abs(float(want[c][a]) - got[c][a]) <= tol * (1 + abs(float(want[c][a]))) for c in range(4) for a in range(2)):
                    ok = True
                    break
            w /= 2
        if not ok:
            return f'piece {k} {got} is not a dyadic restriction of original piece {m} starting at {float(u)}', 'restriction of the original'
        for c in (1, 2):
            if d2(got[c], got[0], got[3]) >= F(flat) ** 2 * (1 + F(1, 10 ** 6)):
                return f'piece {k} not flat: control point {got[c]} chord {got[0]}..{got[3]}', f'< {flat}'
        u = v
        if u == 1:
            m, u = m + 1, F(0)
    if not (m == len(orig) and u == 0) and len(orig) > 1:
        return f'curve not covered: stopped in original piece {m} at {float(u)}', 'whole curve'
    if work[0][0] != [float(x) for x in orig[0][0]] or work[-1][2] != [float(x) for x in orig[-1][2]]:
        return 'outer handles changed', 'unchanged'
    return None, None


DEEP = [([[(0, 0), (0, 0), (0, 30000)], [(30000, 0), (30000, 30000), (30000, 30000)]], 0.0004),
        ([[(0, 0), (0, 0), (250000, 100000)], [(300000, 0), (50000, 100000), (50000, 100000)]], 0.004)]


def deep_check(nodes, flat):
    """deep subdivision (13+ consecutive halvings of one piece; seed C10-17 capped the depth at 12): flatness of every piece, judged in
    exact rational arithmetic on the returned floats; the restriction clauses are left to check() on the shallow cases"""
    work = Capped([[list(map(float, pt)) for pt in nd] for nd in nodes])
    work.cap = 60000
    try:
        pu.subdivideCubicPath(work, flat)
    except OverflowError as e:
        return str(e), 'terminates'
    except Exception as e:   # noqa
        return f'raised {type(e).__name__}: {e}', 'no exception'
    lim = F(flat) ** 2 * (1 + F(1, 10 ** 6))
    for k in range(1, len(work)):
        got = [tuple(map(F, work[k - 1][1])), tuple(map(F, work[k - 1][2])), tuple(map(F, work[k][0])), tuple(map(F, work[k][1]))]
        for c in (1, 2):
            if d2(got[c], got[0], got[3]) >= lim:
                return f'piece {k} of {len(work) - 1} not flat: control point {tuple(map(float, got[c]))} chord {tuple(map(float, got[0]))}..{tuple(map(float, got[3]))}', f'< {flat}'
    return None, None


def search(payload):
    rnd = random.Random(payload.get('seed', 0))
    fixed = [([[(0, 0), (0, 0), (2, -1)], [(10, 0), (8, -4), (8, -4)]], 3), ([[(1, 1)] * 3, [(1, 1)] * 3], 0.5),
             ([[(0, 0), (0, 0), (0, 10)], [(10, 10), (10, 0), (10, 0)]], 0.1), ([[(0, 0), (0, 0), (5, 5)]], 1),
             # nearly flat curves with a very small flatness (a floor on `flat` would leave them unsplit)
             ([[(0, 0), (0, 0), (1, F(4, 10000))], [(2, F(4, 10000)), (3, 0), (3, 0)]], 0.00003),
             ([[(0, 0), (0, 0), (1, F(3, 1000000))], [(2, F(3, 1000000)), (3, 0), (3, 0)]], 0.0000002),
             # hook-shaped pieces: halving does not halve the deviation
             ([[(8, 4), (8, 4), (3, -6)], [(1, -8), (1, -5), (1, -5)]], 1.55), ([[(0, 0), (0, 0), (1, 1)], [(-2, -1), (3, 0), (3, 0)]], 0.1),
             ([[(8, 4), (8, 4), (3, -6)], [(1, -8), (1, -5), (1, -5)], [(2, 2), (7, 7), (7, 7)]], 1.55)]
    tried = distinct = 0
    cases = list(fixed)
    for _ in range(450):
        n = rnd.randint(1, 4)
        nodes = [[(rnd.randint(-8, 8), rnd.randint(-8, 8)) for _ in range(3)] for _ in range(n)]
        if rnd.random() < 0.2:
            nodes[rnd.randrange(n)] = [nodes[0][1]] * 3
        cases.append((nodes, rnd.choice([0.05, 0.3, 1, 4, 1.55, 0.77, 2.1])))
    for k, (nodes, flat) in enumerate(cases):
        tried += 1
        if k % 5 == 0:
            # call history in one process: the same curve was subdivided with a coarser flatness just before
            import copy
            try:
                pu.subdivideCubicPath([[list(map(float, pt)) for pt in nd] for nd in copy.deepcopy(nodes)], max(8 * flat, 4.0))
            except Exception:    # noqa
                pass
        o, e = check(nodes, flat)
        if o:
            return {'found': True, 'input': [nodes, flat], 'observed': o, 'expected': e, 'tried': tried}
        distinct += 1
    for nodes, flat in DEEP:
        tried += 1
        o, e = deep_check(nodes, flat)
        if o:
            return {'found': True, 'input': [nodes, flat], 'observed': o, 'expected': e, 'tried': tried}
        distinct += 1
    return {'found': False, 'tried': tried, 'distinct': distinct, 'bound': '2 deep curves (13-14 consecutive halvings, flatness clause only) + 9 fixed + 450 seeded random node lists (1..4 nodes, integer control points in [-8,8], flat in {0.05,0.3,1,4}; two nearly flat curves with flat 3e-5 and 2e-7), growth cap 20000 nodes'}
