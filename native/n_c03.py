"""Native oracle and bounded check for C03: calculate_lm against the tick-by-tick firmware recurrence with step counting.

The bounded stand-in (O4b in DESIGN) runs the REAL function against this oracle on exhaustive small scopes, boundary-
directed inputs and seeded random moves; failures are attributed to the frozen known-finding regions or reported.
"""
import itertools
import os
import random
from fractions import Fraction as F

import mpmath
from plotink import ebb_calc, ebb_motion

M = 2 ** 31
RMAX = 2 ** 31 - 1


def tz(a, b):
    return abs(a) // b * (1 if a >= 0 else -1)


def mirror(steps, rate, accel):
    """legacy negative-step form"""
    if steps < 0:
        if rate < 0:
            return None
        return -steps, -rate, -accel
    return steps, rate, accel


def oracle(steps, rate, accel, accum, max_ticks):
    """(duration, position, accumulator) | 'invalid' (cannot move / rate out of range / budget not reached in max_ticks)"""
    if steps == 0 or (rate == 0 and accel == 0):
        return (0, 0, 0)
    m = mirror(steps, rate, accel)
    if m is None:
        return (0, 0, 0)
    steps, rate, accel = m
    r = rate - tz(accel, 2)
    r1 = r + accel
    if accum == 'clear':
        a0 = M - 1 if (r1 < 0 or (r1 == 0 and accel < 0)) else 0
    else:
        a0 = int(accum)
    if accel == 0:
        # constant rate: S_t = a0 + r t is monotone, so the first tick reaching the budget has a closed form (no tick limit needed)
        if abs(r) > RMAX:
            return 'invalid'
        if r > 0:
            t = -((a0 - steps * M) // r)                      # ceil((steps*M - a0) / r)
        else:
            t = -((-(a0 + steps * M - M + 1)) // (-r))         # ceil((a0 + steps*M - M + 1) / -r)
        t = max(t, 1)
        S = a0 + r * t
        pos = S // M
        return (t, pos, S - M * pos)
    S, pos, taken = a0, 0, 0
    for t in range(1, max_ticks + 1):
        r += accel
        if abs(r) > RMAX:
            return 'invalid'
        S += r
        npos = S // M
        taken += abs(npos - pos)
        pos = npos
        if taken >= steps:
            return (t, pos, S - M * pos)
    return 'invalid'


def features(steps, rate, accel):
    m = mirror(steps, rate, accel)
    if m is None:
        return {}
    steps, rate, accel = m
    f = {'reverses': accel != 0 and rate != 0 and ((accel > 0) != (rate > 0)), 'r1': rate - tz(accel, 2) + accel}
    if f['reverses']:
        f['t_rev'] = (F(1, 2) - F(rate, accel)).__floor__()
    return f


def frozen_answer(inp):
    import kf_c03_frozen
    saved = mpmath.mp.dps
    try:
        mpmath.mp.dps = 15
        return tuple(int(x) for x in kf_c03_frozen.calculate_lm(*inp))
    except Exception:      # noqa
        return None
    finally:
        mpmath.mp.dps = saved


def classify(inp, got, exp):
    """attribute a disagreement to a frozen known-finding region (id) or None.
    A known finding is a SPECIFIC wrong answer on a specific input: the real function must return exactly what the frozen snapshot of
    the pinned code returns there; a different wrong answer in the same region is a new violation."""
    steps, rate, accel, accum = inp
    f = features(steps, rate, accel)
    dur, pos, acc = got
    if tuple(got) != frozen_answer(inp):
        return None
    if f.get('reverses') and f.get('t_rev') == 1 and f.get('r1') != 0 and not (0 <= acc < M):
        return 'KF-C03-1'
    if f.get('reverses') and f.get('t_rev', 0) > 1 and acc in (-1, M) and dur == exp[0] - 1:
        return 'KF-C03-2'
    if f.get('reverses') and f.get('t_rev', 0) > 1 and dur == 0:
        return 'KF-C03-3'
    return None


def run_one(inp, max_ticks):
    steps, rate, accel, accum = inp
    exp = oracle(steps, rate, accel, accum, max_ticks)
    if exp == 'invalid':
        return None
    mpmath.mp.dps = 15
    try:
        got = ebb_calc.calculate_lm(steps, rate, accel, accum)
    except Exception as e:      # noqa
        return {'input': inp, 'observed': f'raised {type(e).__name__}: {e}', 'expected': exp, 'kf': None}
    got = tuple(int(x) for x in got)
    if got == tuple(exp):
        return {'ok': True, 'sig': (exp[0] > 0, features(steps, rate, accel).get('reverses', False), accel == 0, steps < 0, accum == 'clear')}
    return {'input': inp, 'observed': got, 'expected': exp, 'kf': classify(inp, got, exp)}


def inputs(seed, n_random, lattice):
    accs = ['clear', 0, 1, M // 2, M - 2, M - 1]
    # (i) exhaustive small scope: a step is a few ticks
    for steps in (1, 2, 3, 4, -1, -2):
        for k1 in range(-lattice, lattice + 1, 1):
            for k2 in range(-lattice, lattice + 1, 2):
                for acc in accs:
                    yield (steps, k1 * (M // 16), k2 * (M // 16), acc)
    for steps, rate, accel in itertools.product((1, 2, 3), range(-12, 13), range(-12, 13)):
        for acc in ('clear', 0, M - 1):
            yield (steps, rate, accel, acc)
    # (ii) boundary-directed: rate crossing zero between ticks j and j+1; accumulator landing on k*M
    for j in range(0, 5):
        for accel in (3, 7, 1000003, -3, -1000003, M // 8 + 1, -(M // 8) - 1):
            for d in (-1, 0, 1):
                rate = -(j * accel) + tz(accel, 2) + d
                for steps in (1, 2, 3, 5):
                    for acc in ('clear', 0, M - 1):
                        yield (steps, rate, accel, acc)
    for rate in (M // 2, M // 4, M // 3, M - 1):
        for steps in (1, 2, 3):
            for acc in (0, M // 2, M - rate % M, (M - 2 * rate) % M):
                yield (steps, rate, 0, acc)
                yield (steps, -rate, 0, acc)
    # (ii-b) constant rate with a large budget: the quotient (2^31 * steps - accumulator) / rate is an integer plus a tiny fraction
    for steps in (8400000, 2 ** 24 + 1, 2 ** 26 + 3):
        for rate in (M - 1, -(M - 1), M - 3, -(M - 5)):
            for acc in (steps - 1, 0, 1, M - 1, 'clear'):
                yield (steps, rate, 0, acc)
                yield (-steps, abs(rate), 0, acc)
    # (iii) seeded random
    rnd = random.Random(seed)
    for _ in range(n_random):
        mag = rnd.choice([4, 12, 20, 28, 31])
        amag = rnd.choice([0, 4, 12, 20, 27])
        rate = rnd.randint(-2 ** mag + 1, 2 ** mag - 1)
        accel = rnd.randint(-2 ** amag, 2 ** amag) if rnd.random() < 0.85 else 0
        steps = rnd.choice([1, 2, 3, 5, 17, rnd.randint(1, 400), -rnd.randint(1, 50)])
        acc = rnd.choice(['clear', 'clear', 0, M - 1, rnd.randint(0, M - 1)])
        yield (steps, rate, accel, acc)


def _chunk(args):
    items, max_ticks = args
    evals, sigs, unknown, kf_counts, kf_examples = 0, set(), [], {}, {}
    for inp in items:
        r = run_one(tuple(inp), max_ticks)
        if r is None:
            continue
        evals += 1
        if r.get('ok'):
            sigs.add(r['sig'])
            continue
        if r['kf']:
            kf_counts[r['kf']] = kf_counts.get(r['kf'], 0) + 1
            kf_examples.setdefault(r['kf'], r)
        elif len(unknown) < 5:
            unknown.append(r)
    return evals, sigs, unknown, kf_counts, kf_examples


def bounded(payload):
    import multiprocessing as mp
    tier = payload.get('tier', 'quick')
    seed = int(payload.get('seed', 0))
    max_ticks = 4096 if tier == 'quick' else 60000
    n_random = 20000 if tier == 'quick' else 400000
    lattice = 16 if tier == 'quick' else 24
    allin = list(inputs(seed, n_random, lattice))
    jobs = min(16, os.cpu_count() or 4)
    size = max(1, (len(allin) + jobs * 8 - 1) // (jobs * 8))
    chunks = [(allin[k:k + size], max_ticks) for k in range(0, len(allin), size)]
    with mp.get_context('fork').Pool(jobs) as pool:
        parts = pool.map(_chunk, chunks)
    evals = 0
    sigs = set()
    unknown = []
    kf_counts = {}
    kf_examples = {}
    for e, sg, un, kc, ke in parts:
        evals += e
        sigs |= sg
        unknown += un
        for k, v in kc.items():
            kf_counts[k] = kf_counts.get(k, 0) + v
        for k, v in ke.items():
            kf_examples.setdefault(k, v)
    unknown = unknown[:5]
    return {'evaluations': evals, 'distinct': len(sigs), 'unknown': unknown, 'kf_counts': kf_counts,
            'kf_examples': {k: {'input': v['input'], 'observed': v['observed'], 'expected': v['expected']} for k, v in kf_examples.items()},
            'bound': f'oracle <= {max_ticks} ticks; lattice k*M/16 |k|<={lattice}; |rate|,|accel|<=12 exhaustive; {n_random} seeded random moves (seed {seed}); {jobs} processes'}


WITNESS = {
    'KF-C03-1': (3, -256817660, 371014727, 0),
    'KF-C03-2': (1, -10, 2, 'clear'),
    'KF-C03-3': (2, 2, -1, 2147483647),
}


def witnesses(_payload):
    out = {}
    for k, inp in WITNESS.items():
        r = run_one(inp, 100000)
        out[k] = bool(r and not r.get('ok') and r.get('kf') == k)
        out[k + '_detail'] = None if r is None else {kk: vv for kk, vv in r.items() if kk != 'sig'}
    return out


def replay(payload):
    inp = tuple(payload['input'])
    r = run_one(inp, 200000)
    if r is None:
        return {'fails': False, 'observed': 'input outside the valid domain', 'expected': None}
    if r.get('ok'):
        return {'fails': False, 'observed': 'agrees with the recurrence', 'expected': None}
    return {'fails': True, 'observed': r['observed'], 'expected': r['expected'], 'kf': r['kf']}


def wrapper(payload):
    """moveTimeLM(rate, steps, accel) == calculate_lm(steps, rate, accel, 'clear')[0]"""
    for steps, rate, accel in [(3, 5, 1), (10, 100000, -3), (-4, 7, 2), (1, -10, 2), (0, 1, 1)]:
        if ebb_motion.moveTimeLM(rate, steps, accel) != ebb_calc.calculate_lm(steps, rate, accel, 'clear')[0]:
            return {'found': True, 'input': (rate, steps, accel)}
    return {'found': False}
