"""Native oracle / search for C11: vb_scale against an independent SVG 1.1 preserveAspectRatio computation (Fractions)."""
import itertools
from fractions import Fraction as F

from plotink import plot_utils as pu

ALIGNS = [f'x{a}Y{b}' for b in ('Min', 'Mid', 'Max') for a in ('Min', 'Mid', 'Max')]


def svg_rule(vb, par, W, H):
    try:
        f = [F(x) for x in vb.replace(',', ' ').split()] if vb is not None else None
    except ValueError:
        f = None
    if f is None or len(f) < 4 or f[2] <= 0 or f[3] <= 0 or W <= 0 or H <= 0:
        return (1, 1, 0, 0)
    mx, my, w, h = f[:4]
    toks = par.replace(',', ' ').lower().split() if par is not None else []
    if toks and toks[0] == 'defer':
        toks = toks[1:]
    align = toks[0] if toks else 'xmidymid'
    mos = toks[1] if len(toks) > 1 else 'meet'
    if align == 'none':
        return (W / w, H / h, -mx, -my)
    rx, ry = W / w, H / h
    s = min(rx, ry) if mos == 'meet' else max(rx, ry)
    ex, ey = W - w * s, H - h * s
    tx = {'min': 0, 'mid': ex / 2, 'max': ex}[align[1:4]]
    ty = {'min': 0, 'mid': ey / 2, 'max': ey}[align[5:8]]
    return (s, s, -mx + tx / s, -my + ty / s)


def check(vb, par, W, H):
    exp = svg_rule(vb, par, F(W), F(H))
    try:
        got = pu.vb_scale(vb, par, W, H)
    except Exception as e:   # noqa
        return f'raised {type(e).__name__}: {e}', str(tuple(map(float, exp)))
    if len(got) != 4 or any(abs(float(g) - float(e)) > 1e-9 * max(1.0, abs(float(e))) for g, e in zip(got, exp)):
        return str(tuple(got)), str(tuple(map(float, exp)))
    return None, None


def search(_payload):
    vbs = ['0 0 100 50', '10,20,50,100', ' 1 2  30 30 ', '-5 -7 80 20 9', None, '', '1 2 3', 'a b c d', '0 0 0 10', '0 0 10 -1', '0 0 10 x',
           '0 0 -200 -300', '0\t0\t40  90', '5 5 1e1 2.5e1', '0 0 2.5e-1 1e-1', '0 0 4000000 1', '10 20 100 50', '-1e-1 -2 5E+1 2.5e1', '0-10 200 100']
    pages = [(200, 200), (100, 400), (400, 100), (0, 10), (10, -1), (4000000, 3), (8000000, 1), (100, 50), (100, 100), (-5, 100), (100, 0), (11.0, 8.5)]
    pars = [None, '', 'defer', 'none', 'defer none', 'None slice']
    for al in ALIGNS:
        pars += [al, f'{al} meet', f'{al} slice', f'{al.upper()},SLICE', f'defer {al} slice', f'defer {al} meet', f'defer {al}',
                 f'{al}\tslice', f'defer  {al}  slice', f' {al}\n meet ', f'{al} , slice']
    for vb, (W, H), par in itertools.product(vbs, pages, pars):
        obs, exp = check(vb, par, W, H)
        if obs:
            return {'found': True, 'input': [vb, par, W, H], 'observed': obs, 'expected': exp}
    return {'found': False}
