"""Native replay/oracle for C18 (executed under /venv/bin/python against /repo/plotink)."""
import math
from plotink import plot_utils as pu


def clamp(v, l, u):
    if v > u:
        return u
    if v < l:
        return l
    return v


def oracle(fn, a):
    if fn == 'checkLimits':
        v, l, u = a
        return (clamp(v, l, u), (v < l or v > u))
    if fn == 'checkLimitsTol':
        v, l, u, t = a
        return (clamp(v, l, u), (v > u + t or v < l - t))
    if fn == 'constrainLimits':
        v, l, u = a
        return clamp(v, l, u)
    if fn == 'point_in_bounds':
        x, y, x0, y0, x1, y1, t = a
        return not (x > x1 + t or x < x0 - t) and not (y > y1 + t or y < y0 - t)
    raise KeyError(fn)


def call(fn, a):
    if fn == 'point_in_bounds':
        x, y, x0, y0, x1, y1, t = a
        return pu.point_in_bounds([x, y], [[x0, y0], [x1, y1]], t)
    return getattr(pu, fn)(*a)


def replay(payload):
    fn, a = payload['fn'], [float(x) for x in payload['args']]
    exp = oracle(fn, a)
    try:
        obs = call(fn, a)
    except Exception as e:
        return {'fails': True, 'observed': repr(e), 'expected': repr(exp)}
    return {'fails': obs != exp, 'observed': repr(obs), 'expected': repr(exp)}


def search(_payload):
    from fractions import Fraction as F
    import itertools
    vals = [F(k, 8) for k in range(-24, 25, 3)]
    tried = 0
    for l, u in [(F(-2), F(10)), (F(0), F(0)), (F(-1), F(1, 8))]:
        for v in vals:
            for fn, a in (('checkLimits', [v, l, u]), ('constrainLimits', [v, l, u])):
                tried += 1
                r = replay({'fn': fn, 'args': [float(x) for x in a]})
                if r['fails']:
                    return {'found': True, 'input': (fn, [float(x) for x in a]), 'observed': r['observed'], 'expected': r['expected'], 'tried': tried}
            for t in (F(0), F(1, 8), F(1, 4)):
                tried += 1
                r = replay({'fn': 'checkLimitsTol', 'args': [float(v), float(l), float(u), float(t)]})
                if r['fails']:
                    return {'found': True, 'input': ('checkLimitsTol', float(v), float(l), float(u), float(t)), 'observed': r['observed'], 'expected': r['expected'], 'tried': tried}
    for x, y in itertools.product(vals[::2], repeat=2):
        for b in ([0, 0, 10, 10], [0, 0, 11, 8.5], [-1, -2, 0.5, 3]):
            for t in (0.0, 0.125, 1e-9):
                tried += 1
                r = replay({'fn': 'point_in_bounds', 'args': [float(x), float(y)] + b + [t]})
                if r['fails']:
                    return {'found': True, 'input': ('point_in_bounds', float(x), float(y), b, t), 'observed': r['observed'], 'expected': r['expected'], 'tried': tried}
    # values a hair outside a bound, far outside, infinite; bounds equal to the value as distinct float objects
    for l, u in ((0.0, 11.81), (-23.5, 47.1234), (1e-3, 1e3)):
        for v in (u * (1 + 1e-11), u + 1e-10, l - 1e-10, 1e18, -1e18, float('inf'), float('-inf'), float(str(u)), float(str(l)), (l + u) / 2):
            for fn, a in (('checkLimits', [v, l, u]), ('constrainLimits', [v, l, u]), ('checkLimitsTol', [v, l, u, 0.0]), ('checkLimitsTol', [v, l, u, 1e-12])):
                tried += 1
                exp = oracle(fn, a)
                try:
                    obs = call(fn, a)
                except Exception as e:   # noqa
                    return {'found': True, 'input': (fn, a), 'observed': repr(e), 'expected': repr(exp), 'tried': tried}
                if obs != exp:
                    return {'found': True, 'input': (fn, a), 'observed': repr(obs), 'expected': repr(exp), 'tried': tried}
    # call history: the caller keeps ONE bounds list and edits it in place between calls (landscape -> portrait)
    for t in (0.0, 0.25):
      travel = [[0.0, 0.0], [10.0, 8.0]]
      for step, (edit, pt) in enumerate([(None, [9.0, 1.0]), ((1, 0, 6.0), [9.0, 1.0]), ((1, 1, 12.0), [5.0, 11.0]), ((0, 0, 5.5), [5.0, 11.0]), (None, [5.75, 0.0])]):
        if edit:
            travel[edit[0]][edit[1]] = edit[2]
        if True:
            tried += 1
            want = oracle('point_in_bounds', [pt[0], pt[1], travel[0][0], travel[0][1], travel[1][0], travel[1][1], t])
            try:
                got = pu.point_in_bounds(list(pt), travel, t)
            except Exception as e:   # noqa
                return {'found': True, 'input': ('point_in_bounds after in-place edits of the same bounds list', pt, [list(r) for r in travel], t), 'observed': repr(e), 'expected': repr(want), 'tried': tried}
            if got != want:
                return {'found': True, 'input': ('point_in_bounds after in-place edits of the same bounds list', pt, [list(r) for r in travel], t),
                        'observed': repr(got), 'expected': repr(want), 'tried': tried}
    return {'found': False, 'tried': tried}
