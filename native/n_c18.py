"""Native replay/oracle for C18 (executed under /venv/bin/python against /repo/plotink)."""
import math
from plotink import plot_utils as pu


def clamp(v, l, u):
    if v > u:
        return u
    if v < l:
        return l
    return v


def oracle(fn, a):
    if fn == 'checkLimits':
        v, l, u = a
        return (clamp(v, l, u), (v < l or v > u))
    if fn == 'checkLimitsTol':
        v, l, u, t = a
        return (clamp(v, l, u), (v > u + t or v < l - t))
    if fn == 'constrainLimits':
        v, l, u = a
        return clamp(v, l, u)
    if fn == 'point_in_bounds':
        x, y, x0, y0, x1, y1, t = a
        return not (x > x1 + t or x < x0 - t) and not (y > y1 + t or y < y0 - t)
    raise KeyError(fn)


def call(fn, a):
    if fn == 'point_in_bounds':
        x, y, x0, y0, x1, y1, t = a
        return pu.point_in_bounds([x, y], [[x0, y0], [x1, y1]], t)
    return getattr(pu, fn)(*a)


def replay(payload):
    fn, a = payload['fn'], [float(x) for x in payload['args']]
    exp = oracle(fn, a)
    try:
        obs = call(fn, a)
    except Exception as e:
        return {'fails': True, 'observed': repr(e), 'expected': repr(exp)}
    return {'fails': obs != exp, 'observed': repr(obs), 'expected': repr(exp)}
