"""Executable device models (DESIGN 3.4), used by native replays and sanity runs.

EBB3Device: a conforming EBB in "future syntax" mode: every request gets exactly one reply line that begins with
the request name.  Implements SL/QL (32 byte slots), ST/QT (nickname), EM/QE/CU,50 (motor state).
"""

MS_OF_MODE = {1: 16, 2: 8, 3: 4, 4: 2, 5: 1}


class EBB3Device:
    def __init__(self, version='3.0.2', blanks=0):
        self.vars = [0] * 32
        self.nick = ''
        self.en1 = False
        self.en2 = False
        self.mode = 1          # EM-scale global microstep mode 1..5
        self.version = version
        self.blanks = blanks   # empty reads before every reply
        self.log = []
        self.fail = {}         # request ordinal -> 'err' | 'silent' | 'wrong'

    def name_of(self, t):
        if len(t) == 1 or (len(t) > 1 and t[1] == ','):
            return t[0]
        return t[0:2]

    def respond(self, data):
        text = data.decode('ascii')
        t = text.strip()
        k = len(self.log)
        self.log.append(t)
        mode = self.fail.get(k)
        if mode == 'silent':
            return []
        if mode == 'err':
            return [b''] * self.blanks + [b'!8 Err: simulated\r\n']
        if mode == 'wrong':
            return [b''] * self.blanks + [b'ZZ\r\n']
        if t in ('v', 'V'):
            return [b''] * self.blanks + [f'EBBv13_and_above EB Firmware Version {self.version}\r\n'.encode()]
        name = self.name_of(t)
        args = t.split(',')[1:]
        payload = ''
        try:
            if name == 'SL':
                v, i = int(args[0]), (int(args[1]) if len(args) > 1 else 0)
                if not (0 <= v <= 255 and 0 <= i <= 31):
                    return [b'!8 Err: range\r\n']
                self.vars[i] = v
            elif name == 'QL':
                i = int(args[0]) if args else 0
                payload = ',' + str(self.vars[i])
            elif name == 'ST':
                self.nick = t[3:] if t.startswith('ST,') else ''
            elif name == 'QT':
                payload = (',' + self.nick) if self.nick else ''
            elif name == 'EM':
                e1 = int(args[0])
                e2 = int(args[1]) if len(args) > 1 else None
                if 1 <= e1 <= 5:
                    self.mode = e1
                self.en1 = e1 != 0
                if e2 is not None:
                    self.en2 = e2 != 0
            elif name == 'QE':
                ms = MS_OF_MODE[self.mode]
                payload = f',{ms if self.en1 else 0},{ms if self.en2 else 0}'
            elif name == 'QS':
                payload = ',0,0'
            elif name == 'QC':
                payload = ',0394,0300'
            elif name == 'PI':
                payload = ',1'
            elif name == 'QG':
                payload = ',3E'
        except (ValueError, IndexError):
            return [b'!8 Err: syntax\r\n']
        return [b''] * self.blanks + [(name + payload + '\r\n').encode('ascii')]
