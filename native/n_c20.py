"""Native oracle / search for C20: xml_escape through lxml in three contexts; format_hms against exact rounding."""
import itertools
import random
import re
from fractions import Fraction as F

from lxml import etree
from plotink import text_utils as tu

SPECIALS = '&<>"\''


def round_trip(text):
    """(observed, expected) or None"""
    esc = tu.xml_escape(text)
    t = esc
    for e in ('&amp;', '&lt;', '&gt;', '&quot;', '&apos;'):
        t = t.replace(e, '')
    if any(c in t for c in SPECIALS):
        return f'escaped form {esc!r} has a bare special', 'none outside entities'
    try:
        el = etree.fromstring(f'<a d="{esc}" s=\'{esc}\'>{esc}</a>')
    except etree.XMLSyntaxError as e:
        return f'parser rejects {esc!r}: {e}', 'well-formed'
    got = (el.text or '', el.get('d'), el.get('s'))
    if got != (text, text, text):
        return f'read back {got!r}', repr(text)
    return None


def kf_c20_1(_payload):
    r1 = round_trip('a\rb')
    r2 = round_trip('a\tb')
    return {'reproduces': bool(r1) and bool(r2)}


def search_escape(_payload):
    alphabet = ['a', ' ', '&', '<', '>', '"', "'", ';', '#', 'amp', 'lt;', '&amp;', '&lt;', 'é', '&#38;', '&nbsp;',
                # XML-legal characters that are not "printable" / are blank in the Unicode sense
                '\u00a0', '\u2003', '\u00ad', '\u200b', '\u2028', '\u0085', '\U0001f600']
    for text in ('&' * 9, '"' * 9, 'A&B&C&D&E&F&G&H&I&J', '<a href="x">' * 4, 'layer "1 & 2"', "it's <b>&\"q\"</b> " * 3):
        r = round_trip(text)
        if r:
            return {'found': True, 'input': text, 'observed': r[0], 'expected': r[1]}
    for n in (1, 2, 3):
        for combo in itertools.product(alphabet, repeat=n):
            text = ''.join(combo)
            try:
                r = round_trip(text)
            except Exception as e:     # noqa
                return {'found': True, 'input': text, 'observed': f'raised {type(e).__name__}: {e}', 'expected': 'escaped text'}
            if r:
                return {'found': True, 'input': text, 'observed': r[0], 'expected': r[1]}
    return {'found': False}


def expected_hms(sec):
    if sec < 10:
        return None
    r = int(sec) + (1 if sec - int(sec) > F(1, 2) else 0)
    if sec - int(sec) == F(1, 2):
        r = int(sec) + (int(sec) % 2)
    if r < 60:
        return f'{r:02} Seconds'
    if r < 3600:
        return f'{r // 60}:{r % 60:02} (Minutes, seconds)'
    return f'{r // 3600}:{(r % 3600) // 60:02}:{r % 60:02} (Hours, minutes, seconds)'


def search_hms(_payload):
    rnd = random.Random(0)
    vals = [F(x) for x in ('0', '9.9994', '9.9996', '10', '59.4', '59.5', '59.6', '60', '3599.4', '3599.6', '3600', '86399.7', '10000000')]
    vals += [F(rnd.randint(0, 4000000), 1000) for _ in range(3000)]
    for v in vals:
        for ms in (False, True):
            arg = float(v * 1000) if ms else float(v)
            try:
                got = tu.format_hms(arg, ms)
            except Exception as e:   # noqa
                return {'found': True, 'input': (arg, ms), 'observed': f'raised {type(e).__name__}', 'expected': 'text'}
            sec = F(arg) / 1000 if ms else F(arg)
            exp = expected_hms(sec)
            if exp is None:
                if not re.fullmatch(r'\d+\.\d{3} Seconds', got) or abs(F(got.split()[0]) - sec) > F(1, 2000) + F(1, 10 ** 9):
                    return {'found': True, 'input': (arg, ms), 'observed': got, 'expected': f'{float(sec):.3f} Seconds'}
            elif got != exp:
                return {'found': True, 'input': (arg, ms), 'observed': got, 'expected': exp}
            if ms and got != tu.format_hms(arg / 1000.0):
                return {'found': True, 'input': (arg, ms), 'observed': got, 'expected': tu.format_hms(arg / 1000.0)}
    # a millisecond input gives the same text as the equivalent seconds -- also at the rounding steps (binary64 neighbours of x.5 s)
    import math
    for k in list(range(10, 70)) + [3599, 3600, 4099, 86399]:
        for base in ((k + 0.5) * 1000.0, k * 1000.0 + 499.5, (k + 0.0045) * 1.0):
            for arg in (base, math.nextafter(base, 0.0), math.nextafter(base, math.inf), math.nextafter(math.nextafter(base, 0.0), 0.0)):
                a, b = tu.format_hms(arg, True), tu.format_hms(arg / 1000.0)
                if a != b:
                    return {'found': True, 'input': (arg, True), 'observed': a, 'expected': f'{b} (= format_hms({arg / 1000.0!r}))'}
    return {'found': False}
