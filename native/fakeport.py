"""Scripted fake serial port used by every native replay of the serial-layer properties.

reads: list of items; each item is bytes (returned by readline), or the string 'EXC' (readline raises
SerialException), or 'EXC:<ClassName>'.  After the script is exhausted readline returns `default`.
writes: list of bytes handed to write().  write_exc_at: set of write ordinals (0-based) at which write raises.
"""
import serial


class FakePort:
    def __init__(self, reads=(), default=b'', write_exc_at=(), close_exc=False, responder=None):
        self.reads = list(reads)
        self.default = default
        self.writes = []
        self.n_reads = 0
        self.n_writes = 0
        self.write_exc_cls = {}
        plain = []
        for w in write_exc_at:
            if isinstance(w, (list, tuple)):
                plain.append(w[0])
                self.write_exc_cls[w[0]] = w[1]
            else:
                plain.append(w)
        self.write_exc_at = set(plain)
        self.closed = False
        self.close_exc = close_exc
        self.responder = responder      # optional callable(bytes written) -> list of reply items (device model)
        self.log = []

    def write(self, data):
        k = self.n_writes
        self.n_writes += 1
        if k in self.write_exc_at:
            self.log.append(('write-exc', data))
            cls = {'OSError': OSError, 'RuntimeError': RuntimeError}.get(self.write_exc_cls.get(k), serial.SerialException)
            raise cls('scripted write failure')
        self.writes.append(data)
        self.log.append(('write', data))
        if self.responder is not None:
            self.reads.extend(self.responder(data))
        return len(data)

    def readline(self):
        self.n_reads += 1
        if self.reads:
            item = self.reads.pop(0)
        else:
            item = self.default
        if isinstance(item, str) and item.startswith('EXC'):
            self.log.append(('read-exc',))
            cls = item.split(':', 1)[1] if ':' in item else 'SerialException'
            exc = {'SerialException': serial.SerialException, 'OSError': OSError, 'IOError': IOError,
                   'RuntimeError': RuntimeError,
                   'PortNotOpenError': serial.serialutil.PortNotOpenError}.get(cls, serial.SerialException)
            raise exc('scripted read failure') if cls != 'PortNotOpenError' else exc()
        self.log.append(('read', item))
        return item

    def close(self):
        self.closed = True
        if self.close_exc:
            raise serial.SerialException('scripted close failure')

    def reset_input_buffer(self):
        pass

    def flushInput(self):
        pass


def decode_reads(items):
    """JSON-friendly script -> list for FakePort: strings starting with 'EXC' stay, others are latin-1 bytes"""
    out = []
    for it in items:
        if isinstance(it, str) and it.startswith('EXC'):
            out.append(it)
        elif isinstance(it, str):
            out.append(it.encode('latin-1'))
        else:
            out.append(bytes(it))
    return out
