"""Native oracle / search for C09 with exact rational geometry."""
import itertools
import random
from fractions import Fraction as F

from plotink import plot_utils as pu


def d2(p, a, b):
    px, py, ax, ay, bx, by = map(F, (*p, *a, *b))
    dx, dy = bx - ax, by - ay
    L2 = dx * dx + dy * dy
    t = (px - ax) * dx + (py - ay) * dy
    if t <= 0:
        return (px - ax) ** 2 + (py - ay) ** 2
    if t >= L2:
        return (px - bx) ** 2 + (py - by) ** 2
    c = (px - ax) * dy - dx * (py - ay)
    return c * c / L2


def check_super(vs, tol):
    orig = [list(v) for v in vs]
    work = [o for o in orig]
    ids = [id(o) for o in orig]
    try:
        pu.supersample(work, tol)
    except Exception as e:   # noqa
        return f'raised {type(e).__name__}: {e}', 'no exception'
    idx = []
    for w in work:
        if id(w) not in ids:
            return 'result holds a new object', 'same vertex objects'
        idx.append(ids.index(id(w)))
    if any(a >= b for a, b in zip(idx, idx[1:])):
        return f'order {idx}', 'in-order subsequence'
    if len(vs) <= 2 or tol <= 0:
        return (None, None) if idx == list(range(len(vs))) else (f'kept {idx}', 'unchanged')
    if not idx or idx[0] != 0 or idx[-1] != len(vs) - 1:
        return f'kept {idx}', 'first and last kept'
    for a, b in zip(idx, idx[1:]):
        for j in range(a + 1, b):
            if d2(vs[j], vs[a], vs[b]) >= F(tol) ** 2:
                return f'kept {idx}: vertex {j} is {float(d2(vs[j], vs[a], vs[b])) ** 0.5} from segment {a}-{b}', f'< {tol}'
    return None, None


def search(payload):
    what = payload.get('what', 'pit')
    rnd = random.Random(payload.get('seed', 0))
    tried = 0
    pts = [(x, y) for x in range(0, 4) for y in range(0, 4)]
    if what == 'pit':
        for n in (3, 4):
            for combo in itertools.product(pts[::2], repeat=n):
                for tol in (0.5, 1, 1.5, 2.0):
                    tried += 1
                    want = all(d2(p, combo[0], combo[-1]) < F(tol) ** 2 for p in combo[1:-1])
                    got = pu.points_in_tolerance(combo, tol)
                    if got != want:
                        return {'found': True, 'input': (combo, tol), 'observed': got, 'expected': want, 'tried': tried}
    elif what == 'maxdist':
        for _ in range(3000):
            n = rnd.randint(3, 6)
            combo = [rnd.choice(pts) for _ in range(n)]
            tried += 1
            got = pu.max_dist_from_n_points(combo)
            want = max(d2(p, combo[0], combo[-1]) for p in combo[1:-1])
            if abs(got * got - float(want)) > 1e-9:
                return {'found': True, 'input': combo, 'observed': got, 'expected': float(want) ** 0.5, 'tried': tried}
            for tol in (0.5, 1, 2):
                if pu.points_in_tolerance(combo, tol) != (want < F(tol) ** 2):
                    return {'found': True, 'input': (combo, tol), 'observed': 'predicates disagree', 'expected': 'agreement', 'tried': tried}
    else:
        fixed = [([(0, 0), (10, 10), (10, 0)], 0.5), ([(0, 0), (5, 0.9), (10, 0), (20, -1.8)], 1.0), ([(0, 0), (1, 0), (2, 0)], 0), ([(0, 0), (1, 1)], 1)]
        for vs, tol in fixed:
            tried += 1
            o, e = check_super(vs, tol)
            if o:
                return {'found': True, 'input': (vs, tol), 'observed': o, 'expected': e, 'tried': tried}
        for k in range(6000):
            if k % 50 == 0:
                # call history in one process: an earlier call failed half-way on a damaged path and the caller carried on
                try:
                    pu.supersample([[0, 0], [1, 0], [2, 0], [3, 9], [4, 0], None, [6, 0], [7, 5]], 1.0)
                except Exception:    # noqa
                    pass
            n = rnd.randint(0, 7)
            vs = [rnd.choice(pts) for _ in range(n)]
            if rnd.random() < 0.3:
                vs = [(i * 5, round(rnd.uniform(-1, 1), 1)) for i in range(n)]
            tol = rnd.choice([-1, 0, 0.5, 1, 1.5, 3])
            tried += 1
            o, e = check_super(vs, tol)
            if o:
                return {'found': True, 'input': (vs, tol), 'observed': o, 'expected': e, 'tried': tried}
    return {'found': False, 'tried': tried}
