"""Native oracle / search for C19: discovery functions of both layers with comports() stubbed."""
import itertools
import random

from plotink import ebb_serial, ebb3_serial

NAME, VID = 'EiBotBoard', 'USB VID:PID=04D8:FD92'


def with_ports(ports, f):
    old = (ebb_serial.comports, ebb3_serial.comports)
    ebb_serial.comports = lambda: list(ports)
    ebb3_serial.comports = lambda: list(ports)
    try:
        return f()
    finally:
        ebb_serial.comports, ebb3_serial.comports = old


def first_oracle(ports):
    for p in ports:
        if p[1].startswith(NAME):
            return p[0]
    for p in ports:
        if p[2].startswith(VID):
            return p[0]
    return None


def match(layer, p, q):
    ql = q.lower()
    p0, p1, p2 = p[0].lower(), p[1].lower(), p[2].lower()
    c = ('ser=' + ql in p2) or ('(' + ql + ')' in p1) or p1[11:].startswith(ql) or p0.startswith(ql)
    if layer == 'legacy':
        c = c or ('snr=' + ql in p2)
    return c


def named_oracle(layer, ports, q):
    for p in ports:
        if match(layer, p, q):
            return p[0]
    return None


def sample_ports(rnd):
    pool = [
        ('COM3', 'USB Serial Device (COM3)', 'USB VID:PID=04D8:FD92 SER=East_EBB LOCATION=1-4'),
        ('COM7', 'USB Serial Device (COM7)', 'USB VID:PID=04D8:FD92 SER= LOCATION=1-5'),
        ('COM9', 'USB Serial Device (COM9)', 'USB VID:PID=04D8:FD92 SER=AB LOCATION=1-6'),
        ('/dev/cu.usbmodem1411', 'EiBotBoard,West EBB', 'USB VID:PID=04D8:FD92 SER=West EBB LOCATION=20-1'),
        ('/dev/ttyACM0', 'EiBotBoard', 'USB VID:PID=04D8:FD92 LOCATION=1-1'),
        ('/dev/ttyACM1', 'EiBotBoard,Alpha', 'USB VID:PID=04d8:fd92 LOCATION=1-2'),
        ('/dev/ttyACM2', 'Arduino Uno', 'USB VID:PID=2341:0043 SER=55330 LOCATION=1-3'),
        ('COM4', 'Hub with EiBotBoard inside', 'HUB USB VID:PID=04D8:FD92'),
        ('COM5', 'USB Serial Device (COM5)', 'USB VID:PID=04D8:FD92 SNR=OldName'),
        ('/dev/ttyS0', 'n/a', 'n/a'),
    ]
    k = rnd.randint(0, 5)
    return [rnd.choice(pool) for _ in range(k)]


def search(payload):
    what = payload.get('what', 'first')
    if what == 'roundtrip':
        return round_trip({'seed': payload.get('seed', 0), 'n': 300})
    rnd = random.Random(payload.get('seed', 0))
    tried = 0
    e_hist = ebb3_serial.EBB3()      # one object kept across the whole search: find_first must not depend on its earlier results
    for _ in range(1500):
        ports = sample_ports(rnd)
        tried += 1
        try:
            if what == 'first':
                a = with_ports(ports, ebb_serial.findPort)
                e = ebb3_serial.EBB3()
                with_ports(ports, e.find_first)
                with_ports(ports, e_hist.find_first)
                if e_hist.port_name != first_oracle(ports):
                    return {'found': True, 'input': ports, 'observed': f'find_first on an object used for {tried - 1} earlier searches: {e_hist.port_name!r}',
                            'expected': repr(first_oracle(ports)), 'tried': tried}
                want = first_oracle(ports)
                if a != want or e.port_name != want:
                    return {'found': True, 'input': ports, 'observed': f'findPort {a!r}, find_first {e.port_name!r}', 'expected': repr(want), 'tried': tried}
            elif what == 'list':
                want = [p for p in ports if p[1].startswith(NAME) or p[2].startswith(VID)] or None
                a = with_ports(ports, ebb_serial.listEBBports)
                b = with_ports(ports, ebb3_serial.list_ebb_ports)
                if a != want or b != want:
                    return {'found': True, 'input': ports, 'observed': f'{a!r} / {b!r}', 'expected': repr(want), 'tried': tried}
            else:
                for q in ('East_EBB', 'east_ebb', 'COM3', 'com7', 'West EBB', 'ALPHA', 'Alpha', 'OldName', '/dev/ttyACM0', 'zzz', 'AB', ''):
                    a = with_ports(ports, lambda: ebb_serial.find_named_ebb(q))
                    b = with_ports(ports, lambda: ebb3_serial.find_named(q))
                    wa, wb = named_oracle('legacy', ports, q), named_oracle('ebb3', ports, q)
                    if a != wa or b != wb:
                        return {'found': True, 'input': {'ports': ports, 'name': q}, 'observed': f'legacy {a!r}, ebb3 {b!r}', 'expected': f'legacy {wa!r}, ebb3 {wb!r}', 'tried': tried}
        except Exception as ex:     # noqa
            return {'found': True, 'input': ports, 'observed': f'raised {type(ex).__name__}: {ex}', 'expected': 'a result', 'tried': tried}
    return {'found': False, 'tried': tried}


def round_trip(payload):
    """the name list_named_ebbs reports for a board finds that board again (when no earlier port also matches)"""
    rnd = random.Random(payload.get('seed', 0))
    alphabet = ['a', 'B', ' ', '_', '4', 'Z']
    tried = distinct = 0
    seen = set()
    fixed_names = ['Straße', 'Ünit 7', 'East_Lab', 'a b', 'COM7x']
    for it in range(int(payload.get('n', 400))):
        name = fixed_names[it] if it < len(fixed_names) else ''.join(rnd.choice(alphabet) for _ in range(rnd.randint(0, 5)))
        templates = [
            ('COM3', 'USB Serial Device (COM3)', f'USB VID:PID=04D8:FD92 SER={name} LOCATION=1-4'),
            ('/dev/cu.usbmodem1', f'EiBotBoard,{name}', f'USB VID:PID=04D8:FD92 SER={name} LOCATION=20-1'),
            ('/dev/ttyACM0', f'EiBotBoard,{name}', 'USB VID:PID=04D8:FD92 LOCATION=1-1'),
            ('COM5', 'USB Serial Device (COM5)', f'USB VID:PID=04D8:FD92 SNR={name}'),
            ('/dev/ttyACM3', 'EiBotBoard', 'USB VID:PID=04D8:FD92 LOCATION=1-1'),
        ]
        other = ('/dev/ttyS0', 'n/a', 'n/a')
        for t in templates:
            ports = [other, t]
            for layer, lister, finder in (('legacy', ebb_serial.list_named_ebbs, ebb_serial.find_named_ebb),
                                          ('ebb3', ebb3_serial.list_named_ebbs, ebb3_serial.find_named)):
                tried += 1
                try:
                    names = with_ports(ports, lister)
                    if not names or len(names) != 1:
                        return {'found': True, 'input': {'ports': ports, 'layer': layer}, 'observed': f'names {names!r}', 'expected': 'one name', 'tried': tried}
                    # (upper-casing is only tried for ASCII names: 'ß'.upper() == 'SS' is not a case variant of the same text)
                    for variant in ((names[0], names[0].upper(), names[0].lower()) if names[0].isascii() else (names[0], names[0].lower())):
                        got = with_ports(ports, lambda: finder(variant))
                        if got != t[0]:
                            return {'found': True, 'input': {'ports': ports, 'layer': layer, 'reported_name': names[0], 'lookup': variant},
                                    'observed': repr(got), 'expected': repr(t[0]), 'tried': tried}
                    if names[0] != t[0]:
                        seen.add((layer, names[0], t[1][:12]))
                except Exception as ex:     # noqa
                    return {'found': True, 'input': {'ports': ports, 'layer': layer}, 'observed': f'raised {type(ex).__name__}: {ex}', 'expected': 'round trip', 'tried': tried}
    return {'found': False, 'tried': tried, 'distinct': len(seen), 'bound': f'{payload.get("n", 400)} random names (length <= 5 over {alphabet}) x 5 descriptor templates x 2 layers x 3 case variants'}
