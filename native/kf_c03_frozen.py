"""FROZEN snapshot of plotink.ebb_calc.calculate_lm as of /repo commit 8dde4a8 -- used ONLY to recognise the recorded known findings
KF-C03-1/2/3 (native/n_c03.py::classify): a disagreement with the recurrence oracle is attributed to a known finding only if the real
function returns exactly what this snapshot returns for the same input (the recorded wrong answer) and the input lies in the finding's
region.  Any other wrong answer -- a different value on the same input, or a wrong value where this snapshot is right -- is reported as
a VIOLATION.  This file is never used as a specification and never executed in place of the real code.  Verbatim copy, do not edit."""
import math
import mpmath


def calculate_lm(steps, rate, accel, accum="clear"):
    """
    Calculate final distance, time, and accumulator for an LM command move.
    Inputs: step count (integer),  initial rate (integer), acceleration (integer),
        initial accumulator value (Default: "clear", or integer)

    Returns: Duration of movement (integer, in 40 us ISR interval units), 
        move distance (integer), final accumulator value (integer).
        For invalid moves, returns 0, 0, 0.

    This calculation is valid for the revised LM command as of
    version 3.0 of the EBB firmware, handling new cases of moves that reverse direction.

    For legacy support, negative step count gives: steps = -steps, rate = -rate, accel = -accel
        negative input rate is not supported with a negative step count.
    """

    steps = int(steps)
    rate = int(rate)
    accel = int(accel)

    if steps == 0:
        return 0, 0, 0  # No steps to take; exit.

    if accel == 0 and rate == 0:
        return 0, 0, 0  # No move will be made if rate and accel are both zero.

    if steps < 0:   # Legacy support mode
        if rate < 0: # Negative initial rate not supported in legacy support mode.
            return 0, 0, 0
        steps = -steps
        rate = -rate
        accel = -accel

    mpmath.mp.dps = 30 # Set decimal precision of 30.

    # Account for difference in effective rate due to rounding of accel/2:
    rate_effective = rate + mpmath.mpf(accel) / 2 - int(accel/2)

    initial_rate_negative = False
    temp_rate = rate - int(accel / 2) + accel # Rate at step 1, as first added to accumulator
    if temp_rate < 0:
        initial_rate_negative = True
    elif temp_rate == 0:                    # Special case, if rate==0 during first step
        if accel < 0:                       # Then, check rate at second step.
            initial_rate_negative = True

    if accum == "clear": # Clear accumulator!
        if initial_rate_negative:
            accum = 2147483647 # 2^31 - 1
        else:
            accum = 0
    else:
        accum = int(accum) # Accept only integer, if not clearing

    if initial_rate_negative: # Adjusted accumulator value for "negative" moves
        accum_adj = accum - 2147483647 # 2^31 - 1
    else:
        accum_adj = accum

    # Calculate time when motion reverses direction of rotation, if it does so.
    # Begin with initial assumption that motor does not reverse direction: flag as t = -1.
    t_rev_star = -1.0   # Time, float, when rate = 0; i.e., when motor direction reverses
    t_rev = -1          # Integer timestep of last motor step in initial motion direction
    if (accel != 0) and (rate != 0) and ((accel > 0) != (rate > 0)):
        t_rev_star = 0.5 - rate / accel
        t_rev = math.floor(t_rev_star)

    s_rev = 0 # Position at direction reversal: S_Rev = (R0 T + 1/2A T^2 + C0) / 2^31
    if t_rev > 0:
        s_rev_star = rate_effective * t_rev + \
            mpmath.mpf('0.5') * accel * t_rev * t_rev + accum_adj

        s_rev_star = mpmath.fabs(s_rev_star / 2147483648) # divide by 2^31
        s_rev = int(mpmath.floor(s_rev_star))

    # Calculate final position. And, adjusted final position, with step position rounded
    #   "back" by 1, in cases where direction reverses. This correction means that we look
    #   for the *first* time step at the target position, not the *last*.
    if (t_rev <= 1) or (s_rev >= steps): # Reversal by first step or after end of move
        t_rev = -1 # Set flag: No direction reversal during this move.
        if initial_rate_negative:
            pos_final = -steps
        else:
            pos_final = steps
        pos_f_adj = pos_final
    elif s_rev == 0: # Case: Rate reverses direction at t>=1 but *before* first motor step.
        if accel > 0: # All motor steps have same sign as accel
            pos_final = steps
            pos_f_adj = pos_final - 1
        else:
            pos_final = -1 * steps
            pos_f_adj = pos_final + 1
    else: # Case: At least one motor step is made in each direction.
        reversed_steps = steps - s_rev # "forward" step count at reversal is given by s_rev.
        net_steps = s_rev - reversed_steps # i.e., net_steps = 2 * s_rev - steps_in
        if accel > 0: # Motion began negative, reversed with positive acceleration
            pos_final = -net_steps
            pos_f_adj = pos_final - 1
        else:
            pos_final = net_steps
            pos_f_adj = pos_final + 1

    # Case of no acceleration; constant rate: T = (2^31 * position - accumulator)/rate
    if accel == 0:
        time_final_star = (2147483648 * pos_final - mpmath.mpf(accum_adj))/mpmath.mpf(rate)
    else:   # Begin time calculation for moves with acceleration.
        # Method: Solve quadratic for T
        # Final accumulator value C* = ( C_0 + R_eff * T + A * T^2/2 )
        # -> T = (-b +/- sqrt(b^2 - 4 a c)) / 2 a,
        #   with a = accel/2, b = effective rate, C = C_0 - pos_f_adj * @^31

        time_final_star = 0 # Fallback, if no solutions are found.
        two_a = mpmath.mpf(accel) # 2 * a = 2 * accel/2
        c_factor = accum_adj - mpmath.mpf(pos_f_adj) * 2147483648
        discriminant = rate_effective * rate_effective - 2 * two_a * c_factor # b^2 - 4 a c

        neg_root = -1
        pos_root = -1
        time_final = -1

        # Roots must be positive and real, and not lead to a solution
        #   before the direction change, if there is a direction change.
        if (discriminant >= 0) and (two_a != 0):
            sq_factor = mpmath.sqrt(discriminant)
            neg_root = (-rate_effective - sq_factor ) / two_a
            pos_root = (-rate_effective + sq_factor ) / two_a

            pos_root = mpmath.ceil(pos_root)
            neg_root = mpmath.ceil(neg_root)

            # For moves that reverse direction, discard root before direction change.
            if (t_rev > 0) and (neg_root <= t_rev):
                neg_root = -1
            if (t_rev > 0) and (pos_root <= t_rev):
                pos_root = -1

        # If two remaining possible roots (same position at two times), pick the first.
        if neg_root > 0:
            time_final_star = neg_root
        if pos_root > 0:
            if neg_root > 0:
                if pos_root < neg_root:
                    time_final_star = pos_root
            else:
                time_final_star = pos_root

    time_final = int(mpmath.ceil(time_final_star)) # Round up to get actual time steps.

    # Total accumulator value at end of move, if it were not restricted to in  [0, 2^31):
    c_final = mpmath.mpf(accum) + rate_effective * time_final +\
                mpmath.mpf(accel) * time_final * time_final / 2

    c_final -= 2147483648 * mpmath.mpf(pos_final)

    return time_final, pos_final, int(c_final)
