"""Native replays and executable oracles for the EBB3 serial layer (C04, C05, C06, C16)."""
import itertools

import serial
from plotink import ebb3_serial, ebb3_motion

from fakeport import FakePort, decode_reads
from device import EBB3Device

EXEMPT = ('rb', 'r', 'bl')


def new_obj(port, err=None):
    e = ebb3_motion.EBBMotionWrap()
    e.port = port
    e.err = err
    return e


def name_of(t):
    if len(t) == 1 or t[1] == ',':
        return t[0]
    return t[0:2]


def request_oracle(method, cmd, reads, write_exc):
    """expected (result, err_is_set, n_reads, writes) of command/query/query_statusbyte on an unblocked object"""
    t = 'QG' if method == 'query_statusbyte' else cmd.strip()
    name = name_of(t)
    exp = {'writes': [] if write_exc else [(t + '\r').encode('ascii')]}
    if write_exc:
        exp.update(ok=False, reads=0, exc=True)
        return exp, name
    limit = 1 if method == 'query_statusbyte' else 26
    reply, n, exc = '', 0, False
    for item in itertools.chain(reads, itertools.repeat(b'')):
        if n >= limit:
            break
        n += 1
        if isinstance(item, str) and item.startswith('EXC'):
            exc = True
            break
        s = item.decode('ascii').strip()
        if s:
            reply = s
            break
    ok = (not exc) and reply.startswith(name) and 'Err:' not in reply
    exp.update(ok=ok, reads=n, exc=exc, reply=reply)
    return exp, name


def replay(payload):
    method = payload['method']
    args = payload.get('args', [])
    reads = decode_reads(payload.get('reads', []))
    wexc = payload.get('write_exc_at', [])
    port = FakePort(list(reads), write_exc_at=wexc)
    e = new_obj(port)
    # call history on the same object (seed C05-17: a retry allowance shared between requests): earlier requests, each answered
    # correctly by a slow board after k <= 25 empty reads, on their own scripted port; the measured request then runs on `port`
    for pm, pc, k in payload.get('prior', []):
        pn = name_of(pc.strip())
        good = (pn + (',1' if pm == 'query' else '') + '\r\n').encode('ascii')
        e.port = FakePort([b''] * k + [good])
        try:
            getattr(e, pm)(pc)
        except Exception as ex:     # noqa
            return {'fails': True, 'observed': f'prior request {pm}({pc!r}) raised {type(ex).__name__}: {ex}', 'expected': 'no exception'}
        if e.err is not None:
            return {'fails': True, 'observed': f'prior request {pm}({pc!r}), answered correctly after {k} empty reads, recorded {e.err!r}', 'expected': 'no error'}
    e.port = port
    cmd = args[0] if args else None
    exp, name = request_oracle(method, cmd, reads, bool(wexc))
    problems = []
    try:
        res = getattr(e, method)(*args)
    except Exception as ex:     # noqa
        return {'fails': True, 'observed': f'raised {type(ex).__name__}: {ex}', 'expected': 'no exception'}
    attempts = port.writes if not wexc else [x[1] for x in port.log if x[0] == 'write-exc']
    t = 'QG' if method == 'query_statusbyte' else cmd.strip()
    if attempts != [(t + '\r').encode('ascii')] or port.n_writes != 1:
        problems.append(f'write attempts {attempts} (n={port.n_writes})')
    if port.n_reads != exp['reads']:
        problems.append(f'reads consumed {port.n_reads} expected {exp["reads"]}')
    in_region = exp['exc'] and name.lower() in EXEMPT and method == 'command'
    if method == 'command':
        if in_region:
            pass
        elif res is not exp['ok'] or (e.err is None) != exp['ok']:
            problems.append(f'result {res!r}, err {"set" if e.err else "None"}; expected success={exp["ok"]}')
    elif method == 'query':
        if exp['ok']:
            r = exp['reply']
            ln = len(name)
            if len(r) > ln and r[ln] == ',':
                ln += 1
            if res != r[ln:] or e.err is not None:
                problems.append(f'result {res!r} err {e.err!r}; expected {r[ln:]!r} and no error')
        elif res is not None or e.err is None:
            problems.append(f'result {res!r} err {e.err!r}; expected None with the error recorded')
    else:
        if exp['ok']:
            if e.err is not None or not (res is None or isinstance(res, int)):
                problems.append(f'result {res!r} err {e.err!r} on a good QG reply')
        elif res is not None or e.err is None:
            problems.append(f'result {res!r} err {e.err!r}; expected None with the error recorded')
    return {'fails': bool(problems), 'observed': '; '.join(problems) or repr(res), 'expected': repr(exp)}


def kf_c05_1(_payload):
    """witness of known finding KF-C05-1: command('RB') + serial exception at the write -> True, err None"""
    port = FakePort([], write_exc_at=[0])
    e = new_obj(port)
    try:
        r = e.command('RB')
    except Exception:
        return {'reproduces': False}
    return {'reproduces': (r is True and e.err is None)}


def search_request(payload):
    """directed concrete search: request shapes x reply streams, against the request oracle"""
    method = payload['method']
    cmds = ['QG', ' QG ', 'V', 'R,1', 'S,2,3', 'SM,1,0,0', 'qs', 'X', 'T3,1,2', 'S2,0,4', 'L3']
    if method == 'query_statusbyte':
        cmds = [None]
    streams = []
    for b in (0, 1, 2, 24, 25, 26):
        for tail in ([b'%s\r\n'], [b'%s,1\r\n'], [b'%sX\r\n'], [b'ZZ\r\n'], [b'%s Err: 1\r\n'], ['EXC'], [],
                     # payloads that begin with a comma or blank; a refused / foreign reply FOLLOWED by a well-formed one
                     [b'%s,,x\r\n'], [b'%s,\r\n'], [b'%s, x\r\n'], [b'ZZ\r\n', b'%s\r\n'], [b'!8 Err: x\r\n', b'%s,1\r\n'],
                     [b'%s Err: 1\r\n', b'%s\r\n'], [b'ZZ\r\n', b'', b'%s\r\n'],
                     # the name occurs, but not at the start; only the FIRST letter of a two-character name matches
                     [b'?%s,1\r\n'], [b'X%s\r\n'], [b'%s,Wow!\r\n'], [b'%s,error free\r\n'], [b'QG,%s\r\n'], [b'@1P\r\n'], [b'@1,7\r\n'], [b'@1\r\n']):
            streams.append([b''] * b + tail)
    for cmd in cmds:
        t = 'QG' if cmd is None else cmd.strip()
        nm = name_of(t).encode()
        for st in streams:
            reads = [(x % nm if isinstance(x, bytes) and b'%s' in x else (x.replace(b'@1', nm[:1]) if isinstance(x, bytes) else x)) for x in st]
            enc = [x.decode('latin-1') if isinstance(x, bytes) else x for x in reads]
            for wexc in ([], [0]):
                p = {'method': method, 'args': ([] if cmd is None else [cmd]), 'reads': enc, 'write_exc_at': wexc}
                out = replay(p)
                if out['fails']:
                    return {'found': True, 'fails': True, 'input': p, 'observed': out['observed'], 'expected': out['expected']}
    # histories: slow but correct earlier replies on the same object, then a slow (or prompt) correct reply to the measured request
    histories = [[('query', 'QG', 12), ('query', 'V', 12)], [('query', 'QG', 25)], [('command', 'SM,1,0,0', 20), ('query', 'QG', 10)],
                 [('query', 'QG', 9), ('command', 'R,1', 9), ('query', 'QG', 9)], [('command', 'X', 25), ('command', 'X', 25)]]
    for cmd in cmds[:4]:
        t = 'QG' if cmd is None else cmd.strip()
        nm = name_of(t)
        for hist in histories:
            for b in (0, 1, 12, 24, 25):
                for tail in (['%s\r\n' % nm], ['%s,1\r\n' % nm]):
                    p = {'method': method, 'args': ([] if cmd is None else [cmd]), 'reads': [''] * b + tail, 'write_exc_at': [], 'prior': hist}
                    out = replay(p)
                    if out['fails']:
                        return {'found': True, 'fails': True, 'input': p, 'observed': out['observed'], 'expected': out['expected']}
    return {'found': False}


def replay_caller(payload):
    """run a request method against the conforming device, failing the requests as scripted in 'outcomes'
    (cmd-ok / cmd-fail / cmd-wfail / qry-ok / qry-fail / qry-wfail, in order of issue)"""
    meth = payload['method']
    args = payload.get('args', [])
    outcomes = payload.get('outcomes', [])
    dev = EBB3Device()
    wexc = []
    for k, o in enumerate(outcomes):
        if o.endswith('-fail'):
            dev.fail[k] = 'err'
        elif o.endswith('-wfail'):
            wexc.append(k)
    port = FakePort([], responder=dev.respond, write_exc_at=wexc)
    e = new_obj(port)
    fv = payload.get('fail_value')
    if isinstance(fv, list):
        fv = tuple(fv)
    failed = any(not o.endswith('-ok') for o in outcomes)
    try:
        res = getattr(e, meth)(*args)
    except Exception as ex:    # noqa
        return {'fails': True, 'observed': f'raised {type(ex).__name__}: {ex}', 'expected': 'no exception'}
    problems = []
    if failed:
        first_fail = min(k for k, o in enumerate(outcomes) if not o.endswith('-ok'))
        if port.n_writes > first_fail + 1:
            problems.append(f'{port.n_writes - first_fail - 1} more transmission(s) after the request that failed (request #{first_fail})')
        if e.err is None:
            problems.append('err not set after a failed request')
        if res != fv or (fv is False and res is not False) or (fv is None and res is not None):
            problems.append(f'returned {res!r}, documented failure value {fv!r}')
    return {'fails': bool(problems), 'observed': '; '.join(problems) or repr(res), 'expected': f'failure value {fv!r} and err set' if failed else 'no failure'}


def run_method(payload):
    """generic: state (port present?, err), method, args, against an acknowledging device; returns what happened"""
    dev = EBB3Device()
    st = payload.get('state', {})
    port = FakePort([], responder=dev.respond) if st.get('port', True) else None
    e = new_obj(port, st.get('err'))
    try:
        res = getattr(e, payload['method'])(*payload.get('args', []))
        raised = None
    except Exception as ex:   # noqa
        res, raised = None, f'{type(ex).__name__}: {ex}'
    return {'result': repr(res), 'raised': raised, 'err': e.err, 'port_present': e.port is not None,
            'writes': [w.decode('latin-1') for w in (port.writes if port else [])],
            'board': {'vars': dev.vars, 'nick': dev.nick, 'en1': dev.en1, 'en2': dev.en2, 'mode': dev.mode}}


def replay_latch(payload):
    """call a request method on a blocked object: nothing may reach the port, err/port unchanged, failure value"""
    st = payload.get('state', {})
    port = FakePort([], default=b'OK\r\n') if st.get('port', True) else None
    e = new_obj(port, st.get('err'))
    fv = payload.get('fail_value')
    if isinstance(fv, list):
        fv = tuple(fv)
    try:
        res = getattr(e, payload['method'])(*payload.get('args', []))
    except Exception as ex:    # noqa
        return {'fails': True, 'observed': f'raised {type(ex).__name__}: {ex}', 'expected': 'no exception'}
    problems = []
    if port is not None and (port.n_writes or port.n_reads or port.closed):
        problems.append(f'port touched: writes={port.writes} reads={port.n_reads} closed={port.closed}')
    if e.err != st.get('err'):
        problems.append(f'err changed to {e.err!r}')
    if e.port is not port:
        problems.append('port attribute changed')
    if res != fv or type(res) is not type(fv):
        problems.append(f'returned {res!r}, documented failure value {fv!r}')
    return {'fails': bool(problems), 'observed': '; '.join(problems) or repr(res), 'expected': f'{fv!r}, nothing transmitted'}


def replay_overwrite(payload):
    """history: latch an error, disconnect, connect again to a board with old firmware (and to a silent one);
    the first message must survive"""
    import plotink.ebb3_serial as es
    results = []
    for second in ([b'EBBv13_and_above EB Firmware Version 2.8.1\r\n'], [b'', b''], [b'EBBv13_and_above EB Firmware Version 3.0.2\r\n', b'CU\r\n', b'QT\r\n']):
        e = ebb3_motion.EBBMotionWrap()
        e.port = FakePort([b'!8 Err: boom\r\n'])
        e.command('SM,1,0,0')
        first = e.err
        e.disconnect()
        fp = FakePort(list(second))
        old_serial, old_comports = es.serial.Serial, es.comports
        es.serial.Serial = lambda *a, **k: fp
        es.comports = lambda: [('/dev/ttyACM0', 'EiBotBoard', 'USB VID:PID=04D8:FD92')]
        try:
            e.connect()
        except Exception as ex:     # noqa
            return {'fails': True, 'observed': f'connect raised {type(ex).__name__}', 'expected': 'no exception'}
        finally:
            es.serial.Serial, es.comports = old_serial, old_comports
        if e.err != first:
            return {'fails': True, 'observed': f'err replaced by {e.err!r}', 'expected': f'{first!r}', 'confirmed': True}
        results.append(e.err)
    return {'fails': False, 'observed': 'first message kept', 'expected': 'first message kept'}


def _default_args(fn):
    import inspect
    out = []
    for name, prm in inspect.signature(fn).parameters.items():
        if name == 'self':
            continue
        if prm.default is not inspect.Parameter.empty:
            continue
        out.append('QG' if name in ('cmd', 'qry', 'nickname', 'message', 'version_string', 'ebb_version_string') else 1)
    return out


FAILVAL = {'command': False, 'reboot': False, 'bootload': False, 'write_nickname': False, 'var_write': False, 'var_write_int32': False,
           'query_current': (None, None)}
SKIP = ('connect', 'disconnect', 'record_error', 'find_first', 'parse_version', 'min_version')


def search_latch(_payload):
    """every public request method on a blocked object (three states), default arguments"""
    tried = 0
    names = [n for n in dir(ebb3_motion.EBBMotionWrap) if not n.startswith('_') and callable(getattr(ebb3_motion.EBBMotionWrap, n)) and n not in SKIP]
    for name in names:
        args = _default_args(getattr(ebb3_motion.EBBMotionWrap, name))
        variants = [args]
        if name in ('command', 'query'):
            variants = [[x] for x in ('R', 'RB', 'bl', 'QG', 'SM,1,0,0', ' r ')]
        for a in variants:
            for st in ({'port': False, 'err': None}, {'port': True, 'err': 'first error'}, {'port': False, 'err': 'first error'}):
                tried += 1
                out = replay_latch({'method': name, 'args': a, 'state': st, 'fail_value': FAILVAL.get(name)})
                if out['fails']:
                    return {'found': True, 'input': {'method': name, 'args': a, 'state': st}, 'observed': out['observed'], 'expected': out['expected'], 'tried': tried}
    out = replay_overwrite({})
    if out.get('fails'):
        return {'found': True, 'input': 'latch an error, disconnect, connect again', 'observed': out['observed'], 'expected': out['expected'], 'tried': tried}
    return {'found': False, 'tried': tried}


def search_callers(_payload):
    """every public request method against the conforming device with its k-th request failing (Err reply / write exception)"""
    tried = 0
    names = [n for n in dir(ebb3_motion.EBBMotionWrap) if not n.startswith('_') and callable(getattr(ebb3_motion.EBBMotionWrap, n))
             and n not in SKIP + ('command', 'query', 'query_statusbyte', 'reboot', 'bootload')]
    for name in names:
        args = _default_args(getattr(ebb3_motion.EBBMotionWrap, name))
        if name == 'motors_enable':
            args = [0, 2]
        if name == 'timed_pause':
            args = [2400]
        for k in range(0, 5):
            for kind in ('fail', 'wfail'):
                outcomes = ['x-ok'] * k + [f'x-{kind}']
                tried += 1
                out = replay_caller({'method': name, 'args': args, 'outcomes': outcomes, 'fail_value': FAILVAL.get(name)})
                if out['fails'] and 'err not set' not in out['observed']:
                    return {'found': True, 'input': {'method': name, 'args': args, 'failing_request': k, 'kind': kind}, 'observed': out['observed'], 'expected': out['expected'], 'tried': tried}
    return {'found': False, 'tried': tried}
