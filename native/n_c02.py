"""Native oracle / replay for C02 and C17: the third-order firmware recurrence, tick by tick (closed form for long moves)."""
import random
import mpmath
from plotink import ebb_calc

M = 2 ** 31


def tz(a, b):
    return abs(a) // b * (1 if a >= 0 else -1)


def r0_of(rate, accel, jerk):
    return rate - tz(accel, 2) + tz(jerk, 6)


def rate_at(k, rate, accel, jerk):
    return r0_of(rate, accel, jerk) + k * accel + jerk * k * (k - 1) // 2


def clear_a0(rate, accel, jerk):
    for k in (1, 2, 3):
        r = rate_at(k, rate, accel, jerk)
        if r != 0:
            return M - 1 if r < 0 else 0
    return 0


def recurrence(T, rate, accel, jerk, accum):
    a0 = clear_a0(rate, accel, jerk) if accum == 'clear' else int(accum)
    r = r0_of(rate, accel, jerk)
    if T <= 200000:
        S, a = a0, accel
        for _ in range(T):
            r += a
            a += jerk
            S += r
    else:
        S = a0 + T * r + accel * T * (T + 1) // 2 + jerk * (T - 1) * T * (T + 1) // 6
    return (S // M, S % M)


def replay(payload):
    fn = payload.get('fn', 'move_dist_t3')
    T, rate, accel, jerk = payload['time'], payload['rate'], payload['accel'], payload['jerk']
    accum = payload.get('accum', 'clear')
    mpmath.mp.dps = int(payload.get('dps', 15))
    try:
        if fn == 'move_dist_t3':
            exp = recurrence(T, rate, accel, jerk, accum)
            obs = ebb_calc.move_dist_t3(T, rate, accel, jerk, accum)
        elif fn == 'rate_t3':
            exp = rate_at(T, rate, accel, jerk)
            obs = ebb_calc.rate_t3(T, rate, accel, jerk)
        else:
            return replay_max(payload)
    except Exception as e:     # noqa
        return {'fails': True, 'observed': repr(e), 'expected': 'a value'}
    return {'fails': obs != exp, 'observed': repr(obs), 'expected': repr(exp)}


def true_peak(T, rate, accel, jerk):
    if T <= 300000:
        return max(abs(rate_at(k, rate, accel, jerk)) for k in range(1, T + 1))
    # parabola: check the ends and the integers around the vertex
    cands = {1, T}
    if jerk != 0:
        v = 0.5 - accel / jerk
        for k in range(int(v) - 3, int(v) + 4):
            if 1 <= k <= T:
                cands.add(k)
    return max(abs(rate_at(k, rate, accel, jerk)) for k in cands)


def replay_max(payload):
    T, rate, accel, jerk = payload['time'], payload['rate'], payload['accel'], payload['jerk']
    try:
        obs = ebb_calc.max_rate_t3(T, rate, accel, jerk)
    except Exception as e:     # noqa
        return {'fails': True, 'observed': repr(e), 'expected': 'a value'}
    peak = true_peak(T, rate, accel, jerk)
    first, last = abs(rate_at(1, rate, accel, jerk)), abs(rate_at(T, rate, accel, jerk))
    bad = []
    if obs > peak:
        bad.append('exceeds the true peak')
    if obs < first:
        bad.append('below |rate at tick 1|')
    if obs < last:
        bad.append('below |rate at tick T|')
    if peak - obs > abs(jerk):
        bad.append(f'short of the true peak by {peak - obs} > |jerk|')
    return {'fails': bool(bad), 'observed': f'{obs} ({"; ".join(bad)})' if bad else repr(obs),
            'expected': f'within [{max(first, last, peak - abs(jerk))}, {peak}]'}


def search(payload):
    rnd = random.Random(payload.get('seed', 0))
    fn = payload.get('fn', 'move_dist_t3')
    dps = int(payload.get('dps', 5))
    kinds = payload.get('accum_kinds', ['int', 'clear'])
    for i in range(int(payload.get('n', 4000))):
        tm = rnd.choice([1, 1, 2, 3, 6, 12, 20])
        T = rnd.randint(1, 2 ** tm) if rnd.random() < 0.8 else rnd.choice([1, 2, 3])
        jerk = rnd.choice([0, rnd.randint(-7, 7), rnd.randint(-2 ** 20, 2 ** 20)])
        if abs(jerk) * T > 2 ** 31:
            jerk = rnd.randint(-2 ** 31 // T, 2 ** 31 // T)
        accel = rnd.choice([rnd.randint(-7, 7), rnd.randint(-2 ** 28, 2 ** 28)])
        rate = rnd.choice([rnd.randint(-9, 9), rnd.randint(-2 ** 30, 2 ** 30)])
        z = rnd.random()
        if z < 0.3:
            rate = tz(accel, 2) - tz(jerk, 6) - accel                   # r_1 == 0
            if z < 0.15:
                accel = -jerk                                          # r_2 == 0 too (after recomputing rate)
                rate = tz(accel, 2) - tz(jerk, 6) - accel
        accum = 'clear' if rnd.choice(kinds) == 'clear' else rnd.choice([0, 1, M - 1, rnd.randint(0, M - 1)])
        p = {'fn': fn, 'time': T, 'rate': rate, 'accel': accel, 'jerk': jerk, 'accum': accum, 'dps': dps}
        out = replay(p)
        if out['fails']:
            return {'found': True, 'input': p, 'observed': out['observed'], 'expected': out['expected'], 'tried': i + 1}
    return {'found': False}


def search_max(payload):
    rnd = random.Random(payload.get('seed', 0))
    fixed = [(41, -100000000, 110694928, -5426265), (2, 1073741824, 400000000, 0), (41, 455698567, 110694928, -5426265)]
    cases = list(fixed)
    for i in range(int(payload.get('n', 20000))):
        T = rnd.choice([1, 2, 3, rnd.randint(2, 60), rnd.randint(2, 3000)])
        jerk = rnd.choice([0, rnd.randint(-9, 9), rnd.randint(-2 ** 22, 2 ** 22)])
        accel = rnd.choice([rnd.randint(-9, 9), rnd.randint(-2 ** 27, 2 ** 27)])
        if jerk != 0 and rnd.random() < 0.6:
            v = rnd.uniform(-2, T + 2)                      # put the vertex near/inside the move
            accel = int(jerk * (0.5 - v))
        rate = rnd.choice([rnd.randint(-9, 9), rnd.randint(-2 ** 30, 2 ** 30)])
        cases.append((T, rate, accel, jerk))
    for T, rate, accel, jerk in cases:
        p = {'fn': 'max_rate_t3', 'time': T, 'rate': rate, 'accel': accel, 'jerk': jerk}
        out = replay_max(p)
        if out['fails']:
            return {'found': True, 'input': p, 'observed': out['observed'], 'expected': out['expected']}
    return {'found': False}
