"""Native oracle / directed search for C07: legacy ebb_serial.query / command / bootload against scripted streams."""
import itertools
import logging
logging.disable(logging.CRITICAL)

from plotink import ebb_serial, ebb_motion

from fakeport import FakePort

NO_OK = ("a", "i", "mr", "pi", "qm", "qg", "v")


def oracle_query(cmd, reads, wexc):
    """expected (result, reads consumed) for one query"""
    if wexc:
        return '', 0
    it = itertools.chain(reads, itertools.repeat(b''))
    n = 0
    data = ''
    for _ in range(101):
        item = next(it)
        n += 1
        if isinstance(item, str):
            return '', n
        if item:
            data = item.decode('ascii')
            break
    if cmd.split(',')[0].strip().lower() not in NO_OK:
        for _ in range(101):
            item = next(it)
            n += 1
            if isinstance(item, str) or item:
                break
    return data, n


def one_query(cmd, reads, wexc=False):
    port = FakePort(list(reads), write_exc_at=[0] if wexc else [])
    exp, nreads = oracle_query(cmd, reads, wexc)
    try:
        res = ebb_serial.query(port, cmd)
    except Exception as ex:     # noqa
        return f'raised {type(ex).__name__}: {ex}', f'{exp!r} without exception'
    prob = []
    if res != exp or not isinstance(res, str):
        prob.append(f'returned {res!r}')
    if port.n_reads != nreads:
        prob.append(f'consumed {port.n_reads} reads (expected {nreads})')
    if port.n_writes != 1 or (not wexc and port.writes != [cmd.encode('ascii')]):
        prob.append(f'writes {port.writes}')
    return ('; '.join(prob) if prob else None), f'{exp!r}, {nreads} reads, one write'


def one_command(cmd, reads, wexc=False):
    port = FakePort(list(reads), write_exc_at=[0] if wexc else [])
    try:
        res = ebb_serial.command(port, cmd)
    except Exception as ex:     # noqa
        return f'raised {type(ex).__name__}: {ex}', 'None without exception'
    n = 0
    if not wexc:
        for item in itertools.chain(reads, itertools.repeat(b'')):
            if n >= 101:
                break
            n += 1
            if isinstance(item, str) or item:
                break
    prob = []
    if res is not None:
        prob.append(f'returned {res!r}')
    if port.n_reads != n:
        prob.append(f'consumed {port.n_reads} reads (expected {n})')
    if port.n_writes != 1:
        prob.append(f'{port.n_writes} writes')
    return ('; '.join(prob) if prob else None), f'None, {n} reads, one write'


def streams():
    for b1 in (0, 1, 2, 60, 99, 100, 101):
        for b2 in (0, 1, 60, 100, 101):
            yield [b''] * b1 + [b'DATA,1\r\n'] + [b''] * b2 + [b'OK\r\n']
        yield [b''] * b1 + ['EXC']
        yield [b''] * b1 + [b'DATA\r\n'] + ['EXC']
        yield [b''] * b1 + [b'!8 Err: x\r\n', b'OK\r\n']
    yield []


def search(payload):
    fn = payload.get('fn', 'query')
    if fn == 'bootload':
        for wexc in (False, True):
            port = FakePort([], write_exc_at=[0] if wexc else [])
            try:
                r = ebb_serial.bootload(port)
            except Exception as ex:     # noqa
                return {'found': True, 'input': {'wexc': wexc}, 'observed': f'raised {type(ex).__name__}', 'expected': 'bool'}
            if r is not (not wexc) or port.n_reads or port.n_writes != 1:
                return {'found': True, 'input': {'wexc': wexc}, 'observed': f'{r!r} reads={port.n_reads} writes={port.writes}', 'expected': f'{not wexc}'}
        return {'found': False}
    cmds = ['QP\r', 'QB\r', 'V\r', 'v\r', 'QG\r', 'PI,E,0\r', ' qm \r', 'QC\r', 'A\r', 'I\r', 'MR\r', 'SM,1,0,0\r', 'QS\r']
    for cmd in cmds:
        for st in streams():
            for wexc in (False, True):
                obs, exp = (one_query if fn == 'query' else one_command)(cmd, st, wexc)
                if obs:
                    enc = [x.decode('latin-1') if isinstance(x, bytes) else x for x in st]
                    short = enc if len(enc) < 8 else [f'{enc.count("")} x empty'] + [x for x in enc if x != '']
                    return {'found': True, 'input': {'fn': fn, 'cmd': cmd, 'reads': short, 'write_exc': wexc}, 'observed': obs, 'expected': exp}
    # alignment over a history
    if fn == 'query':
        reads = []
        plan = [('QS\r', b'1,2\r\n', True, 60, 60), ('QG\r', b'3E\r\n', False, 100, 0), ('QP\r', b'1\r\n', True, 1, 100), ('V\r', b'EBB\r\n', False, 0, 0)]
        for cmd, data, ok, b1, b2 in plan:
            reads += [b''] * b1 + [data] + ([b''] * b2 + [b'OK\r\n'] if ok else [])
        port = FakePort(reads)
        for cmd, data, ok, b1, b2 in plan:
            try:
                r = ebb_serial.query(port, cmd)
            except Exception as ex:   # noqa
                return {'found': True, 'input': {'history': [p[0] for p in plan]}, 'observed': f'raised {type(ex).__name__}', 'expected': 'aligned replies'}
            if r != data.decode():
                return {'found': True, 'input': {'history': [p[0] for p in plan], 'gaps': [(p[3], p[4]) for p in plan]},
                        'observed': f'query {cmd!r} returned {r!r}', 'expected': repr(data.decode())}
    return {'found': False}


def observations(_payload):
    notes = []
    try:
        ebb_motion.QueryPenUp(FakePort([]))
    except IndexError:
        notes.append('observation (no listed property covers the legacy consumers of query): ebb_motion.QueryPenUp raises '
                     'IndexError when its query times out (query returned "")')
    except Exception:      # noqa
        pass
    return {'notes': notes}
