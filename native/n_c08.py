"""Native oracle for C08: exact-rational Liang-Barsky clip compared with plot_utils.clip_segment on small rational inputs."""
import itertools
import random
from fractions import Fraction as F

from plotink import plot_utils as pu


def exact_clip(x1, y1, x2, y2, x0, y0, xm, ym):
    t0, t1 = F(0), F(1)
    dx, dy = x2 - x1, y2 - y1
    for p, q in ((-dx, x1 - x0), (dx, xm - x1), (-dy, y1 - y0), (dy, ym - y1)):
        if p == 0:
            if q < 0:
                return None
        else:
            r = F(q) / F(p)
            if p < 0:
                if r > t1:
                    return None
                t0 = max(t0, r)
            else:
                if r < t0:
                    return None
                t1 = min(t1, r)
    if t0 > t1:
        return None
    return t0, t1


def check(vals, tol_scale=1e-9):
    x1, y1, x2, y2, x0, y0, xm, ym = [F(float(v)) if not isinstance(v, str) or '/' not in v else F(v) for v in vals]
    exp = exact_clip(x1, y1, x2, y2, x0, y0, xm, ym)
    try:
        acc, seg = pu.clip_segment([[float(x1), float(y1)], [float(x2), float(y2)]], [[float(x0), float(y0)], [float(xm), float(ym)]])
    except Exception as e:    # noqa
        return f'raised {type(e).__name__}: {e}', 'no exception'
    scale = max(1.0, *[abs(float(F(v))) for v in vals])
    tol = 1e-9 * scale
    if exp is None:
        if acc:
            # acceptance of a segment that misses the rectangle by less than the tolerance is allowed; the returned ends must
            # still be within tolerance of the rectangle
            if all(float(x0) - tol <= gx <= float(xm) + tol and float(y0) - tol <= gy <= float(ym) + tol for gx, gy in seg):
                return None, None
            return f'accepted {seg}', 'reject (no part inside)'
        return None, None
    t0, t1 = exp
    if not acc:
        # rejection is allowed only if nothing is inside by more than the tolerance: a single touching point
        length = (float((x2 - x1) ** 2 + (y2 - y1) ** 2)) ** 0.5
        if float(t1 - t0) * length <= tol:
            return None, None
        return 'rejected', f'accept with t in [{float(t0)}, {float(t1)}]'
    want = [[float(x1 + t0 * (x2 - x1)), float(y1 + t0 * (y2 - y1))], [float(x1 + t1 * (x2 - x1)), float(y1 + t1 * (y2 - y1))]]
    for (gx, gy), (wx, wy) in zip(seg, want):
        if abs(gx - wx) > tol or abs(gy - wy) > tol:
            return f'accepted {seg}', f'{want}'
    return None, None


def replay(payload):
    obs, exp = check(payload['vals'])
    return {'fails': obs is not None, 'observed': obs, 'expected': exp}


def search(payload):
    rnd = random.Random(payload.get('seed', 0))
    rect = ['0', '0', '10', '10']
    pts = [-5, -3, -1, 0, 1, 5, 9, 10, 11, 13, 15]
    for x1, y1, x2, y2 in itertools.product(pts, repeat=4):
        v = [str(x1), str(y1), str(x2), str(y2)] + rect
        obs, exp = check(v)
        if obs:
            return {'found': True, 'fails': True, 'input': v, 'observed': obs, 'expected': exp}
    # call history: the caller keeps ONE bounds list and edits it in place between clips (landscape page -> portrait page)
    page = [[0.0, 0.0], [11.0, 8.5]]
    for edit, seg in [(None, [[-2.0, 4.0], [14.0, 4.0]]), ((1, [8.5, 11.0]), [[-2.0, 4.0], [14.0, 4.0]]), ((1, [8.5, 11.0]), [[4.0, -3.0], [4.0, 14.0]]),
                      ((0, [2.0, 2.0]), [[0.0, 5.0], [9.0, 5.0]]), ((1, [3.0, 3.0]), [[0.0, 2.5], [9.0, 2.5]])]:
        if edit:
            page[edit[0]][0], page[edit[0]][1] = edit[1]
        exp = exact_clip(*[F(x) for x in (seg[0][0], seg[0][1], seg[1][0], seg[1][1], page[0][0], page[0][1], page[1][0], page[1][1])])
        try:
            acc, got = pu.clip_segment([list(seg[0]), list(seg[1])], page)
        except Exception as e:    # noqa
            return {'found': True, 'fails': True, 'input': {'segment': seg, 'bounds (edited in place)': [list(r) for r in page]}, 'observed': f'raised {type(e).__name__}', 'expected': 'a result'}
        want = None if exp is None else [[float(F(seg[0][0]) + t * (F(seg[1][0]) - F(seg[0][0]))), float(F(seg[0][1]) + t * (F(seg[1][1]) - F(seg[0][1])))] for t in exp]
        ok = (not acc) if want is None else (acc and all(abs(g[0] - w[0]) < 1e-8 and abs(g[1] - w[1]) < 1e-8 for g, w in zip(got, want)))
        if not ok:
            return {'found': True, 'fails': True, 'input': {'segment': seg, 'bounds (one list edited in place between calls)': [list(r) for r in page]},
                    'observed': f'{acc}, {got}', 'expected': f'{want}'}
    for _ in range(20000):
        v = [str(F(rnd.randint(-40, 40), rnd.choice([1, 2, 3, 4]))) for _ in range(4)]
        a, b, c, d = sorted([rnd.randint(-10, 10), rnd.randint(-10, 10)]), None, None, None
        xs = sorted([rnd.randint(-10, 10), rnd.randint(-10, 10)])
        ys = sorted([rnd.randint(-10, 10), rnd.randint(-10, 10)])
        v += [str(xs[0]), str(ys[0]), str(xs[1]), str(ys[1])]
        obs, exp = check(v)
        if obs:
            return {'found': True, 'fails': True, 'input': v, 'observed': obs, 'expected': exp}
    return {'found': False}


def float_sweep(payload):
    """binary64 stand-in (bounded): segments whose supporting line passes through a corner of a rectangle with non-dyadic
    coordinates -- the inputs on which the real-arithmetic proof says nothing (repeated clipping at the precision limit, failsafe exit)"""
    rnd = random.Random(payload.get('seed', 0))
    tried = 0
    rects = [((0.1, 0.3), (0.7, 0.9)), ((-1.7, 0.2), (3.3, 0.9)), ((1e-3, 1e-3), (1e3, 7e2)), ((0.0, 0.0), (10.0, 10.0))]
    steps = [1, 2, 3, 5, 7, 0.1, 0.3, 0.7, 1.1, -1, -3, -0.3]
    reach = [0.5, 1, 2, 3, 0.1, 0.7]
    for (x0, y0), (xm, ym) in rects:
        for cx, cy in ((x0, y0), (xm, y0), (x0, ym), (xm, ym)):
            for dx, dy in itertools.product(steps, repeat=2):
                for before, after in ((rnd.choice(reach), rnd.choice(reach)) for _ in range(3)):
                    seg = [cx - before * dx, cy - before * dy, cx + after * dx, cy + after * dy]
                    tried += 1
                    obs, exp = check([repr(v) for v in seg] + [repr(x0), repr(y0), repr(xm), repr(ym)], tol_scale=1e-9)
                    if obs:
                        return {'found': True, 'input': {'segment': seg, 'bounds': [[x0, y0], [xm, ym]]}, 'observed': obs, 'expected': exp, 'tried': tried}
    return {'found': False, 'tried': tried, 'bound': f'{tried} corner-line segments over 4 rectangles (non-dyadic coordinates), tolerance 1e-9 x coordinate scale'}
