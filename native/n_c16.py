"""Native search for C16: real EBB3 methods against the executable device model (native/device.py)."""
import itertools
import struct

from plotink import ebb3_motion

from fakeport import FakePort
from device import EBB3Device, MS_OF_MODE


def obj_on(dev):
    e = ebb3_motion.EBBMotionWrap()
    e.port = FakePort([], responder=dev.respond)
    return e


def search(payload):
    what = payload.get('what', 'int32')
    tried = 0
    if what == 'int32':
        vals = [0, 1, -1, 255, 256, -256, 2 ** 31 - 1, -2 ** 31, -2 ** 31 + 1, 0x12345678, -0x12345678, 65536, -65536]
        for v, k in itertools.product(vals, (0, 1, 13, 27, 28)):
            tried += 1
            dev = EBB3Device()
            dev.vars = list(range(100, 132))
            before = list(dev.vars)
            e = obj_on(dev)
            try:
                ok = e.var_write_int32(v, k)
                exp = list(struct.pack('>i', v))
                if ok is not True or dev.vars[k:k + 4] != exp or any(dev.vars[i] != before[i] for i in range(32) if not k <= i < k + 4):
                    return {'found': True, 'input': ('var_write_int32', v, k), 'observed': f'{ok!r}, slots {dev.vars[k:k + 4]}, err {e.err!r}', 'expected': f'True, slots {exp}', 'tried': tried}
                back = e.var_read_int32(k)
                if back != v or back is False:
                    return {'found': True, 'input': ('var_write_int32 then var_read_int32', v, k), 'observed': repr(back), 'expected': repr(v), 'tried': tried}
            except Exception as ex:   # noqa
                return {'found': True, 'input': ('int32', v, k), 'observed': f'raised {type(ex).__name__}: {ex}', 'expected': 'round trip', 'tried': tried}
        # histories on ONE object: overlapping writes, the same value written again later (a write cache must not skip it)
        import random
        rnd = random.Random(payload.get('seed', 0))
        for _ in range(150):
            dev = EBB3Device()
            dev.vars = list(range(100, 132))
            e = obj_on(dev)
            model = list(dev.vars)
            hist = []
            pool = [rnd.choice(vals) for _ in range(2)]
            base = rnd.randint(0, 24)
            for _ in range(rnd.randint(2, 5)):
                v, k = rnd.choice(pool), base + rnd.choice([0, 0, 1, 2, 3, 4])
                hist.append((v, k))
                tried += 1
                try:
                    ok = e.var_write_int32(v, k)
                    model[k:k + 4] = list(struct.pack('>i', v))
                    back = e.var_read_int32(base)
                except Exception as ex:   # noqa
                    return {'found': True, 'input': ('int32 history', hist), 'observed': f'raised {type(ex).__name__}: {ex}', 'expected': 'round trip', 'tried': tried}
                want = struct.unpack('>i', bytes(model[base:base + 4]))[0]
                if ok is not True or dev.vars != model or back != want:
                    return {'found': True, 'input': ('var_write_int32 history on one object (value, slot)', hist),
                            'observed': f'{ok!r}, slots {dev.vars[base:base + 8]}, read back {back!r}', 'expected': f'True, slots {model[base:base + 8]}, read back {want}', 'tried': tried}
    elif what == 'nickname':
        for s, prior in itertools.product(('bob', '  bob ', 'two words', '', '   ', 'a,b', 'East EBB 7', 'Lab  A', 'Unit\t7', ' a   b  c ', 'Tango', 'QT pie', ',lead', 'TTQ,x'), (None, 'Old Name')):
            tried += 1
            dev = EBB3Device()
            e = obj_on(dev)
            try:
                if prior:
                    e.write_nickname(prior)
                ok = e.write_nickname(s)
                want = s.strip()
                if (e.name or '') != want:
                    return {'found': True, 'input': ('write_nickname', s, {'earlier_name': prior}), 'observed': f'name {e.name!r} right after the write', 'expected': f'{want!r}', 'tried': tried}
                e.query_nickname()
                got = e.name if e.name is not None else ''
                if ok is not True or got != want:
                    return {'found': True, 'input': ('write_nickname', s), 'observed': f'{ok!r}, name {e.name!r}', 'expected': f'True, name {want!r}', 'tried': tried}
            except Exception as ex:   # noqa
                return {'found': True, 'input': ('nickname', s), 'observed': f'raised {type(ex).__name__}: {ex}', 'expected': 'round trip', 'tried': tried}
    else:
        for (en1, en2, mode), r1, r2 in itertools.product([(a, b, m) for a in (False, True) for b in (False, True) for m in range(1, 6)],
                                                          range(-1, 8), range(-1, 8)):
            tried += 1
            dev = EBB3Device()
            dev.en1, dev.en2, dev.mode = en1, en2, mode
            e = obj_on(dev)
            c1, c2 = max(0, min(5, r1)), max(0, min(5, r2))
            try:
                e.motors_enable(r1, r2)
                rep = e.motors_query_enabled()
            except Exception as ex:   # noqa
                return {'found': True, 'input': ('motors_enable', r1, r2, (en1, en2, mode)), 'observed': f'raised {type(ex).__name__}: {ex}', 'expected': 'no exception', 'tried': tried}
            want_mode = (c1 if c1 else c2) if (c1 or c2) else dev.mode
            exp = (dev.en1 == (c1 != 0)) and (dev.en2 == (c2 != 0)) and dev.mode == want_mode
            m = c1 if c1 else c2
            if not exp or rep != ((m if c1 else 0), (m if c2 else 0)):
                return {'found': True, 'input': ('motors_enable', r1, r2, {'prior': (en1, en2, mode)}),
                        'observed': f'board en1={dev.en1} en2={dev.en2} mode={dev.mode}, reported {rep}',
                        'expected': f'en1={c1 != 0} en2={c2 != 0} mode={want_mode}', 'tried': tried}
        # histories: three requests in a row on ONE object (a remembered resolution must not go stale)
        for start in ((False, False, 1), (True, True, 3)):
            for seq in itertools.product([(1, 1), (0, 2), (0, 1), (2, 0), (3, 3), (0, 0), (-3, 2)], repeat=3):
                dev = EBB3Device()
                dev.en1, dev.en2, dev.mode = start
                e = obj_on(dev)
                for j, (r1, r2) in enumerate(seq):
                    tried += 1
                    c1, c2 = max(0, min(5, r1)), max(0, min(5, r2))
                    before_mode = dev.mode
                    try:
                        e.motors_enable(r1, r2)
                    except Exception as ex:   # noqa
                        return {'found': True, 'input': ('motors_enable history', seq[:j + 1], {'prior': start}), 'observed': f'raised {type(ex).__name__}: {ex}', 'expected': 'no exception', 'tried': tried}
                    want_mode = (c1 if c1 else c2) if (c1 or c2) else before_mode
                    if not ((dev.en1 == (c1 != 0)) and (dev.en2 == (c2 != 0)) and dev.mode == want_mode):
                        return {'found': True, 'input': ('motors_enable history on one object', seq[:j + 1], {'prior': start}),
                                'observed': f'board en1={dev.en1} en2={dev.en2} mode={dev.mode}', 'expected': f'en1={c1 != 0} en2={c2 != 0} mode={want_mode}', 'tried': tried}
    return {'found': False, 'tried': tried}
