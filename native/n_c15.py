"""Native search for C15: version order in both layers, EBB3.connect handshake scenarios, legacy feature gates."""
import itertools
import logging

import serial
from plotink import ebb_serial, ebb_motion, ebb3_serial

from fakeport import FakePort

logging.disable(logging.CRITICAL)


def board(v):
    return f'EBBv13_and_above EB Firmware Version {v}\r\n'.encode()


def legacy_port(version, extra=()):
    """legacy device: V -> version line (no OK); everything else: data + OK"""
    def respond(data):
        t = data.decode().strip()
        if t.upper() == 'V':
            return [board(version)]
        if t.startswith('Q'):
            return [b'1,300\r\n', b'OK\r\n']
        return [b'OK\r\n']
    return FakePort([], responder=respond)


def tup(s):
    return tuple(int(x) for x in s.split('.'))


def search(payload):
    what = payload.get('what', 'order')
    tried = 0
    vs = ['2.9.9', '2.10.0', '2.1.1', '3.0.2', '3.0.10', '3.0.1', '10.0.0', '2.6.0', '2.5.5', '2.2.3', '2.2.10', '2.11.3',
          '2.5.100', '2.0.255', '2.9.100', '2.100.0', '1.300.7']
    if what == 'order':
        for a, b in itertools.product(vs, vs):
            tried += 1
            want = tup(a) >= tup(b)
            try:
                got = ebb_serial.min_version(legacy_port(a), b)
            except Exception as ex:   # noqa
                return {'found': True, 'input': ('ebb_serial.min_version', a, b), 'observed': f'raised {type(ex).__name__}', 'expected': want, 'tried': tried}
            if got is not want:
                return {'found': True, 'input': ('ebb_serial.min_version', f'board {a}', f'threshold {b}'), 'observed': repr(got), 'expected': repr(want), 'tried': tried}
            e = ebb3_serial.EBB3()
            e.parse_version(board(a).decode().strip())
            got = e.min_version(b)
            if got is not want:
                return {'found': True, 'input': ('EBB3.min_version', f'board {a}', f'threshold {b}'), 'observed': repr(got), 'expected': repr(want), 'tried': tried}
    elif what == 'gates':
        feats = [('servo_timeout', lambda p: ebb_motion.servo_timeout(p, 1000), '2.6.0', b'SR,1000\r'),
                 ('queryVoltage', lambda p: ebb_motion.queryVoltage(p), '2.2.3', b'QC\r'),
                 ('query_nickname', lambda p: ebb_serial.query_nickname(p), '2.5.5', b'QT\r'),
                 ('write_nickname', lambda p: ebb_serial.write_nickname(p, 'bob'), '2.5.5', b'ST,bob\r'),
                 ('reboot', lambda p: ebb_serial.reboot(p), '2.5.5', b'RB\r')]
        for (name, call, thr, cmd), v in itertools.product(feats, vs):
            tried += 1
            port = legacy_port(v)
            try:
                call(port)
            except Exception as ex:   # noqa
                return {'found': True, 'input': (name, f'board {v}'), 'observed': f'raised {type(ex).__name__}: {ex}', 'expected': 'no exception', 'tried': tried}
            sent = cmd in port.writes
            if sent != (tup(v) >= tup(thr)):
                return {'found': True, 'input': (name, f'board {v}', f'needs {thr}'), 'observed': f'writes {port.writes}',
                        'expected': 'command sent' if tup(v) >= tup(thr) else 'command not sent', 'tried': tried}
        # devices that never reported a firmware version: silent, foreign text, a bare number without the label
        for (name, call, thr, cmd), reply in itertools.product(feats, (None, b'hello\r\n', b'3.1.4\r\n', b'300\r\n', b'OK\r\n', b'!8 Err: unknown\r\n', 'EXC')):
            tried += 1

            def respond(data, _r=reply):
                t = data.decode().strip()
                if t.upper() == 'V':
                    return [] if _r is None else [_r]
                if t.startswith('Q'):
                    return [b'1,300\r\n', b'OK\r\n']
                return [b'OK\r\n']
            port = FakePort([], responder=respond)
            for verbose_kw in ({}, {'verbose': False}) if name == 'query_nickname' else ({},):
                try:
                    if name == 'query_nickname':
                        ebb_serial.query_nickname(port, **verbose_kw)
                    else:
                        call(port)
                except Exception as ex:   # noqa
                    return {'found': True, 'input': (name, f'device replies {reply!r} to V'), 'observed': f'raised {type(ex).__name__}: {ex}', 'expected': 'no exception', 'tried': tried}
                if cmd in port.writes:
                    return {'found': True, 'input': (name, f'device replies {reply!r} to V (no firmware version reported)', verbose_kw), 'observed': f'writes {port.writes}',
                            'expected': 'gated command not sent', 'tried': tried}
        # query_nickname with verbose=False on old firmware
        for v in ('2.5.4', '2.4.10', '2.5.5'):
            port = legacy_port(v)
            ebb_serial.query_nickname(port, verbose=False)
            if (b'QT\r' in port.writes) != (tup(v) >= tup('2.5.5')):
                return {'found': True, 'input': ('query_nickname(verbose=False)', f'board {v}'), 'observed': f'writes {port.writes}', 'expected': 'QT only from 2.5.5 on', 'tried': tried}
    else:
        good = board('3.0.2')
        scen = []
        for first in ([board('3.0.2'), b'CU\r\n', b'QT\r\n'], [board('2.8.1')], [b'EBB bootloader\r\n'], [b'EBB Firmware Version x.y\r\n'],
                      [b'', board('3.1.0'), b'CU\r\n', b'QT\r\n'], [b'', b''], [b'hello\r\n', b'world\r\n'], [b'\xff\xfe\r\n'], ['EXC'],
                      [b'', 'EXC'], [board('3.0.2'), 'EXC'], [board('3.0.1')], [board('3.0.10'), b'CU\r\n', b'QT,nick\r\n'], [board('10.0.0'), b'CU\r\n', b'QT\r\n']):
            scen.append(first)
        for reuse in (False, True):
            for reads in scen:
                tried += 1
                e = ebb3_serial.EBB3()
                old = (ebb3_serial.serial.Serial, ebb3_serial.comports)
                try:
                    ebb3_serial.comports = lambda: [('/dev/ttyACM0', 'EiBotBoard', 'USB VID:PID=04D8:FD92')]
                    if reuse:
                        fp0 = FakePort([good, b'CU\r\n', b'QT\r\n'])
                        ebb3_serial.serial.Serial = lambda *a, **k: fp0
                        e.connect()
                        e.disconnect()
                    fp = FakePort(list(reads))
                    ebb3_serial.serial.Serial = lambda *a, **k: fp
                    try:
                        r = e.connect()
                    except Exception as ex:   # noqa
                        return {'found': True, 'input': {'reads': [str(x) for x in reads], 'object_reused': reuse}, 'observed': f'raised {type(ex).__name__}: {ex}', 'expected': 'True/False', 'tried': tried}
                finally:
                    ebb3_serial.serial.Serial, ebb3_serial.comports = old
                texts = [x.decode('latin-1') for x in reads if isinstance(x, bytes) and x.strip()]
                ident = next((t for t in texts[:2] if 'EBB' in t), None) if texts else None
                # which reply identifies: first non-empty of the (up to) two probe replies containing EBB
                probe_replies = [x for x in reads[:2]]
                ident = None
                for x in probe_replies:
                    if isinstance(x, bytes):
                        try:
                            t = x.decode('ascii').strip()
                        except UnicodeDecodeError:
                            break
                        if t and 'EBB' in t:
                            ident = t
                            break
                    else:
                        break
                ok = False
                if ident and 'Firmware Version ' in ident:
                    vt = ident.split('Firmware Version ', 1)[1].strip()
                    try:
                        ok = tup(vt) >= (3, 0, 2)
                    except ValueError:
                        ok = False
                ident_ok = ok            # the device identified itself as a supported EBB
                if 'EXC' in reads:
                    ok = False           # the port failed somewhere during connect
                prob = []
                if r is not ok:
                    prob.append(f'returned {r!r}')
                if not r and e.err is None:
                    prob.append('False without an error')
                if not r and not ident_ok and any(w != b'v\r' for w in fp.writes):
                    prob.append(f'unsupported device received {fp.writes}')
                if fp.writes.count(b'v\r') > 2:
                    prob.append('more than two probes')
                if prob:
                    return {'found': True, 'input': {'reads': [str(x) for x in reads], 'object_reused': reuse}, 'observed': '; '.join(prob) + f' (err {e.err!r})', 'expected': f'{ok}', 'tried': tried}
    if what == 'connect':
        # retry after "firmware too old": the object must not come out as connected-with-no-error
        old = (ebb3_serial.serial.Serial, ebb3_serial.comports)
        try:
            ebb3_serial.comports = lambda: [('/dev/ttyACM0', 'EiBotBoard', 'USB VID:PID=04D8:FD92')]
            fp = FakePort([board('2.8.1')])
            ebb3_serial.serial.Serial = lambda *a, **k: fp
            e = ebb3_serial.EBB3()
            r1 = e.connect()
            r2 = e.connect()
            tried += 1
            if r1 or (r2 and e.err is None) or any(w != b'v\r' for w in fp.writes):
                return {'found': True, 'input': 'connect() twice to a board with firmware 2.8.1', 'observed': f'first {r1!r}, second {r2!r}, err {e.err!r}, writes {fp.writes}',
                        'expected': 'False, then not (True with no error); only the probe sent', 'tried': tried}
            ok = e.command('SM,1,0,0')
            if ok or any(w != b'v\r' for w in fp.writes):
                return {'found': True, 'input': 'connect() twice to a board with firmware 2.8.1, then command()', 'observed': f'command returned {ok!r}, writes {fp.writes}',
                        'expected': 'blocked', 'tried': tried}
        finally:
            ebb3_serial.serial.Serial, ebb3_serial.comports = old
    return {'found': False, 'tried': tried}
