"""Native replay / oracle for C06: helper -> bytes written to an acknowledging fake port, against the documented
command templates (written independently of the library code)."""
import itertools
import random

from plotink import ebb_motion, ebb3_motion

from fakeport import FakePort
from device import EBB3Device


def clamp(r):
    return max(0, min(5, int(r)))


def chunks(n):
    out = []
    while n > 0:
        d = min(n, 750)
        out.append(d)
        n -= d
    return out


def opt(*xs):
    return ''.join(f',{x}' for x in xs)


def expected(layer, fn, a, board=None):
    """list of command texts (no CR)"""
    if layer == 'ebb3':
        if fn == 'xy_move':
            return [f'SM,{a[2]},{a[1]},{a[0]}']
        if fn == 'abs_move':
            return [f'HM,{a[0]},{a[1]},{a[2]}'] if (a[1] is not None and a[2] is not None) else [f'HM,{a[0]}']
        if fn == 'motors_disable':
            return ['EM,0,0']
        if fn == 'clear_steps':
            return ['CS']
        if fn == 'clear_accumulators':
            return ['T3,1,0,0,0,0,0,0,3']
        if fn in ('pen_lower', 'pen_raise'):
            c = 0 if fn == 'pen_lower' else 1
            return [f'SP,{c},{a[0]}' + (f',{a[1]}' if a[1] is not None else '')]
        if fn == 'dio_b_config':
            return [f'PO,B,{a[0]},{a[1]}', f'PD,B,{a[0]},{a[2]}']
        if fn == 'dio_b_set':
            return [f'PO,B,{a[0]},{a[1]}']
        if fn == 'dio_b_read':
            return [f'PI,B,{a[0]}']
        if fn == 'pen_pos_down':
            return [f'SC,5,{a[0]}']
        if fn == 'pen_pos_up':
            return [f'SC,4,{a[0]}']
        if fn == 'pen_rate_down':
            return [f'SC,12,{a[0]}']
        if fn == 'pen_rate_up':
            return [f'SC,11,{a[0]}']
        if fn == 'servo_timeout':
            return [f'SR,{a[0]}' + (f',{a[1]}' if a[1] is not None else '')]
        if fn == 'var_write':
            return [f'SL,{a[0]},{a[1]}']
        if fn == 'var_read':
            return [f'QL,{a[0]}']
        if fn == 'query_steps':
            return ['QS']
        if fn == 'motors_query_enabled':
            return ['QE']
        if fn in ('query_voltage', 'query_current'):
            return ['QC']
        if fn == 'query_nickname':
            return ['QT']
        if fn == 'timed_pause':
            return [f'SM,{d},0,0' for d in chunks(a[0])]
        if fn == 'motors_enable':
            c1, c2 = clamp(a[0]), clamp(a[1])
            out = []
            if c1 != c2 and (c1 == 0 or c2 == 0):
                out.append('CU,50,0')
            if c1 == 0 and c2 != 0:
                out.append('QE')
                en1, en2, mode = board
                cur = mode if (en1 or en2) else 0
                if cur != c2:
                    out.append(f'EM,{c2},{c2}')
            out.append(f'EM,{c1},{c2}')
            return out
    else:
        if fn == 'doABMove':
            return [f'XM,{a[2]},{a[0]},{a[1]}']
        if fn == 'doXYMove':
            return [f'SM,{a[2]},{a[1]},{a[0]}']
        if fn == 'doAbsMove':
            return [f'HM,{a[0]},{a[1]},{a[2]}'] if (a[1] is not None and a[2] is not None) else [f'HM,{a[0]}']
        if fn == 'doLowLevelMove':
            r1, s1, a1, r2, s2, a2, clear = a
            if not ((s1 != 0 and (r1 != 0 or a1 != 0)) or (s2 != 0 and (r2 != 0 or a2 != 0))):
                return []
            return [f'LM,{r1},{s1},{a1},{r2},{s2},{a2}' + (f',{clear}' if clear is not None else '')]
        if fn == 'sendDisableMotors':
            return ['EM,0,0']
        if fn == 'sendEnableMotors':
            return [f'EM,{clamp(a[0])},{clamp(a[0])}']
        if fn in ('sendPenDown', 'sendPenUp'):
            c = 0 if fn == 'sendPenDown' else 1
            return [f'SP,{c},{a[0]}' + (f',{a[1]}' if a[1] is not None else '')]
        if fn == 'PBOutConfig':
            return [f'PO,B,{a[0]},{a[1]}', f'PD,B,{a[0]},0']
        if fn == 'PBOutValue':
            return [f'PO,B,{a[0]},{a[1]}']
        if fn == 'TogglePen':
            return ['TP']
        if fn == 'setPenDownPos':
            return [f'SC,5,{a[0]}']
        if fn == 'setPenDownRate':
            return [f'SC,12,{a[0]}']
        if fn == 'setPenUpPos':
            return [f'SC,4,{a[0]}']
        if fn == 'setPenUpRate':
            return [f'SC,11,{a[0]}']
        if fn == 'setEBBLV':
            return [f'SL,{a[0]}']
        if fn == 'QueryPRGButton':
            return ['QB']
        if fn == 'queryEBBLV':
            return ['QL']
        if fn == 'doTimedPause':
            return [f'SM,{d},0,0' for d in chunks(a[0])]
    raise KeyError((layer, fn))


def run(layer, fn, args, board=None):
    if layer == 'ebb3':
        dev = EBB3Device()
        if board:
            dev.en1, dev.en2, dev.mode = board
        port = FakePort([], responder=dev.respond)
        e = ebb3_motion.EBBMotionWrap()
        e.port = port
        getattr(e, fn)(*args)
        return [w.decode('latin-1') for w in port.writes], e.err
    port = FakePort([], default=b'OK\r\n')
    getattr(ebb_motion, fn)(port, *args)
    return [w.decode('latin-1') for w in port.writes], None


def replay(payload):
    layer, fn, args = payload['layer'], payload['fn'], payload['args']
    board = payload.get('board')
    boards = [tuple(board)] if board else ([(False, False, 1)] if fn != 'motors_enable' else
                                             [(e1, e2, m) for e1 in (False, True) for e2 in (False, True) for m in range(1, 6)])
    for b in boards:
        exp = [t + '\r' for t in expected(layer, fn, args, b)]
        try:
            got, err = run(layer, fn, args, b)
        except Exception as ex:      # noqa
            return {'fails': True, 'observed': f'raised {type(ex).__name__}: {ex}', 'expected': exp}
        if got != exp:
            return {'fails': True, 'observed': got, 'expected': exp, 'board': b}
    return {'fails': False, 'observed': got, 'expected': exp}


VALS = [0, 1, -1, 2, 5, 6, 7, 750, 751, 1500, 2250, 100000, -750]


def search(payload):
    layer, fn = payload['layer'], payload['fn']
    from_params = payload.get('nargs')
    rnd = random.Random(payload.get('seed', 0))
    import inspect
    target = getattr(ebb3_motion.EBBMotionWrap, fn) if layer == 'ebb3' else getattr(ebb_motion, fn)
    names = [p for p in inspect.signature(target).parameters if p not in ('self', 'port_name', 'verbose')]
    defaults = {k: v.default for k, v in inspect.signature(target).parameters.items()}
    pools = []
    for n in names:
        pool = list(VALS[:9])
        if defaults.get(n) is None and defaults.get(n, 1) is None:
            pool = [None] + pool
        pools.append(pool)
    tried = 0
    combos = itertools.product(*pools) if len(names) <= 3 else None
    it = combos if combos is not None else (tuple(rnd.choice(p) for p in pools) for _ in range(4000))
    for args in it:
        tried += 1
        p = {'layer': layer, 'fn': fn, 'args': list(args)}
        out = replay(p)
        if out['fails']:
            return {'found': True, 'fails': True, 'input': p, 'observed': out['observed'], 'expected': out['expected'], 'tried': tried}
    if fn in ('timed_pause', 'doTimedPause'):
        for n in range(-3, 3200):
            p = {'layer': layer, 'fn': fn, 'args': [n]}
            out = replay(p)
            if out['fails']:
                return {'found': True, 'fails': True, 'input': p, 'observed': out['observed'], 'expected': out['expected']}
    return {'found': False, 'tried': tried}
