"""Native oracle / search for C12: parser and the four converters against exact SVG factors (Fractions), with lxml documents."""
from fractions import Fraction as F

from lxml import etree
from plotink import plot_utils as pu

FACT = {'': F(1), 'px': F(1), 'in': F(96), 'mm': F(96) / F('25.4'), 'cm': F(96) / F('2.54'), 'pt': F(96) / 72, 'pc': F(96) / 6,
        'Q': F(96) / F('101.6'), 'q': F(96) / F('101.6')}
NUMS = ['0', '1', '25.4', '-3.5', '.5', '5.', '1e2', '2.5E-1', '+7', '960']


class Alt:
    def __init__(self, attr):
        self.document = etree.ElementTree(etree.fromstring(f'<svg width="{attr}"/>' if attr is not None else '<svg/>'))


def close(a, b):
    return abs(float(a) - float(b)) <= 1e-9 * max(1.0, abs(float(b)))


def search(_payload):
    for n in NUMS:
        for u in list(FACT) + ['%']:
            for ws in ('', ' ', '\t'):
                text = f'{ws}{n}{u}{ws}'
                val = F(n)
                try:
                    got = pu.parseLengthWithUnits(text)
                    exp_u = 'px' if u in ('', 'px') else ('Q' if u in 'Qq' and u else u)
                    if got[0] is None or not close(got[0], val) or got[1] != exp_u:
                        return {'found': True, 'input': f'parseLengthWithUnits({text!r})', 'observed': repr(got), 'expected': repr((float(val), exp_u))}
                    uu = pu.unitsToUserUnits(text, 200)
                    exp = val * 2 if u == '%' else val * FACT[u]
                    if uu is None or not close(uu, exp):
                        return {'found': True, 'input': f'unitsToUserUnits({text!r}, 200)', 'observed': repr(uu), 'expected': repr(float(exp))}
                    if u == '%':
                        uu1 = pu.unitsToUserUnits(text)
                        if uu1 is None or not close(uu1, val / 100):
                            return {'found': True, 'input': f'unitsToUserUnits({text!r})', 'observed': repr(uu1), 'expected': repr(float(val / 100))}
                    back = pu.userUnitToUnits(float(val * FACT[u]) if u != '%' else float(val / 100), u)
                    if back is None or not close(back, val):
                        return {'found': True, 'input': f'userUnitToUnits({float(val * FACT[u]) if u != "%" else float(val / 100)}, {u!r})', 'observed': repr(back), 'expected': repr(float(val))}
                    if u == '%':
                        g0 = pu.getLength(Alt(text), 'width', 0)
                        if g0 is None or not close(g0, 0):
                            return {'found': True, 'input': f'getLength(width={text!r}, default 0)', 'observed': repr(g0), 'expected': '0.0'}
                    gl = pu.getLength(Alt(text), 'width', 300)
                    exp = val * 3 if u == '%' else val * FACT[u]
                    if gl is None or not close(gl, exp):
                        return {'found': True, 'input': f'getLength(width={text!r}, default 300)', 'observed': repr(gl), 'expected': repr(float(exp))}
                    gi = pu.getLengthInches(Alt(text), 'width')
                    if u == '%':
                        if gi is not None:
                            return {'found': True, 'input': f'getLengthInches(width={text!r})', 'observed': repr(gi), 'expected': 'None'}
                    elif gi is None or not close(gi, val * FACT[u] / 96):
                        return {'found': True, 'input': f'getLengthInches(width={text!r})', 'observed': repr(gi), 'expected': repr(float(val * FACT[u] / 96))}
                except Exception as e:     # noqa
                    return {'found': True, 'input': text, 'observed': f'raised {type(e).__name__}: {e}', 'expected': 'a value'}
    for text in ('5em', '2ex', 'px', 'abc', '', 'mm', '%', None, '50%%', '7%px%', '3%em', '3mmm', '5ppx', '7nin', '2ccm', '9QQ', '5 mm x', '1,5mm', '--3px', '3..5in',
                 ' ', '\t', 'e5mm', '.mm'):
        try:
            got = pu.parseLengthWithUnits(text)
            if got != (None, None):
                return {'found': True, 'input': f'parseLengthWithUnits({text!r})', 'observed': repr(got), 'expected': '(None, None)'}
            if pu.unitsToUserUnits(text) is not None:
                return {'found': True, 'input': f'unitsToUserUnits({text!r})', 'observed': 'a value', 'expected': 'None'}
        except Exception as e:     # noqa
            return {'found': True, 'input': repr(text), 'observed': f'raised {type(e).__name__}: {e}', 'expected': 'None'}
    # call history: the same text against different reference lengths (no result may be remembered per text)
    for ref in (200, 400, 50, None, 200):
        got = pu.unitsToUserUnits('50%', ref) if ref is not None else pu.unitsToUserUnits('50%')
        want = 0.5 * ref if ref is not None else 0.5
        if got is None or not close(got, F(want)):
            return {'found': True, 'input': f"unitsToUserUnits('50%', {ref}) after calls with other references", 'observed': repr(got), 'expected': repr(want)}
    for text in ('12em', '3ex', 'auto', '5nm', '7mc', '2mp', '9tp', 'mm5'):
        for fn, args in (('getLength', (Alt(text), 'width', 300)), ('getLengthInches', (Alt(text), 'width')), ('unitsToUserUnits', (text, 200))):
            try:
                got = getattr(pu, fn)(*args)
            except Exception as e:     # noqa
                return {'found': True, 'input': f'{fn}({text!r})', 'observed': f'raised {type(e).__name__}: {e}', 'expected': 'None'}
            if got is not None:
                return {'found': True, 'input': f'{fn} on the unparsable text {text!r}', 'observed': repr(got), 'expected': 'None'}
    for ref in (None, 0):
        got = pu.unitsToUserUnits('50%', ref) if ref is not None else pu.unitsToUserUnits('50%')
        if ref is None and (got is None or not close(got, F(1, 2))):
            return {'found': True, 'input': "unitsToUserUnits('50%') without a reference", 'observed': repr(got), 'expected': '0.5'}
    if pu.PX_PER_INCH != 96:
        return {'found': True, 'input': 'PX_PER_INCH', 'observed': repr(pu.PX_PER_INCH), 'expected': '96'}
    return {'found': False}
