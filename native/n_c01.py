"""Native oracle / replay for C01: the firmware recurrence, tick by tick (or its exact closed form for long moves)."""
import mpmath
from plotink import ebb_calc, ebb_motion

M = 2 ** 31


def tz(a, b):
    return abs(a) // b * (1 if a >= 0 else -1)


def clear_a0(rate, accel, T=None):
    r = rate - tz(accel, 2)
    r1 = r + accel
    if r1 != 0:
        return M - 1 if r1 < 0 else 0
    return M - 1 if accel < 0 else 0


def recurrence(rate, accel, T, accum):
    a0 = clear_a0(rate, accel) if accum == 'clear' else int(accum)
    r = rate - tz(accel, 2)
    if T <= 200000:
        S = a0
        for _ in range(T):
            r += accel
            S += r
    else:
        S = a0 + T * r + accel * T * (T + 1) // 2
    return (S // M, S % M)


def replay(payload):
    fn = payload.get('fn', 'move_dist_lt')
    rate, accel, T, accum = payload['rate'], payload['accel'], payload['time'], payload['accum']
    mpmath.mp.dps = int(payload.get('dps', 15))
    exp = recurrence(rate, accel, T, 0 if fn == 'moveDistLM' else accum)
    try:
        if fn == 'move_dist_lt':
            obs = ebb_calc.move_dist_lt(rate, accel, T, accum)
        elif fn == 'moveDistLMA':
            obs = ebb_motion.moveDistLMA(rate, accel, T, accum)
        else:
            obs = ebb_motion.moveDistLM(rate, accel, T)
            exp = exp[0]
    except Exception as e:
        return {'fails': True, 'observed': repr(e), 'expected': repr(exp)}
    return {'fails': obs != exp, 'observed': repr(obs), 'expected': repr(exp)}


def search(payload):
    """directed concrete search used when a solver model does not reproduce natively: seeded random
    moves over several magnitude classes, run under the ambient precision of the model"""
    import random
    rnd = random.Random(payload.get('seed', 0))
    fn = payload.get('fn', 'move_dist_lt')
    dps = int(payload.get('dps', 5))
    kinds = payload.get('accum_kinds', ['int', 'clear'])
    for i in range(int(payload.get('n', 3000))):
        mag = rnd.choice([3, 8, 16, 31, 32])
        tmag = rnd.choice([2, 5, 12, 20, 33])
        rate = rnd.randint(-2 ** mag, 2 ** mag)
        accel = rnd.randint(-2 ** mag, 2 ** mag) if rnd.random() < 0.8 else rnd.randint(-3, 3)
        T = rnd.randint(1, 2 ** tmag)
        if rnd.random() < 0.2:
            # zero first-tick rate: exercises the clear rule's second level
            rate = tz(accel, 2) - accel
        accum = 'clear' if rnd.choice(kinds) == 'clear' else rnd.choice([0, 1, M - 1, rnd.randint(0, M - 1)])
        p = {'fn': fn, 'rate': rate, 'accel': accel, 'time': T, 'accum': accum, 'dps': dps}
        out = replay(p)
        if out['fails']:
            return {'found': True, 'input': p, 'observed': out['observed'], 'expected': out['expected'], 'tried': i + 1}
    return {'found': False, 'tried': int(payload.get('n', 3000))}
