"""Native oracle / directed search for C14: rtree.Index against brute force, including histories of several indexes."""
import random

from plotink import rtree


def brute(boxes, q):
    return {i for i, b in boxes if not (q[0] > b[2] or q[1] > b[3] or q[2] < b[0] or q[3] < b[1])}


def gen(rnd, n, lim=4, degenerate=True):
    bs = []
    for i in range(n):
        x1, y1 = rnd.randint(0, lim), rnd.randint(0, lim)
        w = rnd.choice([0, 0, 1, 2]) if degenerate else rnd.randint(1, 2)
        h = rnd.choice([0, 0, 1, 2]) if degenerate else rnd.randint(1, 2)
        bs.append((i, (x1, y1, x1 + w, y1 + h)))
    return bs


def search(payload):
    rnd = random.Random(payload.get('seed', 0))
    fixed = [[(0, (1, 0, 1, 0)), (1, (0, 1, 0, 1)), (2, (1, 1, 1, 1)), (3, (0, 0, 0, 0)), (4, (2, 2, 2, 2))],
             [('a', (0, 0, 2, 2)), ('b', (6, 0, 8, 2)), ('v_lo', (4, 0, 4, 1)), ('v_hi', (4, 2, 4, 3))],
             [(0, (4, 4, 4, 4))]]
    cases = fixed + [gen(rnd, rnd.randint(0, 14)) for _ in range(3000)]
    prev = None
    for k, bs in enumerate(cases):
        try:
            idx = rtree.Index(list(bs))
        except RecursionError:
            return {'found': True, 'input': {'boxes': bs}, 'observed': 'construction does not terminate (RecursionError)', 'expected': 'terminates'}
        except Exception as ex:    # noqa
            return {'found': True, 'input': {'boxes': bs}, 'observed': f'raised {type(ex).__name__}: {ex}', 'expected': 'an index'}
        for _ in range(4):
            x, y = rnd.randint(-1, 6), rnd.randint(-1, 6)
            q = (x, y, x + rnd.randint(0, 3), y + rnd.randint(0, 3))
            for which, ix, boxes in (('this', idx, bs),) + ((('previous', prev[0], prev[1]),) if prev else ()):
                try:
                    got = ix.intersection(q)
                except Exception as ex:    # noqa
                    return {'found': True, 'input': {'boxes': boxes, 'query': q}, 'observed': f'raised {type(ex).__name__}', 'expected': 'a set'}
                want = brute(boxes, q)
                if got != want:
                    return {'found': True, 'input': {'boxes': boxes, 'query': q, 'index': which, 'built_after': k},
                            'observed': sorted(map(str, got)), 'expected': sorted(map(str, want))}
        prev = (idx, bs)
    return {'found': False}
