"""Native oracle / directed search for C14: rtree.Index against brute force, including histories of several indexes."""
import random

from plotink import rtree


def brute(boxes, q):
    return {i for i, b in boxes if not (q[0] > b[2] or q[1] > b[3] or q[2] < b[0] or q[3] < b[1])}


def gen(rnd, n, lim=4, degenerate=True):
    bs = []
    for i in range(n):
        x1, y1 = rnd.randint(0, lim), rnd.randint(0, lim)
        w = rnd.choice([0, 0, 1, 2]) if degenerate else rnd.randint(1, 2)
        h = rnd.choice([0, 0, 1, 2]) if degenerate else rnd.randint(1, 2)
        bs.append((i, (x1, y1, x1 + w, y1 + h)))
    return bs


def search(payload):
    rnd = random.Random(payload.get('seed', 0))
    fixed = [[(0, (1, 0, 1, 0)), (1, (0, 1, 0, 1)), (2, (1, 1, 1, 1)), (3, (0, 0, 0, 0)), (4, (2, 2, 2, 2))],
             [('a', (0, 0, 2, 2)), ('b', (6, 0, 8, 2)), ('v_lo', (4, 0, 4, 1)), ('v_hi', (4, 2, 4, 3))],
             [(0, (4, 4, 4, 4))]]
    cases = fixed + [gen(rnd, rnd.randint(0, 14)) for _ in range(3000)]
    prev = None
    for k, bs in enumerate(cases):
        try:
            idx = rtree.Index(list(bs))
        except RecursionError:
            return {'found': True, 'input': {'boxes': bs}, 'observed': 'construction does not terminate (RecursionError)', 'expected': 'terminates'}
        except Exception as ex:    # noqa
            return {'found': True, 'input': {'boxes': bs}, 'observed': f'raised {type(ex).__name__}: {ex}', 'expected': 'an index'}
        for _ in range(4):
            x, y = rnd.randint(-1, 6), rnd.randint(-1, 6)
            q = (x, y, x + rnd.randint(0, 3), y + rnd.randint(0, 3))
            for which, ix, boxes in (('this', idx, bs),) + ((('previous', prev[0], prev[1]),) if prev else ()):
                try:
                    got = ix.intersection(q)
                except Exception as ex:    # noqa
                    return {'found': True, 'input': {'boxes': boxes, 'query': q}, 'observed': f'raised {type(ex).__name__}', 'expected': 'a set'}
                want = brute(boxes, q)
                if got != want:
                    return {'found': True, 'input': {'boxes': boxes, 'query': q, 'index': which, 'built_after': k},
                            'observed': sorted(map(str, got)), 'expected': sorted(map(str, want))}
        prev = (idx, bs)
    r = float_sweep({'seed': payload.get('seed', 0), 'n': 300})
    if r.get('found'):
        return r
    return {'found': False}


def float_sweep(payload):
    """binary64 inputs that are not dyadic (multiples of 0.1), many boxes sharing edges / corners with the query; plus a call
    history: the caller edits a returned set and asks again (results must not be shared between calls).  The brute-force oracle
    only COMPARES the given floats, so it is exact on binary64 inputs."""
    rnd = random.Random(payload.get('seed', 0) + 7)
    tried = 0
    big = 1.5e308
    for k in range(int(payload.get('n', 300))):
        n = rnd.randint(1, 12)
        bs = []
        for i in range(n):
            x1, y1 = rnd.randint(0, 12) * 0.1, rnd.randint(0, 12) * 0.1
            bs.append((i, (x1, y1, x1 + rnd.choice([0, 1, 2, 3]) * 0.1, y1 + rnd.choice([0, 1, 2, 3]) * 0.1)))
        if k % 25 == 0:
            # finite coordinates of very large magnitude on both sides of the origin (sums overflow, halves do not)
            bs = [(0, (-big, -big, -big / 2, -big / 2)), (1, (big / 2, big / 4, big, big / 2)), (2, (-1.0, -1.0, 1.0, 1.0)), (3, (big / 3, -big, big / 2, -big / 2)),
                  (4, (-big, big / 2, -big / 2, big))][:rnd.randint(2, 5)]
        try:
            idx = rtree.Index(list(bs))
        except RecursionError:
            return {'found': True, 'input': {'boxes': bs}, 'observed': 'construction does not terminate (RecursionError)', 'expected': 'terminates', 'tried': tried}
        except Exception as ex:    # noqa
            return {'found': True, 'input': {'boxes': bs}, 'observed': f'raised {type(ex).__name__}: {ex}', 'expected': 'an index', 'tried': tried}
        for j in range(6):
            x, y = rnd.randint(-1, 13) * 0.1, rnd.randint(-1, 13) * 0.1
            q = (x, y, x + rnd.choice([0, 1, 2]) * 0.1, y + rnd.choice([0, 1, 2]) * 0.1)
            if k % 25 == 0:
                q = [(-big, -big, big, big), (big / 2, big / 4, big, big / 2), (-1.0, -1.0, 0.0, 0.0), (-big, -big, -big / 2, -big / 2), (0.0, 0.0, big, big), (-big, 0.0, 0.0, big)][j]
            tried += 1
            want = brute(bs, q)
            try:
                got = idx.intersection(q)
            except Exception as ex:    # noqa
                return {'found': True, 'input': {'boxes': bs, 'query': q}, 'observed': f'raised {type(ex).__name__}: {ex}', 'expected': sorted(want), 'tried': tried}
            if got != want:
                return {'found': True, 'input': {'boxes': bs, 'query': q}, 'observed': sorted(got), 'expected': sorted(want), 'tried': tried}
            if got:
                got.discard(next(iter(got)))          # the caller edits ITS result ...
                again = idx.intersection(q)           # ... and asks again
                if again != want:
                    return {'found': True, 'input': {'boxes': bs, 'query': q, 'history': 'same query after the caller edited the first result'},
                            'observed': sorted(again), 'expected': sorted(want), 'tried': tried}
    return {'found': False, 'tried': tried, 'distinct': tried,
            'bound': f'{payload.get("n", 300)} random box sets on a 0.1 grid (non-dyadic binary64 coordinates, shared edges/corners) x 6 queries, each repeated after the caller edited the result'}
