#!/usr/bin/env python3
"""Regenerate MANIFEST.json from the table below (kept valid against /root/.vp/MANIFEST.schema.json)."""
import json
import os

HERE = os.path.dirname(os.path.dirname(os.path.abspath(__file__)))
props = [json.loads(l)['id'] for l in open(os.path.join(HERE, 'properties.jsonl'))]

ENGINE_NOTE = ('Trusted: the pyvc executor (our own AST->SMT verification-condition generator) and its model of the '
               'Python subset; z3/cvc5; the library contracts listed in evidence.coverage.trusted_base. ')

CHECKS = {
    'C18': dict(
        category='proof',
        text='Every return path of checkLimits/checkLimitsTol/constrainLimits/point_in_bounds, read from /repo on each run, '
             'is checked against the clamp/flag postcondition from the property for all inputs with lower<=upper: once over '
             'the reals (QF_LRA) and once over IEEE-754 binary64 (QF_FP, NaN excluded, infinities allowed). The agreement '
             'clause is a path-by-path comparison of the two real bodies.',
        design_ref='DESIGN.md section 6, C18',
        note=ENGINE_NOTE + 'Float inputs; NaN excluded; tolerance finite and >= 0.',
        technique='contract-based deductive verification: symbolic execution of the real AST, postconditions discharged by z3 (QF_LRA + QF_FP)'),
}

NOT_YET = 'check not built yet (build in progress; see DESIGN.md section 6)'
NA = {}

manifest = {
    'version': 1,
    'setup_cmd': './setup.sh',
    'hooks': {
        'guard': 'PLOTINK_VERIF',
        'enable': 'no hooks needed: contracts are sidecar files under /verif/contracts; the real source is parsed and '
                  'symbolically executed from /repo on every run; replays call the real functions through the public API',
        'baseline_off_cmd': 'cd /repo && /venv/bin/python -m pytest -ra -q -p no:cacheprovider --timeout=900',
        'source_commits': [],
        'add_only': True,
    },
    'engines': [{
        'name': 'pyvc', 'path': 'pyvc/',
        'serves_properties': sorted(CHECKS),
        'kind_free_text': 'verification-condition generator for a Python subset (typed symbolic execution of the real AST, '
                          'modular calls against sidecar contracts, loop invariants / complete unrolling) with z3 and cvc5 back ends',
    }],
    'checks': [],
    'not_applicable': [],
    'notes': 'Exit codes of ./check: 0 all obligations discharged; 1 VIOLATION (refuted obligation, replayed natively); '
             '2 undecided (solver unknown on some obligation, never reported as a violation); 3 checker cannot run.',
}
for pid in props:
    if pid in CHECKS:
        c = CHECKS[pid]
        manifest['checks'].append({
            'property_id': pid,
            'quick_cmd': f'./check {pid} --tier quick',
            'thorough_cmd': f'./check {pid} --tier thorough',
            'evidence_file': f'evidence/{pid}.json',
            'replay_cmd_template': './check --replay {path}',
            'engine': 'pyvc',
            'level_claimed': {'category': c['category'], 'text': c['text'], 'design_ref': c['design_ref']},
            'level_note': c['note'],
            'technique': c['technique'],
        })
    else:
        manifest['not_applicable'].append({'property_id': pid, 'reason': NA.get(pid, NOT_YET)})
with open(os.path.join(HERE, 'MANIFEST.json'), 'w') as fh:
    json.dump(manifest, fh, indent=1)
print('checks:', [c['property_id'] for c in manifest['checks']])
