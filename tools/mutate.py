#!/usr/bin/env python3
"""tools/mutate.py <prop> <repo-relative-file> <old> <new> [--count N] : apply a textual mutant to /repo, run the
quick check (and the repo test-suite with --tests), restore the file.  Development aid only."""
import subprocess
import sys

prop, rel, old, new = sys.argv[1:5]
run_tests = '--tests' in sys.argv
path = '/repo/' + rel
src = open(path).read()
if src.count(old) < 1:
    print('PATTERN NOT FOUND')
    sys.exit(9)
try:
    open(path, 'w').write(src.replace(old, new, 1))
    for pr in prop.split(','):
        r = subprocess.run(['./check', pr, '--tier', 'quick'], cwd='/verif', capture_output=True, text=True)
        tail = [l for l in r.stdout.splitlines() if l.startswith(('VIOLATION', 'UNDECIDED', 'CHECKER', 'KNOWN', '  obligation')) or 'tier=' in l]
        print('\n'.join(tail[:8] + tail[-1:]))
        if r.returncode not in (0, 1, 2):
            print(r.stdout[-1500:], r.stderr[-1500:])
        print(f'==> {pr} exit', r.returncode)
    if run_tests:
        t = subprocess.run('cd /repo && /venv/bin/python -m pytest -q -p no:cacheprovider 2>&1 | tail -3', shell=True, capture_output=True, text=True)
        print(t.stdout)
finally:
    open(path, 'w').write(src)
