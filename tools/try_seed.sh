#!/bin/bash
# tools/try_seed.sh <diff-file> <prop>[,<prop>...] [--tests] : apply a seeded change to /repo, run the quick checks,
# undo it straight afterwards.  Development aid (never leaves /repo modified).
diff="$1"; props="$2"; shift 2
cd /repo || exit 9
if ! git diff --quiet; then echo "/repo working tree is dirty"; exit 9; fi
if ! git apply --check "$diff" 2>/dev/null; then
  if ! git apply --3way --check "$diff" 2>/dev/null; then echo "PATCH DOES NOT APPLY: $diff"; exit 8; fi
  git apply --3way "$diff" >/dev/null 2>&1; git reset -q
else
  git apply "$diff"
fi
trap 'git -C /repo checkout -- . ; git -C /repo clean -fdq plotink test 2>/dev/null' EXIT
cd /verif
for p in ${props//,/ }; do
  out=$(./check "$p" --tier quick 2>&1); rc=$?
  echo "$out" | grep -E "^(VIOLATION|UNDECIDED|CHECKER|KNOWN|  obligation)|tier=" | head -8
  if [ $rc -ge 3 ]; then echo "$out" | tail -5; fi
  echo "==> $p exit $rc"
done
if [ "$1" == "--tests" ]; then (cd /repo && /venv/bin/python -m pytest -q -p no:cacheprovider 2>&1 | tail -1); fi
