#!/bin/bash
# tools/run_all.sh [tier] : run every claimed check on the current tree (refreshes evidence/), print a summary, validate evidence.
cd "$(dirname "$0")/.."
tier="${1:-quick}"
fail=0
for p in $(python3 -c "import json;print(' '.join(c['property_id'] for c in json.load(open('MANIFEST.json'))['checks']))"); do
  out=$(./check $p --tier $tier 2>&1); rc=$?
  echo "$out" | grep -E "^KNOWN|tier=" | cut -c1-200
  if [ $rc -ne 0 ]; then echo "!!! $p exit $rc"; echo "$out" | tail -5; fail=1; fi
done
python3-vt - <<'PY'
import json, jsonschema
m = json.load(open('MANIFEST.json'))
jsonschema.validate(m, json.load(open('/root/.vp/MANIFEST.schema.json')))
sch = json.load(open('/root/.vp/EVIDENCE.schema.json'))
for c in m['checks']:
    e = json.load(open(c['evidence_file']))
    jsonschema.validate(e, sch)
    cov = e['coverage']
    if e['level'] == 'proof' and cov.get('obligations') != cov.get('discharged'):
        print('!!! evidence mismatch', c['property_id'], cov.get('obligations'), cov.get('discharged'))
print('manifest + evidence valid')
PY
exit $fail
