#!/usr/bin/env python3
"""tools/keep_seed.py [Cxx ...] : confirm each sub-agent mutant in its scratch worktree (moved to /repo's HEAD):
tests still pass with it, demo fails with it and passes without it.  Confirmed ones are copied to
/verif/seeded/<id>-<k>/ (patch.diff, demo.py, meta.json).  Development aid."""
import json
import os
import shutil
import subprocess
import sys

PY = '/venv/bin/python'


def sh(cmd, cwd, env=None, timeout=600):
    return subprocess.run(cmd, cwd=cwd, shell=True, capture_output=True, text=True, timeout=timeout,
                          env=dict(os.environ, **(env or {})))


def main():
    head = sh('git rev-parse HEAD', '/repo').stdout.strip()
    seed_dir = os.environ.get('SEED_DIR', '/tmp/seed')
    offset = int(os.environ.get('SEED_OFFSET', '0'))
    props = sys.argv[1:] or [f'C{i:02d}' for i in range(1, 21)]
    for pid in props:
        wt = f'{seed_dir}/{pid}'
        out = f'{wt}/seed_out'
        if not os.path.isdir(out):
            print(pid, 'no seed_out')
            continue
        sh('git checkout -q -- . ; git checkout -q --detach ' + head, wt)
        for k in (1, 2, 3):
            diff, demo, meta = f'{out}/mutant{k}.diff', f'{out}/demo{k}.py', f'{out}/meta{k}.json'
            if not (os.path.exists(diff) and os.path.exists(demo)):
                continue
            env = {'PYTHONPATH': wt}
            base = sh(f'{PY} {demo}', out, env)
            ap = sh(f'git apply {diff}', wt)
            if ap.returncode != 0:
                ap = sh(f'git apply --3way {diff} && git reset -q', wt)
            if ap.returncode != 0:
                print(pid, k, 'PATCH DOES NOT APPLY on current HEAD')
                sh('git checkout -q -- .', wt)
                continue
            real_diff = sh('git diff', wt).stdout
            tests = sh(f'{PY} -m pytest -q -p no:cacheprovider 2>&1 | tail -1', wt)
            mut = sh(f'{PY} {demo}', out, env)
            sh('git checkout -q -- .', wt)
            ok = base.returncode == 0 and mut.returncode != 0 and '33 passed' in tests.stdout
            print(pid, k, 'base rc', base.returncode, 'mutant rc', mut.returncode, tests.stdout.strip(), '=> KEEP' if ok else '=> REJECT')
            if not ok:
                continue
            dst = f'/verif/seeded/{pid}-{k + offset}'
            os.makedirs(dst, exist_ok=True)
            with open(f'{dst}/patch.diff', 'w') as fh:
                fh.write(real_diff)
            shutil.copy(demo, f'{dst}/demo.py')
            m = json.load(open(meta)) if os.path.exists(meta) else {}
            m.update({'property': pid, 'confirmed_by': 'tools/keep_seed.py',
                      'ran': [f'git apply patch.diff (scratch worktree at {head[:7]})',
                              f'pytest: {tests.stdout.strip()}',
                              f'demo.py without the change: exit {base.returncode}; with it: exit {mut.returncode}'],
                      'demo_output_with_change': (mut.stdout + mut.stderr)[-600:]})
            with open(f'{dst}/meta.json', 'w') as fh:
                json.dump(m, fh, indent=1)


if __name__ == '__main__':
    main()
