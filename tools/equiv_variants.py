"""semantics-preserving rewrites of the whole package (false-alarm testing; development aid).
   usage: equiv_variants.py <reformat|flip|ifelse> <src plotink dir> <dst plotink dir>; then PLOTINK_REPO=<parent of dst> ./check Cxx"""
import ast, os, shutil, sys

FLIP = {ast.Lt: ast.Gt, ast.Gt: ast.Lt, ast.LtE: ast.GtE, ast.GtE: ast.LtE, ast.Eq: ast.Eq, ast.NotEq: ast.NotEq}

class FlipCompare(ast.NodeTransformer):
    def visit_Compare(self, node):
        self.generic_visit(node)
        if len(node.ops) == 1 and type(node.ops[0]) in FLIP and not any(isinstance(n, (ast.Call, ast.NamedExpr)) for side in (node.left, node.comparators[0]) for n in ast.walk(side)):
            return ast.Compare(left=node.comparators[0], ops=[FLIP[type(node.ops[0])]()], comparators=[node.left])
        return node

class SwapIfElse(ast.NodeTransformer):
    def visit_If(self, node):
        self.generic_visit(node)
        if node.orelse and not (len(node.orelse) == 1 and isinstance(node.orelse[0], ast.If)):
            return ast.If(test=ast.UnaryOp(op=ast.Not(), operand=node.test), body=node.orelse, orelse=node.body)
        return node

def main():
    variant, src, dst = sys.argv[1:4]
    if os.path.exists(dst):
        shutil.rmtree(dst)
    shutil.copytree(src, dst)
    for fn in os.listdir(dst):
        if not fn.endswith('.py'):
            continue
        p = os.path.join(dst, fn)
        tree = ast.parse(open(p).read())
        if variant == 'flip':
            tree = FlipCompare().visit(tree)
        elif variant == 'ifelse':
            tree = SwapIfElse().visit(tree)
        ast.fix_missing_locations(tree)
        open(p, 'w').write(ast.unparse(tree) + '\n')

main()
