#!/usr/bin/env python3
"""tools/run_seeded.py [Cxx ...] : apply each kept seeded change to /repo, run the quick check of its property,
undo it straight afterwards; writes seeded/RESULTS.json and prints a table.  Development aid."""
import json
import os
import subprocess
import sys
import time

VERIF = os.path.dirname(os.path.dirname(os.path.abspath(__file__)))


def sh(cmd, cwd, timeout=1800):
    return subprocess.run(cmd, cwd=cwd, shell=True, capture_output=True, text=True, timeout=timeout)


def main():
    manifest = json.load(open(f'{VERIF}/MANIFEST.json'))
    claimed = {c['property_id'] for c in manifest['checks']}
    want = sys.argv[1:]
    res_path = f'{VERIF}/seeded/RESULTS.json'
    results = json.load(open(res_path)) if os.path.exists(res_path) else {}
    if sh('git diff --quiet', '/repo').returncode != 0:
        print('/repo dirty')
        sys.exit(9)
    for d in sorted(os.listdir(f'{VERIF}/seeded')):
        full = f'{VERIF}/seeded/{d}'
        if not os.path.isdir(full):
            continue
        pid = d.split('-')[0]
        if want and pid not in want and d not in want:
            continue
        if pid not in claimed and not os.path.exists(f'{VERIF}/contracts/{pid.lower()}.py'):
            results[d] = {'property': pid, 'verdict': 'no check yet'}
            continue
        ap = sh(f'git apply {full}/patch.diff', '/repo')
        if ap.returncode != 0:
            results[d] = {'property': pid, 'verdict': 'patch does not apply'}
            print(d, 'PATCH DOES NOT APPLY')
            continue
        t0 = time.time()
        try:
            r = sh(f'./check {pid} --tier quick', VERIF)
        finally:
            sh('git checkout -- .', '/repo')
        lines = [l for l in r.stdout.splitlines() if l.startswith('VIOLATION')]
        obl = [l.strip() for l in r.stdout.splitlines() if l.startswith('  obligation:')]
        verdict = {0: 'MISSED (exit 0)', 1: 'caught', 2: 'undecided (exit 2)', 3: 'checker error (exit 3)'}.get(r.returncode, f'exit {r.returncode}')
        if r.returncode == 1 and not lines:
            verdict = 'CRASH (exit 1 without a VIOLATION line)'
        confirmed = any('no-failing-input-found' not in l for l in lines)
        results[d] = {'property': pid, 'verdict': verdict, 'exit': r.returncode, 'violations': len(lines),
                      'replayed_natively': confirmed if lines else None,
                      'first_obligation': (obl[0][:300] if obl else ''), 'seconds': round(time.time() - t0, 1)}
        print(f'{d:8s} {verdict:24s} {results[d]["seconds"]:6.1f}s  {obl[0][:150] if obl else r.stdout.strip().splitlines()[-1][:150] if r.stdout.strip() else ""}')
    with open(res_path, 'w') as fh:
        json.dump(results, fh, indent=1, sort_keys=True)


if __name__ == '__main__':
    main()
