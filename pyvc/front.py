"""Front end: read the real source files on every run, locate the functions under contract."""
import ast
import hashlib
import os

REPO = os.environ.get('PLOTINK_REPO', '/repo')
SITE = '/venv/lib/python3.12/site-packages'


class ModuleInfo:
    def __init__(self, modname, path):
        self.modname = modname
        self.path = path
        with open(path, 'rb') as fh:
            raw = fh.read()
        self.sha256 = hashlib.sha256(raw).hexdigest()
        self.source = raw.decode('utf-8')
        self.tree = ast.parse(self.source, filename=path)
        self.funcs = {}      # qualname ('f' or 'Class.m') -> FunctionDef
        self.classes = {}    # name -> {'bases': [...], 'methods': [...], 'consts': {name: ast expr}}
        self.globals_ast = {}  # module-level simple assignments name -> ast expr
        self.imports = {}    # local name -> ('module', dotted) | ('from', dotted, name)
        self.opaque_globals = set()
        self._index()

    def _index(self):
        for node in self.tree.body:
            if isinstance(node, ast.FunctionDef):
                self.funcs[node.name] = node
            elif isinstance(node, ast.ClassDef):
                info = {'bases': [ast.unparse(b) for b in node.bases], 'methods': [], 'consts': {}}
                for sub in node.body:
                    if isinstance(sub, ast.FunctionDef):
                        self.funcs[f'{node.name}.{sub.name}'] = sub
                        info['methods'].append(sub.name)
                    elif isinstance(sub, ast.Assign) and len(sub.targets) == 1 and isinstance(sub.targets[0], ast.Name):
                        info['consts'][sub.targets[0].id] = sub.value
                self.classes[node.name] = info
            elif isinstance(node, ast.Assign):
                for tgt in node.targets:
                    if isinstance(tgt, ast.Name):
                        self.globals_ast[tgt.id] = node.value
            elif isinstance(node, ast.Try):
                for sub in ast.walk(node):
                    if isinstance(sub, ast.Assign):
                        for tgt in sub.targets:
                            if isinstance(tgt, ast.Name):
                                self.opaque_globals.add(tgt.id)
            elif isinstance(node, ast.Import):
                for al in node.names:
                    self.imports[al.asname or al.name.split('.')[0]] = ('module', al.name if al.asname else al.name.split('.')[0])
            elif isinstance(node, ast.ImportFrom):
                base = node.module or ''
                if node.level:
                    pkg = self.modname.rsplit('.', node.level)[0]
                    base = pkg + ('.' + base if base else '')
                for al in node.names:
                    self.imports[al.asname or al.name] = ('from', base, al.name)

    def func(self, qualname):
        if qualname not in self.funcs:
            raise KeyError(f'function {qualname} not found in {self.path}')
        return self.funcs[qualname]

    def func_hash(self, qualname):
        return hashlib.sha256(ast.dump(self.func(qualname)).encode()).hexdigest()[:16]


_cache = {}


def resolve(modname):
    """dotted module name -> file path (repo working tree, or the installed ink_extensions)."""
    if modname.startswith('plotink'):
        rel = modname.replace('.', '/') + '.py'
        return os.path.join(REPO, rel)
    if modname.startswith('ink_extensions'):
        return os.path.join(SITE, modname.replace('.', '/') + '.py')
    raise KeyError(modname)


def load(modname):
    path = resolve(modname)
    key = (modname, path)
    if key not in _cache:
        _cache[key] = ModuleInfo(modname, path)
    return _cache[key]


def clear_cache():
    _cache.clear()
