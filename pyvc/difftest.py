"""Engine-versus-CPython differential (DESIGN 5.3): translation validation of the executor's model of Python.

For a function under contract and a list of CONCRETE argument tuples, the executor runs the real AST on concrete values
(one path, no solver involved beyond constant folding) and the result is compared with what the real function returns
under /venv/bin/python.  Floats are exact rationals in the executor, so float results are compared with a relative
tolerance; ints, bools, None, strings, tuples and lists of those are compared exactly.  A disagreement is a CHECKER
error (the executor mis-models Python on that path), never a property violation.
"""
from fractions import Fraction
import z3

from .engine import Ctx, Exec, Path, Ret, Raised, EngineError
from .values import (VNone, NONE, VBool, VInt, VFloat, VMpf, VTuple, VRef, HList, HDict, HSet)
from .strings import VStr, S


def to_val(p, x):
    if x is None:
        return NONE
    if isinstance(x, bool):
        return VBool(x)
    if isinstance(x, int):
        return VInt(x)
    if isinstance(x, float):
        return VFloat(Fraction(x))
    if isinstance(x, Fraction):
        return VFloat(x)
    if isinstance(x, str):
        return S(x)
    if isinstance(x, bytes):
        return S(x.decode('latin-1'), 'bytes')
    if isinstance(x, tuple):
        return VTuple([to_val(p, y) for y in x])
    if isinstance(x, list):
        if len(x) == 2 and x[0] == '__tuple__':
            return VTuple([to_val(p, y) for y in x[1]])
        return p.alloc(HList([to_val(p, y) for y in x]), 'list')
    raise EngineError(f'differential: argument {x!r}')


def from_val(p, v):
    """symbolic-but-concrete value -> JSON-able python value (floats as Fraction)"""
    if isinstance(v, VNone):
        return None
    if isinstance(v, VBool):
        if not v.conc():
            b = z3.simplify(v.z())
            if z3.is_true(b):
                return True
            if z3.is_false(b):
                return False
            raise EngineError('differential: result is not concrete')
        return bool(v.b)
    if isinstance(v, VInt):
        if v.conc():
            return int(v.t)
        t = z3.simplify(v.z())
        if z3.is_int_value(t):
            return t.as_long()
        raise EngineError('differential: result is not concrete')
    if isinstance(v, VFloat):
        if v.conc():
            return Fraction(v.t)
        t = z3.simplify(v.z())
        if z3.is_rational_value(t):
            return Fraction(t.numerator_as_long(), t.denominator_as_long())
        if z3.is_algebraic_value(t):
            return Fraction(t.approx(40).as_fraction())
        raise EngineError('differential: float result is not concrete')
    if isinstance(v, VMpf):
        t = v.t
        if isinstance(t, Fraction):
            return t
        t = z3.simplify(v.z())
        return Fraction(t.numerator_as_long(), t.denominator_as_long())
    if isinstance(v, VStr):
        if v.is_lit():
            return v.lit() if v.kind == 'str' else ('bytes', v.lit())
        raise EngineError('differential: text result is not concrete')
    if isinstance(v, VTuple):
        return tuple(from_val(p, x) for x in v.items)
    if isinstance(v, VRef):
        h = p.heap[v.ref]
        if isinstance(h, HList):
            return [from_val(p, x) for x in h.items]
        if isinstance(h, HSet):
            seen = []
            for x in h.items:
                y = from_val(p, x)
                if y not in seen:
                    seen.append(y)
            return {'set': sorted(seen)}
        return '<object>'
    raise EngineError(f'differential: result {v!r}')


def same(a, b, rel=1e-9):
    """a: engine value (Fractions for floats), b: native value (decoded JSON)"""
    if isinstance(a, Fraction) and not isinstance(b, (list, tuple, dict, str)) and b is not None and not isinstance(b, bool):
        fb = float(b)
        fa = float(a)
        return abs(fa - fb) <= rel * max(1.0, abs(fa), abs(fb))
    if isinstance(a, bool) or isinstance(b, bool):
        return isinstance(a, bool) and isinstance(b, bool) and a == b
    if isinstance(a, int) and isinstance(b, (int, float)) and not isinstance(b, bool):
        return a == b
    if isinstance(a, (tuple, list)) and isinstance(b, (tuple, list)):
        return len(a) == len(b) and all(same(x, y, rel) for x, y in zip(a, b))
    if isinstance(a, dict) and isinstance(b, dict):
        return a.keys() == b.keys() and all(same(a[k], b[k], rel) for k in a)
    return a == b


def run_engine(module, qualname, args, opts=None, setup=None, inline_all=True, mutated=None):
    """execute on concrete arguments; returns ('ret', value, mutated args) | ('raise', class)"""
    ctx = Ctx('diff')
    ctx.opts['inline_all'] = inline_all
    ctx.opts.update(opts or {})
    ex = Exec(ctx)
    p = Path()
    if setup:
        setup(ex, p)
    if ctx.opts.get('ghost_dps') is not None:
        p.ghost['mp_dps'] = VInt(int(ctx.opts['ghost_dps']))
    if ctx.opts.get('ctor'):
        # args[0]: constructor arguments, args[1:]: method arguments; the class is instantiated by running its real __init__
        from . import lib
        cls, meth = qualname.split('.')
        cvals = [to_val(p, a) for a in args[0]]
        objs = [(q, o) for q, o in lib.instantiate(ex, p, f'{module}.{cls}', cvals, {}, None)]
        if len(objs) != 1 or isinstance(objs[0][1], Raised):
            raise EngineError('differential: constructor forks / raises')
        p, obj = objs[0]
        if ctx.opts.get('history'):
            # args[1]: [[method, [arguments]], ...] executed in order on the same object; the result is the list of returned values
            rets = []
            for meth_k, margs in args[1]:
                mv = [obj] + [to_val(p, a) for a in margs]
                outs = list(ex.run_function(p, module, f'{cls}.{meth_k}', mv))
                if len(outs) != 1:
                    keep = []
                    for q, o in outs:
                        sv = z3.Solver()
                        for c in q.pc:
                            sv.add(c)
                        if sv.check() != z3.unsat:
                            keep.append((q, o))
                    outs = keep
                if len(outs) != 1:
                    raise EngineError(f'differential: {len(outs)} feasible paths in a call history')
                p, o = outs[0]
                if isinstance(o, Raised):
                    rets.append(('raise', o.cls))
                    break
                rets.append(from_val(p, o.val))
            return ('ret', rets, None)
        vals = [obj] + [to_val(p, a) for a in args[1:]]
    else:
        vals = [to_val(p, a) for a in args]
    outs = list(ex.run_function(p, module, qualname, vals))
    feas = [(q, o) for q, o in outs]
    if len(feas) != 1:
        # several paths on concrete inputs: the branch conditions did not fold -- ask the solver which one is feasible
        keep = []
        for q, o in feas:
            s = z3.Solver()
            for c in q.pc:
                s.add(c)
            if s.check() != z3.unsat:
                keep.append((q, o))
        feas = keep
    if len(feas) != 1:
        raise EngineError(f'differential: {len(feas)} feasible paths on concrete inputs for {module}.{qualname}{tuple(args)}')
    q, o = feas[0]
    if isinstance(o, Raised):
        return ('raise', o.cls, None)
    return ('ret', from_val(q, o.val), [from_val(q, v) for v in vals])


def compare(sess, module, qualname, cases, native_fn, opts=None, setup=None, rel=1e-9, check_args=False, label=None):
    """cases: list of argument tuples (JSON-able).  native_fn(cases) -> list of {'ret': value} | {'raise': class} (+ 'args')"""
    label = label or f'{module.rsplit(".", 1)[1]}.{qualname}'
    nat = native_fn(cases)
    bad = []
    n = 0
    for args, nv in zip(cases, nat):
        n += 1
        try:
            ev = run_engine(module, qualname, list(args), opts, setup)
        except EngineError as e:
            bad.append({'function': label, 'args': repr(args), 'engine': f'engine limit: {e}', 'native': nv})
            continue
        if ev[0] == 'raise':
            ok = nv.get('raise') == ev[1] or (nv.get('raise') and ev[1] in nv.get('mro', []))
        else:
            ok = 'ret' in nv and same(ev[1], nv['ret'], rel) and (not (check_args or (opts or {}).get('check_args')) or same(ev[2], nv.get('args'), rel))
        if not ok:
            bad.append({'function': label, 'args': repr(args), 'engine': repr(ev[:2]), 'native': nv})
    sess.extra_cov.setdefault('engine_vs_cpython', []).append({'function': label, 'cases': n, 'disagreements': len(bad)})
    return bad


def run_for_property(sess):
    """thorough tier: engine-vs-CPython on the property's concrete case lists; returns the list of disagreements"""
    from contracts import diffcases
    from .session import native
    bad = []
    if sess.prop in ('C05', 'C07', 'C04', 'C06', 'C16'):
        bad += run_serial_differential(sess)
    for module, qual, cases, opts in diffcases.cases_for(sess.prop, sess.seed):
        opts = dict(opts)

        def nat(cs, _m=module, _q=qual, _o=opts):
            return native('n_diff', 'call', {'module': _m, 'qualname': _q, 'cases': cs, 'dps': _o.get('ghost_dps', 15), 'ctor': _o.get('ctor', False),
                                           'history': _o.get('history', False)})
        bad += compare(sess, module, qual, cases, nat, opts=opts)
    return bad


# ------------------------------------------------------------------------------ serial layer (scripted port)
def scripted_port(script):
    """external model of a port whose reads / write faults are a concrete script (same format as native/fakeport.py)"""
    from .engine import Raised as R
    from .values import VInt as I
    state = {'reads': list(script.get('reads', [])), 'wexc': set(script.get('write_exc_at', [])), 'nw': 0}

    def handler(ex, p, h, method, args, kwargs, node):
        st = p.ghost.setdefault('port_script', {'k': 0, 'nw': 0})
        st = dict(st)
        p.ghost['port_script'] = st
        if method == 'write':
            k = st['nw']
            st['nw'] += 1
            if k in state['wexc']:
                yield p, R('SerialException', node=node)
                return
            p.events.append(('write', args[0]))
            if script.get('ack') and args[0].is_lit():
                # acknowledging device (same rule as native/n_diff.py): reply = request name + scripted data
                text = args[0].lit()
                name = text.split(',')[0].split('\r')[0]
                st['extra'] = list(st.get('extra', [])) + [name + script.get('data', '') + '\r\n']
            yield p, I(len(args[0].lit()) if args[0].is_lit() else 0)
        elif method == 'readline':
            k = st['k']
            st['k'] += 1
            allreads = state['reads'] + list(st.get('extra', []))
            item = allreads[k] if k < len(allreads) else ''
            if isinstance(item, str) and item.startswith('EXC'):
                yield p, R(item.split(':', 1)[1] if ':' in item else 'SerialException', node=node)
                return
            yield p, S(item, 'bytes')
        elif method in ('close', 'reset_input_buffer', 'flushInput'):
            from .values import NONE as N
            yield p, N
        else:
            raise EngineError(f'scripted port: {method}')
    return handler


def run_serial(layer, method, args, script, state=None):
    """engine side: returns {'ret':..., 'writes': [...], 'err_set': bool} | {'raise': cls}"""
    from .values import VHandle, HObj
    ctx = Ctx('diff')
    ctx.opts['inline_all'] = True
    ctx.externals['port'] = scripted_port(script)
    ctx.externals['logger'] = lambda ex, p, h, m, a, k, n: iter([(p, NONE)])
    ex = Exec(ctx)
    p = Path()
    port = VHandle('port', 'port0')
    if layer in ('legacy', 'legacy_motion'):
        vals = [port] + [to_val(p, a) for a in args]
        outs = list(ex.run_function(p, 'plotink.ebb_serial' if layer == 'legacy' else 'plotink.ebb_motion', method, vals))
        obj = None
    else:
        st = state or {}
        fields = {'port_name': NONE, 'port': port if st.get('port', True) else NONE, 'version': NONE, 'version_parsed': NONE, 'name': NONE,
                  'err': NONE if st.get('err') is None else S(st['err']), 'caller': NONE}
        obj = p.alloc(HObj('plotink.ebb3_motion.EBBMotionWrap', fields), 'EBBMotionWrap')
        from . import lib
        mod, qual = lib.find_method(ex, 'plotink.ebb3_motion.EBBMotionWrap', method)
        outs = list(ex.run_function(p, mod, qual, [obj] + [to_val(p, a) for a in args]))
    if len(outs) != 1:
        keep = []
        for q, o in outs:
            sv = z3.Solver()
            for c in q.pc:
                sv.add(c)
            if sv.check() != z3.unsat:
                keep.append((q, o))
        outs = keep
    if len(outs) != 1:
        raise EngineError(f'differential: {len(outs)} paths for {layer}.{method}')
    q, o = outs[0]
    if isinstance(o, Raised):
        return {'raise': o.cls}
    writes = [e[1].lit() for e in q.events if e[0] == 'write']
    out = {'ret': from_val(q, o.val), 'writes': writes}
    if obj is not None:
        out['err_set'] = not isinstance(q.heap[obj.ref].fields['err'], VNone)
    return out


def serial_cases(seed):
    import random
    rnd = random.Random(seed)
    cases = []
    lines = ['QG,3E\r\n', 'OK\r\n', '', 'ZZ\r\n', '!8 Err: x\r\n', 'EXC', 'SM\r\n', 'QS,1,2\r\n', 'R\r\n', '1\r\n', ' \r\n']
    for _ in range(120):
        reads = [rnd.choice(lines) for _ in range(rnd.randint(0, 5))]
        if rnd.random() < 0.3:
            reads = [''] * rnd.randint(1, 27) + reads
        wexc = [0] if rnd.random() < 0.1 else []
        script = {'reads': reads, 'write_exc_at': wexc}
        cases.append(('ebb3', rnd.choice(['command', 'query']), [rnd.choice(['QG', ' QS ', 'SM,1,0,0', 'R', 'RB', 'R,1', 'V'])], script))
        cases.append(('ebb3', 'query_statusbyte', [], script))
        cases.append(('legacy', rnd.choice(['command', 'query']), [rnd.choice(['QP\r', 'V\r', 'QG\r', 'SM,1,0,0\r', 'pi,E,0\r'])], script))
    return cases


def request_cases(seed):
    """every public request method of EBB3 / EBBMotionWrap and every legacy sender, on concrete arguments, against an acknowledging
    device (reply = request name + scripted data) or a silent one"""
    import random
    from contracts import methods as M
    rnd = random.Random(seed + 1)
    cases = []
    ints = [0, 1, 2, 5, 7, 100, 750, 751, 1800, 65535, -3, 2 ** 31 - 1, -2 ** 31]
    for meth in M.request_methods():
        if meth in ('command', 'query', 'query_statusbyte', 'reboot', 'bootload'):
            continue
        for _ in range(6):
            args = []
            for _nm, kind in M.METHODS[meth]:
                if kind == 'int':
                    args.append(rnd.choice(ints))
                elif kind == 'optint':
                    args.append(rnd.choice([None, 0, 1, 4, 300]))
                elif kind == 'str':
                    args.append(rnd.choice(['Bob', ' East EBB ', '', 'x' * 17]))
                else:
                    args.append(None)
            script = {'reads': [], 'write_exc_at': [], 'ack': rnd.random() < 0.8, 'data': rnd.choice(['', ',1', ',12,34', ',0,0', ',x'])}
            cases.append(('ebb3', meth, args, script))
    from . import front
    mi = front.load('plotink.ebb_motion')
    for fn in sorted(mi.funcs):
        node = mi.func(fn)
        names = [a.arg for a in node.args.args]
        if not names or names[0] != 'port_name' or fn.startswith('_'):
            continue
        nd = len(node.args.defaults)
        for _ in range(4):
            args = []
            for j, _nm in enumerate(names[1:]):
                optional = j >= len(names[1:]) - nd
                args.append(rnd.choice([None, 0, 3] if optional else ints[:10]))
            cases.append(('legacy_motion', fn, args, {'reads': ['OK\r\n'] * 4, 'write_exc_at': []}))
    return cases


def run_serial_differential(sess):
    from .session import native
    cases = serial_cases(sess.seed) if sess.prop in ('C05', 'C07') else request_cases(sess.seed)
    nat = native('n_diff', 'serial', {'cases': [[c[0], c[1], c[2], c[3]] for c in cases]})
    bad = []
    for c, nv in zip(cases, nat):
        try:
            ev = run_serial(*c)
        except EngineError as e:
            bad.append({'function': f'{c[0]}.{c[1]}', 'args': repr(c[2:]), 'engine': f'engine limit: {e}', 'native': nv})
            continue
        if 'raise' in ev or 'raise' in nv:
            ok = ev.get('raise') == nv.get('raise')
        else:
            ok = same(ev['ret'], nv['ret']) and ev['writes'] == nv['writes'] and ev.get('err_set') == nv.get('err_set')
        if not ok:
            bad.append({'function': f'{c[0]}.{c[1]}', 'args': repr(c[2:]), 'engine': repr(ev), 'native': nv})
    sess.extra_cov.setdefault('engine_vs_cpython', []).append({'function': 'serial layer (command/query/query_statusbyte, both layers)' if sess.prop in ('C05', 'C07') else 'every request method of EBB3/EBBMotionWrap and every ebb_motion sender', 'cases': len(cases), 'disagreements': len(bad)})
    return bad
