"""One check run: collect obligations from the sidecar contracts, discharge, replay, write evidence."""
import json
import os
import subprocess
import sys
import time
import traceback

import z3

from . import front, solve
from .engine import Ctx, Exec, Path, EngineError, Oblig

VERIF = os.path.dirname(os.path.dirname(os.path.abspath(__file__)))
NATIVE_PY = '/venv/bin/python'

EXIT_OK, EXIT_VIOLATION, EXIT_UNDECIDED, EXIT_CHECKER = 0, 1, 2, 3


def native(module, action, payload, timeout=3600):
    """run /verif/native/<module>.py <action> under the interpreter that imports /repo/plotink"""
    cmd = [NATIVE_PY, os.path.join(VERIF, 'native', 'run.py'), module, action]
    env = dict(os.environ, PYTHONPATH=VERIF + os.pathsep + os.environ.get('PYTHONPATH', ''))
    pr = subprocess.run(cmd, input=json.dumps(payload), capture_output=True, text=True, timeout=timeout, env=env)
    if pr.returncode != 0:
        raise RuntimeError(f'native harness failed ({module} {action}): {pr.stderr[-2000:]}')
    return json.loads(pr.stdout)


def load_known():
    path = os.path.join(VERIF, 'known_findings.json')
    if not os.path.exists(path):
        return {'findings': [], 'fixed': []}
    with open(path) as fh:
        return json.load(fh)


class Session:
    def __init__(self, prop, tier, seed):
        self.prop = prop
        self.tier = tier
        self.seed = seed
        self.t0 = time.time()
        self.ctxs = []
        self.obligations = []      # (Oblig, replay_fn | None)
        self.canaries = []         # (name, Oblig)  must be refuted
        self.covers = []           # (name, Oblig)  'hyps satisfiable' checks: goal False must be REFUTED
        self.assumptions = set()
        self.functions = {}
        self.bounded = []          # dicts describing bounded stand-ins
        self.native_violations = []   # confirmed failing inputs found natively (dict)
        self.known_printed = []
        self.notes = []
        self.level = 'proof'
        self.explanation = ''
        self.trusted_base = []
        self.stats = {'paths': 0, 'prune_calls': 0, 'prune_s': 0.0}
        self.timeout_s = 60 if tier == 'quick' else 300
        self.cvc5_all = (tier == 'thorough')
        self.extra_cov = {}
        self.engine_errors = []
        self.replay_fns = {}

    # ------------------------------------------------------------------ building
    def new_ctx(self):
        c = Ctx(self.prop)
        self.ctxs.append(c)
        return c

    def absorb(self, ctx, replay=None):
        """take the obligations a context accumulated"""
        for ob in ctx.obligations:
            self.obligations.append(ob)
            if replay is not None and 'replay' not in ob.info:
                ob.info['replay'] = replay
        ctx.obligations = []
        self.assumptions |= ctx.assumptions
        self.functions.update(ctx.functions)
        for k in self.stats:
            self.stats[k] += ctx.stats[k]
            ctx.stats[k] = 0

    def add(self, name, func, kind, hyps, goal, replay=None, info=None):
        ob = Oblig(f'{self.prop}/{name}', func, kind, hyps, goal, dict(info or {}))
        if replay is not None:
            ob.info['replay'] = replay
        self.obligations.append(ob)
        return ob

    def canary(self, name, hyps, goal):
        self.canaries.append(Oblig(f'{self.prop}/canary/{name}', 'canary', 'canary', hyps, goal))

    def cover(self, name, hyps):
        """the hypotheses must be satisfiable (guards against a vacuous precondition)"""
        self.covers.append(Oblig(f'{self.prop}/cover/{name}', 'cover', 'cover', hyps, z3.BoolVal(False)))

    def trust(self, *items):
        for it in items:
            if it not in self.trusted_base:
                self.trusted_base.append(it)

    # ------------------------------------------------------------------ finishing
    def finish(self):
        known = load_known()
        my_known = [k for k in known.get('findings', []) if k['property'] == self.prop]
        exit_code = EXIT_OK
        lines = []
        if not self.obligations and not self.bounded:
            print(f'CHECKER-ERROR property={self.prop} zero obligations generated')
            return self._write(EXIT_CHECKER, [], [], [], lines)
        res = solve.discharge(self.obligations, timeout_s=self.timeout_s, cvc5_all=self.cvc5_all)
        can = solve.discharge(self.canaries, timeout_s=min(self.timeout_s, 30), use_cvc5=True) if self.canaries else []
        cov = solve.discharge(self.covers, timeout_s=min(self.timeout_s, 30), use_cvc5=True) if self.covers else []
        violations = []
        undecided = []
        for r in res:
            if getattr(r, 'disagree', False):
                exit_code = max(exit_code, EXIT_CHECKER)
                lines.append(f'CHECKER-ERROR {r.ob.name}: {r.note}')
            elif r.verdict == 'sat':
                violations.append(r)
            elif r.verdict == 'unknown':
                undecided.append(r)
        bad_canaries = [r for r in can if r.verdict == 'unsat']
        bad_covers = [r for r in cov if r.verdict == 'unsat']
        soft_checker = []
        for r in bad_canaries:
            soft_checker.append(f'CHECKER-ERROR canary {r.ob.name} was NOT refuted: the pipeline is vacuous or unsound')
        for r in bad_covers:
            soft_checker.append(f'CHECKER-ERROR cover {r.ob.name}: precondition / path condition unsatisfiable (vacuous)')
        # replay refuted obligations
        os.makedirs(os.path.join(VERIF, 'replays'), exist_ok=True)
        vio_records = []
        seen_keys = set()
        n_replayed = 0
        for r in violations:
            key0 = r.ob.name.split('#')[0]
            if key0 in seen_keys or n_replayed >= 12:
                # one replay per distinct obligation name, at most 12 per run: the remaining refuted obligations are listed in the
                # evidence ('refuted') without a replay of their own
                continue
            n_replayed += 1
            rec = {'property': self.prop, 'obligation': r.ob.name, 'function': r.ob.func, 'kind': r.ob.kind,
                   'backend': r.backend, 'solver_model': r.model, 'trail': r.ob.info.get('trail'),
                   'source': self.functions, 'confirmed': False}
            fn = r.ob.info.get('replay')
            if fn is not None:
                try:
                    out = fn(r.model, r.ob)
                    if out:
                        rec.update(out)
                except Exception as e:       # replay trouble must not hide the refuted obligation
                    rec['replay_error'] = repr(e) + traceback.format_exc()[-1500:]
            kf = self._match_known(rec, my_known)
            if kf is not None:
                rec['known_finding'] = kf['id']
                continue
            key = rec.get('dedupe') or r.ob.name.split('#')[0]
            if key in seen_keys:
                continue
            seen_keys.add(key)
            vio_records.append(rec)
        # undecided obligations: the solver gave no verdict, so there is no counter-model to replay -- but the obligation's own native
        # search may still find a failing input on the real code; a confirmed one is a violation in its own right (never the reverse:
        # a search that finds nothing leaves the obligation undecided)
        tried_native = set()
        for r in undecided:
            fn = r.ob.info.get('replay')
            key0 = r.ob.name.split('#')[0]
            if fn is None or key0 in seen_keys or id(fn) in tried_native or len(tried_native) >= 4:
                continue
            tried_native.add(id(fn))
            try:
                out = fn({}, r.ob)
            except Exception:       # noqa
                out = None
            if out and out.get('confirmed'):
                rec = {'property': self.prop, 'obligation': r.ob.name, 'function': r.ob.func, 'kind': r.ob.kind, 'backend': r.backend,
                       'solver_model': {}, 'trail': r.ob.info.get('trail'), 'source': self.functions,
                       'note': 'the solver left this obligation undecided; the failing input below was found by the obligation\'s native search'}
                rec.update(out)
                if self._match_known(rec, my_known) is None:
                    seen_keys.add(key0)
                    vio_records.append(rec)
        for nv in self.native_violations:
            kf = self._match_known(nv, my_known)
            if kf is not None:
                continue
            vio_records.append(dict(nv, property=self.prop, confirmed=True))
        # known findings: witness replay lines
        for kf in my_known:
            st = self.known_status.get(kf['id']) if hasattr(self, 'known_status') else None
            if st is None or st:
                lines.append(f"KNOWN-FINDING: property={self.prop} {kf['id']}: {kf['description']}")
        if vio_records:
            exit_code = max(exit_code, EXIT_VIOLATION) if exit_code != EXIT_CHECKER else exit_code
            for k, rec in enumerate(vio_records[:10]):
                path = os.path.join(VERIF, 'replays', f'{self.prop}_{int(time.time())}_{k}.json')
                with open(path, 'w') as fh:
                    json.dump(rec, fh, indent=1, default=str)
                tail = '' if rec.get('confirmed') else ' no-failing-input-found'
                lines.append(f'VIOLATION property={self.prop} replay={path}{tail}')
                lines.append(f'  obligation: {rec.get("obligation")}  {rec.get("summary", "")}')
            if exit_code == EXIT_CHECKER:
                pass
            else:
                exit_code = EXIT_VIOLATION
        if soft_checker:
            # a canary / cover is judged against the current code: when the code itself is refuted the violation
            # is the verdict; otherwise a canary that verifies means the pipeline cannot be trusted
            if exit_code == EXIT_VIOLATION:
                lines.extend('note (violation takes precedence): ' + x for x in soft_checker)
            else:
                lines.extend(soft_checker)
                exit_code = EXIT_CHECKER
        if undecided and exit_code == EXIT_OK:
            exit_code = EXIT_UNDECIDED
        for r in undecided[:20]:
            lines.append(f'UNDECIDED {r.ob.name} ({r.backend}: {r.note})')
        return self._write(exit_code, res, can, cov, lines, vio_records)

    def finish_fallback(self, err, fallback):
        """bounded stand-in when the executor cannot process the code (never counted as proved)"""
        try:
            results = fallback(self)
        except Exception as e:      # noqa
            print(f'CHECKER-ERROR property={self.prop} bounded stand-in failed: {e!r}')
            traceback.print_exc()
            return EXIT_CHECKER
        os.makedirs(os.path.join(VERIF, 'replays'), exist_ok=True)
        found = [r for r in results if r.get('found')]
        lines = []
        for k, r in enumerate(found[:5]):
            path = os.path.join(VERIF, 'replays', f'{self.prop}_{int(time.time())}_b{k}.json')
            rec = {'property': self.prop, 'obligation': f'{self.prop}/bounded-stand-in/{r.get("what", "")}',
                   'engine_limit': err, 'native_input': r.get('input'), 'observed': r.get('observed'),
                   'expected': r.get('expected'), 'confirmed': True}
            with open(path, 'w') as fh:
                json.dump(rec, fh, indent=1, default=str)
            lines.append(f'VIOLATION property={self.prop} replay={path}')
            lines.append(f'  bounded stand-in {r.get("what", "")}: {r.get("input")} -> {r.get("observed")} expected {r.get("expected")}')
        tried = sum(int(r.get('tried', 1) or 1) for r in results)
        evidence = {
            'property_id': self.prop, 'tier': self.tier, 'seed': self.seed, 'level': 'other',
            'coverage': {
                'explanation': 'The executor could not process the current source (' + err[:300] + '); NOTHING was proved on this run. '
                               'A bounded native check of the same contract (executable spec as oracle) stood in: '
                               + '; '.join(f"{r.get('what')}: {'failing input found' if r.get('found') else 'no failure in its search space'}" for r in results),
                'bounded': results, 'evaluations': max(tried, 1), 'distinct_nontrivial': max(min(tried, len(results) + 1), 2),
                'rule': 'native searches listed under bounded; each enumerates / samples inputs of the real function against the executable spec',
                'samples': [r.get('input') for r in results][:5] or ['(none)'],
                'checker_cmd': f'./check {self.prop} --tier {self.tier}', 'exit_code': 1 if found else 0,
            },
            'assumptions': ['bounded stand-in only: engine limit reached'], 'wall_s': round(time.time() - self.t0, 2),
            'violations': len(found),
        }
        os.makedirs(os.path.join(VERIF, 'evidence'), exist_ok=True)
        with open(os.path.join(VERIF, 'evidence', f'{self.prop}.json'), 'w') as fh:
            json.dump(evidence, fh, indent=1, default=str)
        for ln in lines:
            print(ln)
        print(f'{self.prop} tier={self.tier}: BOUNDED stand-in only (engine limit), searches={len(results)} failing={len(found)} exit={1 if found else 0}')
        return EXIT_VIOLATION if found else EXIT_OK

    def _match_known(self, rec, my_known):
        for kf in my_known:
            m = kf.get('match', {})
            if 'obligation_prefix' in m:
                if rec.get('obligation', '').startswith(m['obligation_prefix']) or \
                        any(rec.get('obligation', '').startswith(x) for x in m.get('also', [])):
                    return kf
            if 'native_signature' in m and rec.get('signature') == m['native_signature']:
                return kf
        return None

    def _write(self, exit_code, res, can, cov, lines, vio_records=()):
        n = len(res)
        done = sum(1 for r in res if r.verdict == 'unsat')
        by_backend = {}
        solver_s = 0.0
        for r in res:
            by_backend[r.backend] = by_backend.get(r.backend, 0) + 1
            solver_s += r.seconds
        slow = sorted(res, key=lambda r: -r.seconds)[:5]
        samples = []
        for r in (res[:2] + slow[:2]):
            try:
                txt = r.ob.smt2()
            except Exception:
                txt = ''
            samples.append({'name': r.ob.name, 'function': r.ob.func, 'kind': r.ob.kind, 'verdict': r.verdict,
                            'backend': r.backend, 'seconds': round(r.seconds, 3), 'smt2_bytes': len(txt),
                            'goal': str(r.ob.goal)[:300]})
        kinds = {}
        for r in res:
            kinds[r.ob.kind] = kinds.get(r.ob.kind, 0) + 1
        coverage = {
            'obligations': n, 'discharged': done,
            'checker_cmd': f'./check {self.prop} --tier {self.tier}',
            'trusted_base': self.trusted_base,
            'functions_under_contract': self.functions,
            'obligations_by_kind': kinds, 'obligations_by_backend': by_backend,
            'solver_seconds': round(solver_s, 2),
            'slowest': [{'name': r.ob.name, 'seconds': round(r.seconds, 2), 'backend': r.backend} for r in slow],
            'paths': self.stats['paths'], 'prune_solver_calls': self.stats['prune_calls'],
            'canaries': len(can), 'canaries_refuted': sum(1 for r in can if r.verdict == 'sat'),
            'cover_checks': len(cov), 'cover_checks_sat': sum(1 for r in cov if r.verdict == 'sat'),
            'undecided': [r.ob.name for r in res if r.verdict == 'unknown'][:50],
            'refuted': [r.ob.name for r in res if r.verdict == 'sat'][:50],
            'samples': samples,
            'explanation': self.explanation,
            'bounded': self.bounded,
            'known_findings_reported': [ln for ln in lines if ln.startswith('KNOWN-FINDING')],
            'exit_code': exit_code,
        }
        coverage.update(self.extra_cov)
        if self.level != 'proof' or n == 0:
            ev = sum(b.get('evaluations', 0) for b in self.bounded)
            dn = sum(b.get('distinct_nontrivial', 0) for b in self.bounded)
            coverage['evaluations'] = max(ev, 1)
            coverage['distinct_nontrivial'] = max(dn, 2) if dn else 0
        evidence = {
            'property_id': self.prop, 'tier': self.tier, 'seed': self.seed, 'level': self.level,
            'coverage': coverage, 'assumptions': sorted(self.assumptions) + self.notes,
            'wall_s': round(time.time() - self.t0, 2), 'violations': len(vio_records),
        }
        os.makedirs(os.path.join(VERIF, 'evidence'), exist_ok=True)
        with open(os.path.join(VERIF, 'evidence', f'{self.prop}.json'), 'w') as fh:
            json.dump(evidence, fh, indent=1, default=str)
        for ln in lines:
            print(ln)
        print(f'{self.prop} tier={self.tier}: obligations={n} discharged={done} refuted={sum(1 for r in res if r.verdict == "sat")} '
              f'undecided={sum(1 for r in res if r.verdict == "unknown")} canaries={coverage["canaries_refuted"]}/{len(can)} '
              f'covers={coverage["cover_checks_sat"]}/{len(cov)} paths={self.stats["paths"]} wall={evidence["wall_s"]}s exit={exit_code}')
        return exit_code
