import argparse
import importlib
import subprocess
import z3
import json
import os
import sys
import traceback

from .session import Session, EXIT_CHECKER, EXIT_OK, native, VERIF
from .engine import EngineError


def main():
    ap = argparse.ArgumentParser()
    ap.add_argument('prop', nargs='?')
    ap.add_argument('--tier', default=os.environ.get('VERIF_TIER', 'quick'), choices=['quick', 'thorough'])
    ap.add_argument('--replay')
    ap.add_argument('--only', default=None, help='restrict to obligations/functions matching this substring (debug)')
    args = ap.parse_args()
    seed = int(os.environ.get('VERIF_SEED', '0') or 0)
    if args.replay:
        with open(args.replay) as fh:
            rec = json.load(fh)
        prop = rec['property']
        out = native('n_' + prop.lower(), 'replay', rec.get('native_input', rec))
        print(json.dumps(out, indent=1))
        sys.exit(1 if out.get('fails') else 0)
    prop = args.prop
    mod = importlib.import_module('contracts.' + prop.lower())
    sess = Session(prop, args.tier, seed)
    sess.only = args.only
    try:
        if os.environ.get('PYVC_FORCE_FALLBACK'):       # development aid: exercise the bounded stand-in path
            raise EngineError('forced by PYVC_FORCE_FALLBACK')
        try:
            mod.build(sess)
        except EngineError:
            raise
        except (KeyError, AttributeError, TypeError, IndexError, ValueError, AssertionError, z3.Z3Exception) as e:
            # a sidecar contract / loop invariant refers to a variable, field or shape the (changed) code no longer has: that is a
            # limit of the machinery, not a verdict about the code -- continue with the bounded stand-in
            traceback.print_exc()
            raise EngineError(f'the sidecar contract does not fit the shape of the code any more ({type(e).__name__}: {e})') from e
        diff_bad = []
        if args.tier == 'thorough' or os.environ.get('PYVC_DIFF'):
            from . import difftest
            diff_bad = difftest.run_for_property(sess)
        code = sess.finish()
        if diff_bad:
            for b in diff_bad[:10]:
                print(f"CHECKER-ERROR engine-vs-CPython disagreement: {b['function']}{b['args']}: engine {b['engine']} / CPython {b['native']}")
            if code == EXIT_OK:
                code = EXIT_CHECKER
    except (RuntimeError, subprocess.TimeoutExpired) as e:
        # the native harness (oracles / bounded supplements running the real code) crashed or hung: no verdict about the property
        traceback.print_exc()
        print(f'CHECKER-ERROR property={prop} native harness failure: {str(e)[-600:]}')
        sys.exit(EXIT_CHECKER)
    except EngineError as e:
        # the (changed) code is outside the executor's subset: a bounded native check of the same contract stands in,
        # labelled bounded; it can only confirm a violation with a concrete input or report that it found none
        print(f'ENGINE-LIMIT property={prop} the executor cannot process the code: {e}')
        code = None
        if sess.obligations:
            # obligations collected before the limit was reached are still decided: a refuted one is a violation in its own right
            sess.notes.append(f'PARTIAL RUN: the executor stopped at an engine limit ({e}); only the obligations generated before it were decided')
            sess.level = 'other'
            sess.explanation = ('PARTIAL: engine limit reached (' + str(e)[:200] + '); obligations generated before it were decided, the rest of the '
                                'property was NOT examined deductively on this run. ' + (sess.explanation or ''))
            pre = sess.finish()
            if pre == 1:
                code = 1
        if code is not None:
            pass
        elif hasattr(mod, 'fallback'):
            code = sess.finish_fallback(str(e), mod.fallback)
        else:
            traceback.print_exc()
            code = EXIT_CHECKER
    sys.exit(code)


if __name__ == '__main__':
    main()
