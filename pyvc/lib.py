"""Names, modules, builtins and call dispatch for the executor."""
import ast
from fractions import Fraction
import z3

from .values import (NONE, VNone, VBool, TRUE, FALSE, VInt, VFloat, VMpf, VTuple, VRef, VHandle, VModule, VFunc,
                     VExcClass, VVersion, VOpaque, HList, HDict, HSet, HObj, PINF, NINF)
from .strings import VStr, S, str_of_int
from .engine import (Raised, Ret, EngineError, EXC_PARENT, Path, Frame, to_int_val, is_num, zreal, z_abs)
from . import front, arith

EXC_NAMES = set(EXC_PARENT)


# ------------------------------------------------------------------------------ name resolution
def module_global(ex, module, name):
    try:
        mi = front.load(module)
    except KeyError:
        return None
    if name in mi.funcs and '.' not in name:
        return VFunc('repo', f'{module}.{name}')
    if name in mi.classes:
        return VFunc('class', f'{module}.{name}')
    if name in mi.imports:
        imp = mi.imports[name]
        if imp[0] == 'module':
            return VModule(imp[1])
        base, nm = imp[1], imp[2]
        if base in ('plotink', 'ink_extensions'):
            return VModule(f'{base}.{nm}')
        if base == 'math':
            return module_attr(ex, 'math', nm)
        if base.startswith('plotink.') or base.startswith('ink_extensions.'):
            if nm == 'from_dependency_import':
                return VFunc('builtin', 'from_dependency_import')
            return module_global(ex, base, nm)
        if nm in EXC_NAMES:
            return VExcClass(nm)
        return VFunc('extfunc', f'{base}.{nm}')
    if name in getattr(mi, 'opaque_globals', ()) and name not in mi.globals_ast:
        return VOpaque('object', f'{module}.{name}')
    if name in mi.globals_ast:
        node = mi.globals_ast[name]
        if isinstance(node, ast.Call) and isinstance(node.func, ast.Name) and node.func.id == 'from_dependency_import':
            return VModule(node.args[0].value)
        if isinstance(node, ast.Call) and ast.unparse(node.func) == 'logging.getLogger':
            return VHandle('logger', 'logger')
        if isinstance(node, ast.Call):
            return VOpaque('object', f'{module}.{name}')
        tmp = Path()
        tmp.frames = [Frame({}, module, '<module>')]
        res = list(ex.ev(node, tmp))
        if len(res) == 1 and not isinstance(res[0][1], Raised):
            return res[0][1]
    return None


def module_attr(ex, modname, attr):
    if modname == 'math':
        if attr == 'inf':
            if ex.ctx.opts.get('inf_symbol') is not None:
                return VFloat(ex.ctx.opts['inf_symbol'])
            return VFloat(PINF)
        if attr == 'pi':
            return VFloat(Fraction('3.141592653589793'))
        return VFunc('builtin', f'math.{attr}')
    if modname == 'mpmath':
        if attr == 'mp':
            return VHandle('mpmath.mp', 'mp')
        return VFunc('builtin', f'mpmath.{attr}')
    if modname == 'serial':
        if attr in EXC_NAMES:
            return VExcClass(attr)
        if attr == 'serialutil':
            return VModule('serial.serialutil')
        return VFunc('extfunc', f'serial.{attr}')
    if modname == 'serial.serialutil':
        if attr in EXC_NAMES:
            return VExcClass(attr)
    if modname == 'logging':
        return VFunc('extfunc', f'logging.{attr}')
    if modname.startswith('plotink.') or modname.startswith('ink_extensions.'):
        return module_global(ex, modname, attr)
    return None


def class_info(modcls):
    module, cls = modcls.rsplit('.', 1)
    return module, cls, front.load(module).classes[cls]


def find_method(ex, modcls, name):
    """(module, 'Class.meth') following single inheritance inside the repo"""
    module, cls, info = class_info(modcls)
    if name in info['methods']:
        return (module, f'{cls}.{name}')
    for b in info['bases']:
        # bases like 'ebb3_serial.EBB3'
        if '.' in b:
            modalias, bcls = b.rsplit('.', 1)
            v = module_global(ex, module, modalias)
            if isinstance(v, VModule):
                r = find_method(ex, f'{v.name}.{bcls}', name)
                if r:
                    return r
        elif b in front.load(module).classes:
            r = find_method(ex, f'{module}.{b}', name)
            if r:
                return r
    return None


def class_const_node(ex, modcls, name):
    """(module, ast expr) of a class-level assignment, following single inheritance"""
    module, cls, info = class_info(modcls)
    if name in info['consts']:
        return module, info['consts'][name]
    for b in info['bases']:
        if '.' in b:
            modalias, bcls = b.rsplit('.', 1)
            v = module_global(ex, module, modalias)
            if isinstance(v, VModule):
                r = class_const_node(ex, f'{v.name}.{bcls}', name)
                if r is not None:
                    return r
        elif b in front.load(module).classes:
            r = class_const_node(ex, f'{module}.{b}', name)
            if r is not None:
                return r
    return None


def class_const(ex, modcls, name):
    module, cls, info = class_info(modcls)
    if name in info['consts']:
        tmp = Path()
        tmp.frames = [Frame({}, module, '<class>')]
        res = list(ex.ev(info['consts'][name], tmp))
        return res[0][1]
    for b in info['bases']:
        if '.' in b:
            modalias, bcls = b.rsplit('.', 1)
            v = module_global(ex, module, modalias)
            if isinstance(v, VModule):
                r = class_const(ex, f'{v.name}.{bcls}', name)
                if r is not None:
                    return r
    return None


def builtin(name):
    if name in BUILTINS:
        return VFunc('builtin', name)
    if name in EXC_NAMES:
        return VExcClass(name)
    if name == '__name__':
        return S('plotink')
    return None


# ------------------------------------------------------------------------------ attribute store
def setattr_(ex, p, base, attr, v, node=None):
    if isinstance(base, VRef):
        h = p.heap[base.ref]
        if isinstance(h, HObj):
            hook = ex.ctx.opts.get('on_setattr')
            if hook:
                hook(ex, p, base, attr, v, node)
            h.fields[attr] = v
            yield p, _NORMAL()
            return
    if isinstance(base, VHandle) and base.kind == 'mpmath.mp' and attr == 'dps':
        p.ghost['mp_dps'] = v
        yield p, _NORMAL()
        return
    if isinstance(base, VNone):
        yield p, Raised('AttributeError', node=node)
        return
    raise EngineError(f'attribute store {attr} on {base!r}')


def _NORMAL():
    from .engine import NORMAL
    return NORMAL


# ------------------------------------------------------------------------------ calls
def call(ex, p, f, args, kwargs, node=None):
    if isinstance(f, VFunc):
        k = f.kind
        if k == 'builtin':
            # arguments a model does not look at must not be dropped silently (enumerate(x, 1), sum(x, start), max(..., key=...))
            lim = BUILTIN_ARITY.get(f.name)
            if lim is not None:
                if len(args) > lim[0] or any(kw not in lim[1] for kw in kwargs):
                    raise EngineError(f'builtin {f.name} called with arguments its model does not cover '
                                      f'({len(args)} positional, keywords {sorted(kwargs)})')
            elif kwargs:
                raise EngineError(f'builtin {f.name} called with keyword arguments {sorted(kwargs)}')
            yield from BUILTINS[f.name](ex, p, args, kwargs, node)
            return
        if k == 'repo':
            yield from call_repo(ex, p, f.name, args, kwargs, node)
            return
        if k == 'method':
            selfref, (module, qual) = f.data
            fdef = front.load(module).func(qual)
            decos = [d.id for d in fdef.decorator_list if isinstance(d, ast.Name)]
            if 'staticmethod' in decos:
                yield from call_repo(ex, p, f'{module}.{qual}', list(args), kwargs, node)
                return
            if decos and any(d not in ('staticmethod',) for d in decos) or len(decos) != len(fdef.decorator_list):
                raise EngineError(f'decorated method {qual} ({ast.unparse(fdef.decorator_list[0])}) is not modelled')
            yield from call_repo(ex, p, f'{module}.{qual}', [selfref] + args, kwargs, node)
            return
        if k == 'valmethod':
            yield from call_valmethod(ex, p, f.data, f.name, args, kwargs, node)
            return
        if k == 'ext':
            h = f.data
            handler = ex.ctx.externals.get(h.kind)
            if handler is None:
                raise EngineError(f'no external model for {h.kind}.{f.name}')
            yield from handler(ex, p, h, f.name, args, kwargs, node)
            return
        if k == 'extfunc':
            handler = ex.ctx.ext_funcs.get(f.name)
            if handler is None:
                raise EngineError(f'no external model for function {f.name}')
            yield from handler(ex, p, args, kwargs, node)
            return
        if k == 'class':
            yield from instantiate(ex, p, f.name, args, kwargs, node)
            return
        if k == 'lambda':
            lam, env = f.data
            names = [a.arg for a in lam.args.args]
            fr = p.frames[-1]
            p.frames.append(Frame(dict(env, **dict(zip(names, args))), fr.module, fr.qualname, fr.cls))
            for q, v in ex.ev(lam.body, p):
                q.frames.pop()
                yield q, v
            return
    if isinstance(f, VExcClass):
        yield p, VHandle('exception', f.name)
        return
    if hasattr(f, 'call'):
        yield from f.call(ex, p, args, kwargs, node)
        return
    raise EngineError(f'call of {f!r} line {getattr(node, "lineno", "?")}')


def call_repo(ex, p, qname, args, kwargs, node=None):
    c = ex.ctx.contracts.get(qname)
    if c is not None:
        yield from c.apply(ex, p, args, kwargs, node)
        return
    auto = ex.ctx.opts.get('auto_inline', True) and qname not in ex.ctx.opts.get('never_inline', ())
    if auto and qname not in ex.ctx.inline and not ex.ctx.opts.get('inline_all'):
        # a repository function without a contract of its own (e.g. a helper introduced by a refactoring): it is executed inline,
        # i.e. verified as part of its caller, and listed as such
        ex.ctx.assume_note(f'{qname}: no separate contract -- executed inline and verified as part of its caller')
    if qname in ex.ctx.inline or ex.ctx.opts.get('inline_all') or auto:
        parts = qname.split('.')
        # module is the longest prefix that resolves
        for cut in (len(parts) - 1, len(parts) - 2):
            module, qual = '.'.join(parts[:cut]), '.'.join(parts[cut:])
            try:
                mi = front.load(module)
            except (KeyError, FileNotFoundError):
                continue
            if qual in mi.funcs:
                break
        else:
            raise EngineError(f'cannot resolve {qname}')
        if len(p.frames) > 40:
            raise EngineError('inline recursion too deep')
        for q, out in ex.run_function(p, module, qual, args, kwargs):
            if isinstance(out, Ret):
                yield q, out.val
            else:
                yield q, out
        return
    raise EngineError(f'call to {qname} which has neither a contract nor an inline mark (line {getattr(node, "lineno", "?")})')


def instantiate(ex, p, modcls, args, kwargs, node=None):
    c = ex.ctx.contracts.get(modcls)
    if c is not None:
        yield from c.apply(ex, p, args, kwargs, node)
        return
    module, cls, info = class_info(modcls)
    fields = {}
    obj = p.alloc(HObj(modcls, fields), cls)
    init = find_method(ex, modcls, '__init__')
    if init is None:
        yield p, obj
        return
    qn = f'{init[0]}.{init[1]}'
    for q, r in call_repo(ex, p, qn, [obj] + args, kwargs, node):
        yield q, (r if isinstance(r, Raised) else obj)


def call_valmethod(ex, p, base, name, args, kwargs, node):
    from . import strops, seqops
    if isinstance(base, VStr):
        yield from strops.method(ex, p, base, name, args, kwargs, node)
        return
    if isinstance(base, VRef):
        yield from seqops.method(ex, p, base, name, args, kwargs, node)
        return
    if isinstance(base, VInt):
        if name == 'to_bytes':
            yield from seqops.int_to_bytes(ex, p, base, args, kwargs, node)
            return
    if isinstance(base, VFunc) and base.kind == 'builtin' and base.name == 'int' and name == 'from_bytes':
        yield from seqops.int_from_bytes(ex, p, args, kwargs, node)
        return
    if isinstance(base, VTuple):
        if name == 'count' or name == 'index':
            raise EngineError('tuple method')
    if hasattr(base, 'method'):
        yield from base.method(ex, p, name, args, kwargs, node)
        return
    raise EngineError(f'method {name} on {base!r}')


# ------------------------------------------------------------------------------ builtins
def b_len(ex, p, args, kwargs, node):
    from . import seqops
    (v,) = args
    if isinstance(v, VStr):
        yield p, v.length()
    elif isinstance(v, VTuple):
        yield p, VInt(len(v.items))
    elif isinstance(v, VRef):
        h = p.heap[v.ref]
        if isinstance(h, (HList, HSet)):
            yield p, VInt(len(h.items))
        elif isinstance(h, HDict):
            yield p, VInt(len(h.items))
        else:
            raise EngineError('len of object')
    elif hasattr(v, 'length'):
        yield p, v.length(ex, p)
    elif isinstance(v, (VNone, VInt, VFloat, VBool)):
        yield p, Raised('TypeError', node=node)
    else:
        raise EngineError(f'len of {v!r}')


def b_int(ex, p, args, kwargs, node):
    from . import strops
    if not args:
        yield p, VInt(0)
        return
    v = args[0]
    if len(args) > 1 or kwargs:
        base = args[1] if len(args) > 1 else kwargs.get('base')
        yield from strops.parse_int(ex, p, v, base, node)
        return
    if isinstance(v, VBool):
        yield p, to_int_val(v)
    elif isinstance(v, VInt):
        yield p, v
    elif isinstance(v, VFloat):
        yield p, arith.float_to_int(ex, p, v, 'trunc', node)
    elif isinstance(v, VMpf):
        from . import mpmodel
        yield p, mpmodel.to_int(ex, p, v, 'trunc')
    elif isinstance(v, VStr):
        yield from strops.parse_int(ex, p, v, None, node)
    elif isinstance(v, VNone):
        yield p, Raised('TypeError', node=node)
    elif hasattr(v, 'to_int'):
        yield from v.to_int(ex, p, node)
    else:
        raise EngineError(f'int({v!r})')


def b_float(ex, p, args, kwargs, node):
    from . import strops
    (v,) = args
    if isinstance(v, VFloat):
        yield p, v
    elif isinstance(v, (VInt, VBool)):
        v = to_int_val(v)
        if ex.ctx.opts['float_mode'] == 'fp':
            raise EngineError('float(int) in fp mode')
        yield p, VFloat(Fraction(v.t) if v.conc() else z3.ToReal(v.z()), prov=('int', v.z()))
    elif isinstance(v, VStr):
        yield from strops.parse_float(ex, p, v, node)
    elif isinstance(v, VNone):
        yield p, Raised('TypeError', node=node)
    elif isinstance(v, VMpf):
        from . import mpmodel
        yield p, mpmodel.to_binary64(ex, p, v, node, 'float()')
    elif hasattr(v, 'to_float'):
        yield from v.to_float(ex, p, node)
    else:
        raise EngineError(f'float({v!r})')


def b_str(ex, p, args, kwargs, node):
    from . import strops
    if not args:
        yield p, S('')
        return
    yield p, strops.format_value(ex, p, args[0], None, -1)


def b_bool(ex, p, args, kwargs, node):
    if not args:
        yield p, FALSE
        return
    yield p, VBool(ex.truth(p, args[0]))


def b_abs(ex, p, args, kwargs, node):
    yield p, arith.num_abs(ex, p, args[0])


def b_minmax(which):
    def f(ex, p, args, kwargs, node):
        from . import seqops
        if len(args) == 1 and hasattr(args[0], 'minmax'):
            yield from args[0].minmax(ex, p, which, node)        # abstract sequence with its own (library) contract of min/max
            return
        if len(args) == 1:
            for q, items in seqops.iterate(ex, p, args[0], node):
                if isinstance(items, Raised):
                    yield q, items
                    continue
                if not items:
                    yield q, Raised('ValueError', node=node)
                    continue
                yield from arith.minmax(ex, q, which, items)
            return
        yield from arith.minmax(ex, p, which, args)
    return f


def b_round(ex, p, args, kwargs, node):
    v = args[0]
    if len(args) > 1:
        raise EngineError('round with ndigits')
    if isinstance(v, (VInt, VBool)):
        yield p, to_int_val(v)
    elif isinstance(v, VFloat):
        yield p, arith.float_to_int(ex, p, v, 'round', node)
    elif isinstance(v, VMpf):
        from . import mpmodel
        yield p, mpmodel.to_int(ex, p, v, 'round')
    else:
        raise EngineError(f'round({v!r})')


def b_range(ex, p, args, kwargs, node):
    from . import seqops
    yield p, seqops.VRange(*args)


def b_list(ex, p, args, kwargs, node):
    from . import seqops
    if not args:
        yield p, p.alloc(HList([]), 'list')
        return
    if hasattr(args[0], 'as_list'):
        yield from args[0].as_list(ex, p, node)
        return
    for q, items in seqops.iterate(ex, p, args[0], node):
        if isinstance(items, Raised):
            yield q, items
        else:
            yield q, q.alloc(HList(items), 'list')


def b_tuple(ex, p, args, kwargs, node):
    from . import seqops
    if not args:
        yield p, VTuple([])
        return
    for q, items in seqops.iterate(ex, p, args[0], node):
        yield q, (items if isinstance(items, Raised) else VTuple(items))


def b_set(ex, p, args, kwargs, node):
    from . import seqops
    if not args:
        if ex.ctx.opts.get('abstract_sets'):
            from .absseq import HAbsSet
            yield p, p.alloc(HAbsSet(lambda j: z3.BoolVal(False)), 'set')
            return
        yield p, p.alloc(HSet([]), 'set')
        return
    for q, items in seqops.iterate(ex, p, args[0], node):
        yield q, (items if isinstance(items, Raised) else q.alloc(HSet(items), 'set'))


def b_enumerate(ex, p, args, kwargs, node):
    from . import seqops
    if hasattr(args[0], 'enumerate'):
        yield p, args[0].enumerate(ex, p)
        return
    for q, items in seqops.iterate(ex, p, args[0], node):
        if isinstance(items, Raised):
            yield q, items
        else:
            yield q, VTuple([VTuple([VInt(i), x]) for i, x in enumerate(items)])


def b_zip(ex, p, args, kwargs, node):
    from . import seqops
    lists = []
    q = p
    for a in args:
        res = list(seqops.iterate(ex, q, a, node))
        if len(res) != 1 or isinstance(res[0][1], Raised):
            raise EngineError('zip over forking iterable')
        q, items = res[0]
        lists.append(items)
    yield q, VTuple([VTuple(t) for t in zip(*lists)])


def b_reversed(ex, p, args, kwargs, node):
    from . import seqops
    for q, items in seqops.iterate(ex, p, args[0], node):
        yield q, (items if isinstance(items, Raised) else VTuple(list(reversed(items))))


def b_map(ex, p, args, kwargs, node):
    from . import seqops
    f = args[0]
    for q, items in seqops.iterate(ex, p, args[1], node):
        if isinstance(items, Raised):
            yield q, items
            continue

        def rec(q, i, acc):
            if i == len(items):
                yield q, VTuple(acc)
                return
            for q2, v in call(ex, q, f, [items[i]], {}, node):
                if isinstance(v, Raised):
                    yield q2, v
                else:
                    yield from rec(q2, i + 1, acc + [v])
        yield from rec(q, 0, [])


def b_divmod(ex, p, args, kwargs, node):
    a, b = args
    for q, d in ex.arith(p, 'FloorDiv', a, b, node):
        if isinstance(d, Raised):
            yield q, d
            continue
        for q2, m in ex.arith(q, 'Mod', a, b, node):
            yield q2, (m if isinstance(m, Raised) else VTuple([d, m]))


def b_sum(ex, p, args, kwargs, node):
    from . import seqops
    for q, items in seqops.iterate(ex, p, args[0], node):
        if isinstance(items, Raised):
            yield q, items
            continue
        paths = [(q, VInt(0))]
        for it in items:
            nxt = []
            for q2, acc in paths:
                nxt.extend(ex.arith(q2, 'Add', acc, it, node))
            paths = nxt
        yield from paths


def b_isinstance(ex, p, args, kwargs, node):
    v, t = args
    names = []
    if isinstance(t, VTuple):
        names = [x.name for x in t.items]
    else:
        names = [t.name]
    mp = {'int': (VInt, VBool), 'float': (VFloat,), 'str': (VStr,), 'bool': (VBool,), 'tuple': (VTuple,)}
    ok = False
    for n in names:
        if n in mp and isinstance(v, mp[n]):
            if n == 'str' and v.kind != 'str':
                continue
            ok = True
        if n == 'list' and isinstance(v, VRef) and isinstance(p.heap[v.ref], HList):
            ok = True
    yield p, VBool(ok)


def b_print(ex, p, args, kwargs, node):
    yield p, NONE


def b_from_dependency_import(ex, p, args, kwargs, node):
    yield p, VModule(args[0].lit())


# ---- math
def m_floor(ex, p, args, kwargs, node):
    v = args[0]
    if isinstance(v, (VInt, VBool)):
        yield p, to_int_val(v)
    elif isinstance(v, VMpf):
        from . import mpmodel
        yield p, arith.float_to_int(ex, p, mpmodel.to_binary64(ex, p, v, node, 'math.floor'), 'floor', node)
    else:
        yield p, arith.float_to_int(ex, p, v, 'floor', node)


def m_ceil(ex, p, args, kwargs, node):
    v = args[0]
    if isinstance(v, (VInt, VBool)):
        yield p, to_int_val(v)
    elif isinstance(v, VMpf):
        from . import mpmodel
        yield p, arith.float_to_int(ex, p, mpmodel.to_binary64(ex, p, v, node, 'math.ceil'), 'ceil', node)
    else:
        yield p, arith.float_to_int(ex, p, v, 'ceil', node)


def m_sqrt(ex, p, args, kwargs, node):
    v = args[0]
    if isinstance(v, VFloat) and v.is_fp():
        for q, r in ex.raise_unless(p, z3.Not(z3.fpLT(v.t, z3.FPVal(0.0, z3.Float64()))), 'ValueError', node):
            yield q, (r if r is not None else VFloat(z3.fpSqrt(z3.RNE(), v.t)))
        return
    v = arith._float_of(ex, p, v)
    if v.conc():
        import math
        from fractions import Fraction as Fr
        r = Fr(math.isqrt(v.t.numerator * v.t.denominator), v.t.denominator) if v.t >= 0 else None
        if r is not None and r * r == v.t:
            yield p, VFloat(r)
            return
    x = v.z()
    for q, r in ex.raise_unless(p, x >= 0, 'ValueError', node):
        if r is not None:
            yield q, r
            continue
        from .engine import fresh_name
        s = z3.Real(fresh_name('sqrt'))
        q.assume(z3.And(s >= 0, s * s == x))
        ex.ctx.assume_note('math.sqrt(x) is the exact non-negative real root (binary64 rounding not modelled)')
        yield q, VFloat(s)


def m_fabs(ex, p, args, kwargs, node):
    v = arith._float_of(ex, p, args[0])
    yield p, arith.num_abs(ex, p, v)


# name -> (maximum number of positional arguments the model reads, keyword arguments it reads)
BUILTIN_ARITY = {
    'len': (1, ()), 'int': (2, ('base',)), 'float': (1, ()), 'str': (1, ()), 'bool': (1, ()), 'abs': (1, ()), 'round': (2, ('ndigits',)),
    'range': (3, ()), 'list': (1, ()), 'tuple': (1, ()), 'set': (1, ()), 'enumerate': (1, ()), 'reversed': (1, ()), 'divmod': (2, ()),
    'sum': (1, ()), 'isinstance': (2, ()), 'min': (64, ()), 'max': (64, ()), 'zip': (64, ()), 'map': (64, ()),
    'print': (64, ('sep', 'end', 'file', 'flush')), 'math.floor': (1, ()), 'math.ceil': (1, ()), 'math.sqrt': (1, ()), 'math.fabs': (1, ()),
}

BUILTINS = {
    'math.fabs': m_fabs,
    'len': b_len, 'int': b_int, 'float': b_float, 'str': b_str, 'bool': b_bool, 'abs': b_abs,
    'min': b_minmax('min'), 'max': b_minmax('max'), 'round': b_round, 'range': b_range, 'list': b_list,
    'tuple': b_tuple, 'set': b_set, 'enumerate': b_enumerate, 'zip': b_zip, 'reversed': b_reversed,
    'map': b_map, 'divmod': b_divmod, 'sum': b_sum, 'isinstance': b_isinstance, 'print': b_print,
    'from_dependency_import': b_from_dependency_import,
    'math.floor': m_floor, 'math.ceil': m_ceil, 'math.sqrt': m_sqrt,
}


def register_mpmath():
    from . import mpmodel
    BUILTINS.update(mpmodel.BUILTINS)


register_mpmath()
