"""Assumed contract of mpmath.mpf arithmetic at the working precision (DESIGN 3.2).

An mpf value is tracked as (ideal real value t, dyadic exponent dy, absolute error bound err,
magnitude bound mag).  While err == 0 and dy is known, every operation emits the obligation
'mpf-exact': |result| * 2**dy < 2**prec, i.e. the exact result is representable with a prec-bit
significand, so round-to-nearest returns it unchanged.  Every operation also requires the ghost
global mp.dps to be 30 (prec 103) -- the obligation 'mp-dps'.
"""
from fractions import Fraction
import z3

from .values import VInt, VFloat, VBool, VMpf, VNone
from .strings import VStr
from .engine import Raised, EngineError, to_int_val, z_abs, z_trunc, z_floor, z_ceil, z_round_half_even


def prec(ex):
    return ex.ctx.opts['mp_prec']


def need_dps(ex, p):
    d = p.ghost.get('mp_dps')
    if d is None:
        raise EngineError('mp.dps ghost not initialised by the contract')
    if p.ghost.get('mp_dps_checked') is d:
        return
    p.ghost['mp_dps_checked'] = d
    if d.conc():
        if d.t != 30:
            ex.oblige(p, 'mp-dps', False, 'dps==30')
    else:
        ex.oblige(p, 'mp-dps', d.z() == 30, 'dps==30')


def exact_ob(ex, p, t, dy, what):
    if isinstance(t, Fraction):
        if abs(t) * 2 ** dy >= 2 ** prec(ex):
            ex.oblige(p, 'mpf-exact', False, what)
        return
    ex.oblige(p, 'mpf-exact', z_abs(t) * (2 ** dy) < 2 ** prec(ex), what)


def from_val(ex, p, v, what='mpf()'):
    """python number -> VMpf (conversion rounds to prec bits: exact iff representable)"""
    if isinstance(v, VMpf):
        return v
    v = to_int_val(v)
    need_dps(ex, p)
    if isinstance(v, VInt):
        t = Fraction(v.t) if v.conc() else z3.ToReal(v.z())
        exact_ob(ex, p, t, 0, f'{what}:int')
        return VMpf(t, 0)
    if isinstance(v, VFloat):
        from .arith import float_prov, _dy
        k = _dy(float_prov(v))
        if v.conc():
            # a binary64 literal converts exactly; the real model uses its decimal value
            return VMpf(v.t, k, Fraction(0) if k is not None else abs(v.t) * Fraction(1, 2 ** 52))
        return VMpf(v.z(), k)
    if isinstance(v, VStr) and v.is_lit():
        fr = Fraction(v.lit())
        from .arith import _lit_dy
        k = _lit_dy(fr)
        return VMpf(fr, k, Fraction(0) if k is not None else abs(fr) * Fraction(1, 2 ** prec(ex)))
    raise EngineError(f'mpf({v!r})')


def is_pow2(n):
    return n > 0 and (n & (n - 1)) == 0


def binop(ex, p, opn, a, b, node=None):
    line = getattr(node, 'lineno', '?')
    x = from_val(ex, p, a, f'L{line}')
    y = from_val(ex, p, b, f'L{line}')
    need_dps(ex, p)
    conc = x.conc() and y.conc()
    tx = x.t if conc else x.z()
    ty = y.t if conc else y.z()
    exact_in = (x.err == 0 and y.err == 0 and x.dy is not None and y.dy is not None)
    if opn in ('Add', 'Sub', 'Mult'):
        t = {'Add': lambda: tx + ty, 'Sub': lambda: tx - ty, 'Mult': lambda: tx * ty}[opn]()
        if exact_in:
            dy = max(x.dy, y.dy) if opn != 'Mult' else x.dy + y.dy
            exact_ob(ex, p, t, dy, f'{opn}@L{line}')
            yield p, VMpf(t, dy)
            return
        yield p, inexact(ex, p, opn, x, y, t, node)
        return
    if opn == 'Div':
        nz = (ty != 0)
        for q, r in ex.raise_unless(p, nz, 'ZeroDivisionError', node):
            if r is not None:
                yield q, r
                continue
            t = tx / ty
            if y.conc() and y.t.denominator == 1 and is_pow2(int(y.t)) and exact_in:
                yield q, VMpf(t, x.dy + int(y.t).bit_length() - 1)
            else:
                yield q, inexact(ex, q, 'Div', x, y, t, node)
        return
    raise EngineError(f'mpf operator {opn}')


def inexact(ex, p, opn, x, y, t, node):
    mode = ex.ctx.opts.get('mpf_inexact', 'error')
    if mode == 'real':
        ex.ctx.assume_note('inexact mpf operations (quotients, roots) are treated as exact real arithmetic')
        return VMpf(t, None, Fraction(0))
    if mode == 'bound':
        hook = ex.ctx.opts['mpf_bound_hook']
        return hook(ex, p, opn, x, y, t, node)
    raise EngineError(f'inexact mpf operation {opn} at line {getattr(node, "lineno", "?")} (no error model selected)')


def to_int(ex, p, v, mode):
    """int(mpf) / round(mpf) / floor / ceil as python int"""
    need_dps(ex, p)
    if v.err != 0:
        hook = ex.ctx.opts.get('mpf_toint_hook')
        if hook is None:
            raise EngineError('int conversion of an inexact mpf')
        return hook(ex, p, v, mode)
    if v.conc():
        import math
        f = v.t
        return VInt(int({'trunc': math.trunc, 'floor': math.floor, 'ceil': math.ceil, 'round': round}[mode](f)))
    t = v.z()
    r = {'trunc': z_trunc, 'floor': z_floor, 'ceil': z_ceil, 'round': z_round_half_even}[mode](t)
    if mode == 'round':
        # mpf.__round__ converts the rounded integer back through the context: exact below 2**prec
        ex.oblige(p, 'mpf-exact', z_abs(t) < 2 ** prec(ex) - 1, 'round()')
    return VInt(r)


# ---- builtins mpmath.*
def b_mpf(ex, p, args, kwargs, node):
    yield p, from_val(ex, p, args[0], f'mpf@L{getattr(node, "lineno", "?")}')


def _unary(mode):
    def f(ex, p, args, kwargs, node):
        v = from_val(ex, p, args[0])
        need_dps(ex, p)
        if mode == 'fabs':
            yield p, VMpf(abs(v.t) if v.conc() else z_abs(v.z()), v.dy, v.err, v.mag)
            return
        i = to_int(ex, p, v, mode)
        t = Fraction(i.t) if i.conc() else z3.ToReal(i.z())
        exact_ob(ex, p, t, 0, f'mpmath.{mode}')
        yield p, VMpf(t, 0)
    return f


def b_sqrt(ex, p, args, kwargs, node):
    v = from_val(ex, p, args[0])
    need_dps(ex, p)
    hook = ex.ctx.opts.get('mpf_sqrt_hook')
    if hook is None:
        raise EngineError('mpmath.sqrt has no model selected')
    yield from hook(ex, p, v, node)


BUILTINS = {
    'mpmath.mpf': b_mpf, 'mpmath.floor': _unary('floor'), 'mpmath.ceil': _unary('ceil'),
    'mpmath.fabs': _unary('fabs'), 'mpmath.sqrt': b_sqrt,
}
