"""Assumed contract of mpmath.mpf arithmetic at the working precision (DESIGN 3.2).

Values are tracked as an integer numerator over a concrete denominator, so arithmetic on them is
integer arithmetic.  While the denominator is a power of two and no rounding has happened the value is
*exact*, and every operation emits the obligation 'mpf-exact': |numerator| < 2**prec (the exact result has
a prec-bit significand, so round-to-nearest returns it unchanged).  Every operation also requires the
ghost global mp.dps to be 30 (prec 103): obligation 'mp-dps'.  Results that cannot be exact (a quotient by
6, a root) are *inexact*; what happens then is selected by ctx.opts['mpf_inexact']:
   'error' : the executor refuses (EngineError)
   'real'  : the ideal rational/real value is used and the rounding error is NOT modelled (assumption)
   'hook'  : the sidecar contract supplies the error model
"""
from fractions import Fraction
from math import gcd
import z3

from .values import VInt, VFloat, VBool, VMpf, VNone
from .strings import VStr
from .engine import Raised, EngineError, to_int_val, z_abs, z_trunc, z_floor, z_ceil, z_round_half_even


def prec(ex):
    return ex.ctx.opts['mp_prec']


def need_dps(ex, p):
    if not ex.ctx.opts.get('mpf_checks', True):
        return
    d = p.ghost.get('mp_dps')
    if d is None:
        raise EngineError('mp.dps ghost not initialised by the contract')
    if p.ghost.get('mp_dps_checked') is d:
        return
    p.ghost['mp_dps_checked'] = d
    if d.conc():
        if d.t != 30:
            ex.oblige(p, 'mp-dps', False, 'dps==30')
    else:
        ex.oblige(p, 'mp-dps', d.z() == 30, 'dps==30')


def exact_ob(ex, p, num, what):
    if not ex.ctx.opts.get('mpf_checks', True):
        return
    if isinstance(num, int):
        if abs(num) >= 2 ** prec(ex):
            ex.oblige(p, 'mpf-exact', False, what)
        return
    ex.oblige(p, 'mpf-exact', z3.And(num < 2 ** prec(ex), num > -(2 ** prec(ex))), what)


def is_pow2(n):
    return n > 0 and (n & (n - 1)) == 0


def from_val(ex, p, v, what='mpf()'):
    """python number -> VMpf (conversion rounds to prec bits: exact iff representable)"""
    if isinstance(v, VMpf):
        return v
    v = to_int_val(v)
    need_dps(ex, p)
    if isinstance(v, VInt):
        exact_ob(ex, p, v.t, f'{what}:int')
        return VMpf(v.t, 1)
    if isinstance(v, VFloat):
        if v.conc():
            fr = v.t
            if is_pow2(fr.denominator):
                return VMpf(fr.numerator, fr.denominator)
            # a non-dyadic decimal literal (0.01): mpmath sees its binary64 value; the ideal value is used
            return VMpf(fr.numerator, fr.denominator, err=abs(fr) * Fraction(1, 2 ** 52))
        if ex.ctx.opts.get('track_float') and v.prov is not None and v.prov[0] == 'idiv':
            # a binary64 quotient of two ints enters the mpf world: the engine carries the EXACT quotient, which is what the float
            # holds only if the division was exact (divisor divides the dividend, everything below 2^53)
            a_t, b_t = v.prov[1], v.prov[2]
            ex.oblige(p, 'float-exact', z3.And(b_t != 0, a_t % b_t == 0, z_abs(a_t) < 2 ** 53, z_abs(b_t) < 2 ** 53), f'{what}:int/int-quotient-is-exact')
        return VMpf(None, 1, t=v.z(), err=None)
    if isinstance(v, VStr) and v.is_lit():
        fr = Fraction(v.lit())
        if is_pow2(fr.denominator):
            return VMpf(fr.numerator, fr.denominator)
        return VMpf(fr.numerator, fr.denominator, err=abs(fr) * Fraction(1, 2 ** prec(ex)))
    raise EngineError(f'mpf({v!r})')


def lcm(a, b):
    return a * b // gcd(a, b)


def binop(ex, p, opn, a, b, node=None):
    line = getattr(node, 'lineno', '?')
    x = from_val(ex, p, a, f'L{line}')
    y = from_val(ex, p, b, f'L{line}')
    need_dps(ex, p)
    if not (x.rational() and y.rational()):
        if opn == 'Div':
            for q, r in ex.raise_unless(p, y.z() != 0, 'ZeroDivisionError', node):
                yield q, (r if r is not None else real_result(ex, q, opn, x, y, node))
        elif opn in ('Add', 'Sub', 'Mult'):
            yield p, real_result(ex, p, opn, x, y, node)
        else:
            raise EngineError(f'mpf operator {opn}')
        return
    both_exact = x.exact() and y.exact()
    if opn in ('Add', 'Sub'):
        d = lcm(x.den, y.den)
        nx, ny = x.num * (d // x.den), y.num * (d // y.den)
        num = nx + ny if opn == 'Add' else nx - ny
        yield p, finish(ex, p, opn, x, y, num, d, both_exact, node)
        return
    if opn == 'Mult':
        yield p, finish(ex, p, opn, x, y, x.num * y.num, x.den * y.den, both_exact, node)
        return
    if opn == 'Div':
        for q, r in ex.raise_unless(p, (y.num != 0), 'ZeroDivisionError', node):
            if r is not None:
                yield q, r
                continue
            if isinstance(y.num, int):
                c = y.num
                num = x.num * y.den if c > 0 else -(x.num * y.den)
                den = x.den * abs(c)
                g = gcd(y.den, den)
                if isinstance(num, int):
                    yield q, finish(ex, q, opn, x, y, num, den, both_exact, node)
                else:
                    # keep numerators free of common constant factors where the structure shows them
                    num = x.num * (y.den // g) if c > 0 else -(x.num * (y.den // g))
                    yield q, finish(ex, q, opn, x, y, num, den // g, both_exact, node)
            else:
                yield q, real_result(ex, q, opn, x, y, node)
        return
    raise EngineError(f'mpf operator {opn}')


def round_to_prec(q, bits):
    """round-to-nearest-even of the rational q to a `bits`-bit significand (what a correctly rounded mpf operation returns)"""
    if q == 0:
        return Fraction(0)
    sign = -1 if q < 0 else 1
    a = abs(Fraction(q))
    e = a.numerator.bit_length() - a.denominator.bit_length()
    if Fraction(2) ** e > a:
        e -= 1
    elif Fraction(2) ** (e + 1) <= a:
        e += 1
    scale = Fraction(2) ** (e - bits + 1)
    m = a / scale                      # in [2^(bits-1), 2^bits)
    fl = m.numerator // m.denominator
    rem = m - fl
    if rem > Fraction(1, 2) or (rem == Fraction(1, 2) and fl % 2 == 1):
        fl += 1
    return sign * fl * scale


def sqrt_to_prec(q, bits):
    """correctly rounded square root of the rational q >= 0"""
    from math import isqrt
    q = Fraction(q)
    if q == 0:
        return Fraction(0)
    k = bits + 8 + max(0, q.denominator.bit_length() - q.numerator.bit_length()) // 2 + 4
    scaled = q * (Fraction(4) ** k)
    n = scaled.numerator // scaled.denominator
    t = isqrt(n)
    inexact = (t * t != n) or (scaled.denominator != 1)
    # sqrt(q) * 2^k lies in [t, t+1); represent it as t (+ a sticky bit) and round to `bits` bits
    nb = t.bit_length()
    drop = nb - bits
    if drop <= 0:
        raise EngineError('sqrt emulation: not enough working bits')
    hi = t >> drop
    low = t & ((1 << drop) - 1)
    half = 1 << (drop - 1)
    if low > half or (low == half and (inexact or hi % 2 == 1)):
        hi += 1
    return Fraction(hi * (1 << drop), 1) / (Fraction(2) ** k)


def emu_prec(p):
    d = p.ghost.get('mp_dps')
    if d is None or not d.conc():
        raise EngineError('mpf emulation needs a concrete mp.dps')
    return max(1, int(round((int(d.t) + 1) * 3.3219280948873626)))


def finish(ex, p, opn, x, y, num, den, both_exact, node):
    line = getattr(node, 'lineno', '?')
    if ex.ctx.opts.get('mpf_inexact') == 'emulate':
        # concrete runs (engine-versus-CPython differential): every operation is correctly rounded at the current precision
        if not (isinstance(num, int) and isinstance(den, int)):
            raise EngineError('mpf emulation on symbolic operands')
        r = round_to_prec(Fraction(num, den), emu_prec(p))
        return VMpf(r.numerator, r.denominator)
    if both_exact and is_pow2(den):
        exact_ob(ex, p, num, f'{opn}@L{line}')
        return VMpf(num, den)
    # inexact: the ideal value is num/den, the stored mpf differs from it by rounding
    mode = ex.ctx.opts.get('mpf_inexact', 'error')
    if mode == 'real':
        ex.ctx.assume_note('mpf results that are not exactly representable (quotients by 6, operands already rounded) '
                           'are treated as their ideal rational values: rounding at 103 bits is not modelled')
        return VMpf(num, den, err=None)
    if mode == 'hook':
        return ex.ctx.opts['mpf_inexact_hook'](ex, p, opn, x, y, num, den, node)
    if mode == 'bound':
        return bound_result(ex, p, opn, x, y, num, den, node)
    raise EngineError(f'inexact mpf operation {opn} at line {line} (no error model selected)')


# ------------------------------------------------------------------------------ forward error analysis ('bound' mode)
def infer_mag(ex, p, num, den):
    """smallest power of two 2^k (k in 0..240) for which |num/den| <= 2^k is provable from the path condition (binary search;
    every probe is a solver query; the proved bound is recorded as an obligation so that it shows up in the evidence)"""
    if isinstance(num, int):
        k = 0
        while abs(num) > (2 ** k) * den:
            k += 1
        return Fraction(2 ** k)
    cache = p.ghost.setdefault('mag_cache', {})
    key = (num.get_id(), den)
    if key in cache:
        return cache[key]

    def provable(k):
        s = z3.Solver()
        s.set('timeout', 4000)
        for c in p.pc:
            s.add(c)
        b = (2 ** k) * den
        s.add(z3.Or(num > b, num < -b))
        return s.check() == z3.unsat
    lo, hi = 0, 240
    if not provable(hi):
        raise EngineError('mpf error analysis: no magnitude bound below 2^240 is provable for an intermediate value')
    while lo < hi:
        mid = (lo + hi) // 2
        if provable(mid):
            hi = mid
        else:
            lo = mid + 1
    # a little head-room keeps the bound stable when the solver's budget is tight on another machine
    k = min(hi + 2, 240)
    ex.oblige(p, 'mpf-magnitude', z3.And(num <= (2 ** k) * den, num >= -((2 ** k) * den)), f'|value|<=2^{k}')
    cache = dict(cache)
    cache[key] = Fraction(2 ** k)
    p.ghost['mag_cache'] = cache
    return cache[key]


def mag_of(ex, p, v):
    if v.mag is not None:
        return v.mag
    m = infer_mag(ex, p, v.num, v.den)
    v.mag = m
    return m


def bound_result(ex, p, opn, x, y, num, den, node):
    """standard model of rounding: computed = exact(op on the computed operands) * (1 + d), |d| <= 2^-prec.
    err bounds |computed - ideal|, mag bounds |ideal|."""
    u = Fraction(1, 2 ** prec(ex))
    ex_, ey_ = (x.err or Fraction(0)), (y.err or Fraction(0))
    if x.err is None or y.err is None:
        raise EngineError('mpf error analysis: operand without an error bound')
    if opn in ('Add', 'Sub'):
        e_in = ex_ + ey_
    elif opn == 'Mult':
        e_in = Fraction(0)
        if ex_ or ey_:
            bx, by = mag_of(ex, p, x), mag_of(ex, p, y)
            e_in = bx * ey_ + by * ex_ + ex_ * ey_
    elif opn == 'Div':
        if ey_:
            raise EngineError('mpf error analysis: division by an inexact value')
        c = Fraction(y.num, y.den) if isinstance(y.num, int) else None
        if c is None or c == 0:
            raise EngineError('mpf error analysis: division by a symbolic value')
        e_in = ex_ / abs(c)
    else:
        raise EngineError(f'mpf error analysis: operator {opn}')
    mag = infer_mag(ex, p, num, den)
    err = e_in + u * (mag + e_in)
    ex.ctx.assume_note('mpmath standard model: each operation returns the exact result of its (computed) operands rounded to 103 bits, '
                       'relative error <= 2^-103; forward error bounds are propagated and magnitude bounds are proved (obligations mpf-magnitude)')
    return VMpf(num, den, err=err, mag=mag)


def real_result(ex, p, opn, x, y, node):
    mode = ex.ctx.opts.get('mpf_inexact', 'error')
    if mode not in ('real', 'hook'):
        raise EngineError(f'inexact mpf operation {opn} at line {getattr(node, "lineno", "?")} (no error model selected)')
    ex.ctx.assume_note('mpf operations on non-rational values (roots, general quotients) are treated as exact real arithmetic')
    tx, ty = x.z(), y.z()
    t = {'Add': lambda: tx + ty, 'Sub': lambda: tx - ty, 'Mult': lambda: tx * ty, 'Div': lambda: tx / ty}[opn]()
    return VMpf(None, 1, t=t, err=None)


def to_int(ex, p, v, mode):
    """int(mpf) / round(mpf) / floor / ceil as python int"""
    need_dps(ex, p)
    if not v.exact():
        hook = ex.ctx.opts.get('mpf_toint_hook')
        if hook is not None:
            r = hook(ex, p, v, mode)
            if r is not None:
                return r
        if ex.ctx.opts.get('mpf_inexact') not in ('real', 'hook'):
            raise EngineError('int conversion of an inexact mpf')
    if not v.rational():
        t = v.z()
        return VInt({'trunc': z_trunc, 'floor': z_floor, 'ceil': z_ceil, 'round': z_round_half_even}[mode](t))
    if v.conc():
        import math
        f = v.t
        return VInt(int({'trunc': math.trunc, 'floor': math.floor, 'ceil': math.ceil, 'round': round}[mode](f)))
    n, d = v.num, v.den
    if d == 1:
        r = n
    elif mode == 'floor':
        r = n / d
    elif mode == 'ceil':
        r = -((-n) / d)
    elif mode == 'trunc':
        r = z3.If(n >= 0, n / d, -((-n) / d))
    else:
        f = (2 * n + d) / (2 * d)
        tie = ((2 * n + d) % (2 * d)) == 0
        r = z3.If(z3.And(tie, f % 2 == 1), f - 1, f)
    if mode == 'round' and v.exact():
        # mpf.__round__ converts the rounded integer back through the context: exact below 2**prec
        exact_ob(ex, p, r, 'round()')
    return VInt(r)


def to_binary64(ex, p, v, node, what):
    """float(mpf) -- also what math.floor / math.ceil / math.trunc do to an mpf first (mpf defines none of __floor__, __ceil__,
    __trunc__): the value is rounded to binary64.  Concrete values are rounded exactly as CPython does; for symbolic values the
    conversion must be EXACT (obligation float-exact: power-of-two denominator and |numerator| < 2^53), otherwise the model refuses."""
    line = getattr(node, 'lineno', '?')
    if v.rational() and isinstance(v.num, int):
        return VFloat(Fraction(float(Fraction(v.num, v.den))))
    if v.rational() and v.exact() and is_pow2(v.den):
        ex.oblige(p, 'float-exact', z3.And(v.num < 2 ** 53, v.num > -(2 ** 53)), f'mpf->float({what})@L{line}')
        return VFloat(z3.ToReal(v.num) / v.den if v.den != 1 else z3.ToReal(v.num))
    ex.oblige(p, 'float-exact', False, f'mpf->float({what})-of-an-inexact-value@L{line}')
    return VFloat(v.z())


# ---- builtins mpmath.*
def b_mpf(ex, p, args, kwargs, node):
    yield p, from_val(ex, p, args[0], f'mpf@L{getattr(node, "lineno", "?")}')


def _unary(mode):
    def f(ex, p, args, kwargs, node):
        v = from_val(ex, p, args[0])
        need_dps(ex, p)
        if mode == 'fabs':
            if v.rational():
                yield p, VMpf(abs(v.num) if v.conc() else z_abs(v.num), v.den, err=v.err)
            else:
                yield p, VMpf(None, 1, t=(abs(v.t) if v.conc() else z_abs(v.z())), err=v.err, mag=v.mag)
            return
        i = to_int(ex, p, v, mode)
        exact_ob(ex, p, i.t, f'mpmath.{mode}')
        yield p, VMpf(i.t, 1)
    return f


def b_sqrt(ex, p, args, kwargs, node):
    v = from_val(ex, p, args[0])
    need_dps(ex, p)
    hook = ex.ctx.opts.get('mpf_sqrt_hook')
    if hook is None and ex.ctx.opts.get('mpf_inexact') == 'emulate' and v.rational() and isinstance(v.num, int) and v.num >= 0:
        r = sqrt_to_prec(Fraction(v.num, v.den), emu_prec(p))
        yield p, VMpf(r.numerator, r.denominator)
        return
    if hook is None:
        raise EngineError('mpmath.sqrt has no model selected')
    yield from hook(ex, p, v, node)


class WorkDps:
    """mpmath.workdps(n) context manager: mp.dps := n inside the block, restored afterwards"""
    pytype = 'contextmanager'

    def __init__(self, n):
        self.n = n

    def cm_enter(self, ex, p):
        self.saved = p.ghost.get('mp_dps')
        p.ghost['mp_dps'] = self.n
        from .values import NONE
        return NONE

    def cm_exit(self, ex, p):
        p.ghost['mp_dps'] = self.saved


def b_workdps(ex, p, args, kwargs, node):
    yield p, WorkDps(to_int_val(args[0]))


BUILTINS = {
    'mpmath.workdps': b_workdps,
    'mpmath.mpf': b_mpf, 'mpmath.floor': _unary('floor'), 'mpmath.ceil': _unary('ceil'),
    'mpmath.fabs': _unary('fabs'), 'mpmath.sqrt': b_sqrt,
}
