"""Abstract (unbounded) collections for deductive, pointwise reasoning.

VAbsSeq : a list of unknown length n whose elements are characterised by a membership predicate over element
          "keys" (a fixed tuple of z3 terms) and/or an index function.  Loops over it need an inductive invariant
          (LoopSpec with .bind); filtering comprehensions produce another VAbsSeq with mem' = mem /\\ cond, n' <= n.
HAbsSet : heap set with a membership predicate (add / |= / in), optional ghost data maintained by hooks.
"""
import ast
import z3

from .values import Val, VInt, VBool, VTuple, VRef, NONE
from .engine import Raised, EngineError, NORMAL, fresh_name


class VAbsSeq(Val):
    pytype = 'list'

    def __init__(self, n, make, mem=None, elem=None, name='seq'):
        """n: z3 Int length; make(tag) -> (element Val, key: list of z3 terms); mem(key) -> z3 Bool;
        elem(index z3 Int) -> (element Val, key)"""
        self.n = n
        self.make = make
        self.mem = mem
        self.elem = elem
        self.name = name

    def length(self, ex, p):
        return VInt(self.n)

    def truth(self, ex, p):
        return self.n > 0

    def getitem(self, ex, p, idx, node=None):
        """s[i] for an indexed abstract sequence: IndexError unless -n <= i < n"""
        from .engine import to_int_val
        if self.elem is None:
            raise EngineError('indexing an abstract sequence without an index model')
        idx = to_int_val(idx)
        if not isinstance(idx, VInt):
            yield p, Raised('TypeError', node=node)
            return
        t = idx.z()
        ok = z3.And(t >= -self.n, t < self.n)
        for q, r in ex.raise_unless(p, ok, 'IndexError', node):
            if r is not None:
                yield q, r
                continue
            pos = t if (idx.conc() and idx.t >= 0) else (self.n + t if (idx.conc() and idx.t < 0) else z3.If(t < 0, t + self.n, t))
            v, _ = self.elem(z3.simplify(pos) if not isinstance(pos, int) else z3.IntVal(pos))
            yield q, v

    def getslice(self, ex, p, lo, hi, node=None):
        """s[a:b] with small concrete a >= 0 and b <= 0 / absent: a view"""
        from .engine import to_int_val
        from .values import VNone
        a = 0 if lo is None or isinstance(lo, VNone) else to_int_val(lo)
        b = 0 if hi is None or isinstance(hi, VNone) else to_int_val(hi)
        if not (a == 0 or (a.conc() and a.t >= 0)) or not (b == 0 or (b.conc() and b.t <= 0)):
            raise EngineError('slice of an abstract sequence with non-literal bounds')
        a = 0 if a == 0 else a.t
        b = 0 if b == 0 else -b.t
        if hi is not None and not isinstance(hi, VNone) and b == 0:
            raise EngineError('slice s[a:0] of an abstract sequence')
        n2 = z3.If(self.n - a - b < 0, 0, self.n - a - b)
        base = self
        view = VAbsSeq(z3.simplify(n2), self.make, elem=(lambda i, _a=a: base.elem(z3.simplify(i + _a))) if self.elem else None,
                       name=f'{self.name}[{a}:{-b if b else ""}]')
        view.offset = a
        view.parent = self
        yield p, view

    def iterate(self, ex, p, node=None):
        raise EngineError(f'iteration over the abstract sequence {self.name} needs a loop invariant '
                          f'(line {getattr(node, "lineno", "?")})')
        yield   # pragma: no cover

    def listcomp(self, ex, p, e):
        """[elt for target in self if conds]  with elt the identity on the element: a filter"""
        gen = e.generators[0]
        if self.mem is None:
            raise EngineError('comprehension over an abstract sequence without a membership view')
        elemv, key = self.make(fresh_name('flt'))
        saved = dict(p.env)
        scratch = p.fork()
        res = list(ex.assign(scratch, gen.target, elemv))
        if len(res) != 1 or res[0][1] is not NORMAL:
            raise EngineError('comprehension target does not match the element shape')
        q = res[0][0]
        conds = []
        for c in gen.ifs:
            r = list(ex.ev(c, q))
            if len(r) != 1 or isinstance(r[0][1], Raised) or len(r[0][0].pc) != len(q.pc):
                raise EngineError('comprehension filter is not a pure boolean expression')
            t = ex.truth(q, r[0][1])
            conds.append(z3.BoolVal(t) if isinstance(t, bool) else t)
        r = list(ex.ev(e.elt, q))
        if len(r) != 1 or isinstance(r[0][1], Raised):
            raise EngineError('comprehension element expression forks / raises')
        if not same_value(ex, q, r[0][1], elemv):
            raise EngineError('only filtering comprehensions (element expression == element) are modelled on abstract sequences')
        cond = z3.And(*conds) if conds else z3.BoolVal(True)
        base_mem = self.mem
        key0 = list(key)

        def mem2(k, _cond=cond, _key0=key0, _m=base_mem):
            return z3.And(_m(k), z3.substitute(_cond, *[(a, b) for a, b in zip(_key0, k)]))
        n2 = z3.Int(fresh_name('len_filtered'))
        p.assume(z3.And(n2 >= 0, n2 <= self.n))
        ex.ctx.assume_note('a filtering list comprehension over a list of length n yields a list of length <= n whose elements are '
                           'exactly the elements satisfying the filter (model of the comprehension on abstract sequences)')
        out = VAbsSeq(n2, self.make, mem=mem2, name=f'{self.name}|filter')
        out.parent = self
        out.filter_cond = lambda k, _cond=cond, _key0=key0: z3.substitute(_cond, *[(a, b) for a, b in zip(_key0, k)])
        yield p, out


def same_value(ex, p, a, b):
    """structural identity of two symbolic values (same z3 terms)"""
    if isinstance(a, VTuple) and isinstance(b, VTuple):
        return len(a.items) == len(b.items) and all(same_value(ex, p, x, y) for x, y in zip(a.items, b.items))
    if hasattr(a, 'z') and hasattr(b, 'z') and type(a) is type(b):
        try:
            return a.z().eq(b.z())
        except Exception:
            return False
    return a is b


class HAbsSet:
    """heap object: a set given by a membership predicate over one z3 term; `ghost` is free for contracts"""
    def __init__(self, mem, ghost=None):
        self.mem = mem
        self.ghost = dict(ghost or {})
        self.items = None

    def copy(self):
        return HAbsSet(self.mem, self.ghost)


def key_of(v):
    if isinstance(v, (VInt, VBool)):
        return v.z() if isinstance(v, VInt) else z3.If(v.z(), 1, 0)
    raise EngineError(f'abstract set element {v!r} (only ints are modelled)')


def set_add(ex, p, ref, v):
    h = p.heap[ref.ref]
    k = key_of(v)
    old = h.mem
    hook = ex.ctx.opts.get('on_set_add')
    if hook:
        hook(ex, p, h, k)
    h.mem = lambda j, _old=old, _k=k: z3.Or(_old(j), j == _k)


def set_union_inplace(ex, p, ref, other):
    h, o = p.heap[ref.ref], p.heap[other.ref]
    if not isinstance(o, HAbsSet):
        raise EngineError('union of an abstract set with a concrete one')
    a, b = h.mem, o.mem
    hook = ex.ctx.opts.get('on_set_union')
    if hook:
        hook(ex, p, h, o)
    h.mem = lambda j, _a=a, _b=b: z3.Or(_a(j), _b(j))
