"""Sequences: tuples, heap lists, dicts, sets, ranges, comprehensions."""
import ast
import z3

from .values import (NONE, VNone, VBool, TRUE, FALSE, VInt, VFloat, VTuple, VRef, VHandle, VFunc, Val,
                     HList, HDict, HSet, HObj)
from .strings import VStr, S
from .engine import Raised, EngineError, NORMAL, BRK, CONT, Ret, to_int_val


class VRange(Val):
    pytype = 'range'

    def __init__(self, *args):
        args = [to_int_val(a) for a in args]
        if len(args) == 1:
            self.lo, self.hi, self.step = VInt(0), args[0], VInt(1)
        elif len(args) == 2:
            self.lo, self.hi, self.step = args[0], args[1], VInt(1)
        else:
            self.lo, self.hi, self.step = args

    def conc(self):
        return self.lo.conc() and self.hi.conc() and self.step.conc()

    def items(self):
        return [VInt(i) for i in range(self.lo.t, self.hi.t, self.step.t)]


def norm_index(ex, p, idx, n, node):
    """concrete python index into a concrete-length sequence: yields (path, int | Raised)"""
    idx = to_int_val(idx)
    if not isinstance(idx, VInt):
        yield p, Raised('TypeError', node=node)
        return
    if idx.conc():
        i = idx.t
        if i < 0:
            i += n
        if 0 <= i < n:
            yield p, i
        else:
            yield p, Raised('IndexError', node=node)
        return
    # symbolic index over a concrete-length sequence: fork over the positions
    t = idx.z()
    inb = z3.And(t >= -n, t < n)
    for q, c in ex.branch(p, inb, 'idx'):
        if not c:
            yield q, Raised('IndexError', node=node)
            continue
        rest = q
        for k in range(-n, n):
            if rest is None:
                break
            got = list(ex.branch(rest, t == k, f'i{k}'))
            rest = None
            for q2, cc in got:
                if cc:
                    yield q2, (k + n if k < 0 else k)
                else:
                    rest = q2


def get_item(ex, p, base, idx, node=None):
    from . import strops
    if hasattr(base, 'getitem'):
        yield from base.getitem(ex, p, idx, node)
        return
    if isinstance(base, VStr):
        yield from strops.get_item(ex, p, base, idx, node)
        return
    if isinstance(base, VTuple):
        for q, i in norm_index(ex, p, idx, len(base.items), node):
            yield q, (i if isinstance(i, Raised) else base.items[i])
        return
    if isinstance(base, VRef):
        h = p.heap[base.ref]
        if isinstance(h, HObj):
            from . import lib
            m = lib.find_method(ex, h.cls, '__getitem__')
            if m is None:
                yield p, Raised('TypeError', node=node)
                return
            yield from lib.call_repo(ex, p, f'{m[0]}.{m[1]}', [base, idx], {}, node)
            return
        if isinstance(h, HList):
            for q, i in norm_index(ex, p, idx, len(h.items), node):
                yield q, (i if isinstance(i, Raised) else q.heap[base.ref].items[i])
            return
        if isinstance(h, HDict):
            if isinstance(idx, (VInt, VBool)) and not to_int_val(idx).conc():
                # symbolic int key over a concrete dict: fork over the keys, KeyError otherwise
                t = to_int_val(idx).z()
                rest = p
                for k, v in h.items.items():
                    if not isinstance(k, int) or rest is None:
                        continue
                    got = list(ex.branch(rest, t == k, f'k{k}'))
                    rest = None
                    for q2, cc in got:
                        if cc:
                            yield q2, v
                        else:
                            rest = q2
                if rest is not None:
                    yield rest, Raised('KeyError', node=node)
                return
            k = ex.hashable(idx)
            if k in h.items:
                yield p, h.items[k]
            else:
                yield p, Raised('KeyError', node=node)
            return
    if isinstance(base, VNone):
        yield p, Raised('TypeError', node=node)
        return
    raise EngineError(f'subscript of {base!r} line {getattr(node, "lineno", "?")}')


def slice_bounds(lo, hi, n):
    """Concrete Python slice normalisation (step 1) -> (start, stop)"""
    def norm(v, default):
        if v is None or isinstance(v, VNone):
            return default
        v = to_int_val(v)
        if not v.conc():
            raise EngineError('symbolic slice bound on a concrete sequence')
        i = v.t
        if i < 0:
            i += n
            if i < 0:
                i = 0
        if i > n:
            i = n
        return i
    return norm(lo, 0), norm(hi, n)


def get_slice(ex, p, base, lo, hi, st, node=None):
    from . import strops
    if st is not None and not (isinstance(st, VInt) and st.conc() and st.t == 1):
        raise EngineError('slice step')
    if hasattr(base, 'getslice'):
        yield from base.getslice(ex, p, lo, hi, node)
        return
    if isinstance(base, VStr):
        yield from strops.get_slice(ex, p, base, lo, hi, node)
        return
    if isinstance(base, VTuple):
        a, b = slice_bounds(lo, hi, len(base.items))
        yield p, VTuple(base.items[a:b] if b > a else [])
        return
    if isinstance(base, VRef) and isinstance(p.heap[base.ref], HList):
        items = p.heap[base.ref].items
        a, b = slice_bounds(lo, hi, len(items))
        yield p, p.alloc(HList(items[a:b] if b > a else []), 'list')
        return
    raise EngineError(f'slice of {base!r}')


def set_item(ex, p, base, idx, v, node=None):
    if hasattr(base, 'setitem'):
        yield from base.setitem(ex, p, idx, v, node)
        return
    if isinstance(base, VRef):
        h = p.heap[base.ref]
        if isinstance(h, HObj):
            from . import lib
            m = lib.find_method(ex, h.cls, '__setitem__')
            if m is None:
                yield p, Raised('TypeError', node=node)
                return
            for q, r in lib.call_repo(ex, p, f'{m[0]}.{m[1]}', [base, idx, v], {}, node):
                yield q, (r if isinstance(r, Raised) else NORMAL)
            return
        if isinstance(h, HList):
            for q, i in norm_index(ex, p, idx, len(h.items), node):
                if isinstance(i, Raised):
                    yield q, i
                else:
                    q.heap[base.ref].items[i] = v
                    yield q, NORMAL
            return
        if isinstance(h, HDict):
            h.items[ex.hashable(idx)] = v
            yield p, NORMAL
            return
    if isinstance(base, (VTuple, VStr)):
        yield p, Raised('TypeError', node=node)
        return
    raise EngineError(f'item store on {base!r}')


def set_slice(ex, p, base, lo, hi, st, v, node=None):
    if st is not None:
        raise EngineError('slice step store')
    if hasattr(base, 'setslice'):
        yield from base.setslice(ex, p, lo, hi, v, node)
        return
    if isinstance(base, VRef) and isinstance(p.heap[base.ref], HList):
        for q, new in iterate(ex, p, v, node):
            if isinstance(new, Raised):
                yield q, new
                continue
            items = q.heap[base.ref].items
            a, b = slice_bounds(lo, hi, len(items))
            if b < a:
                b = a          # Python: a slice whose stop lies before its start is empty, located at start
            items[a:b] = new
            yield q, NORMAL
        return
    raise EngineError(f'slice store on {base!r}')


def unpack(ex, p, v, n, node=None):
    if hasattr(v, 'unpack'):
        yield from v.unpack(ex, p, n, node)
        return
    for q, items in iterate(ex, p, v, node):
        if isinstance(items, Raised):
            yield q, items
        elif len(items) != n:
            yield q, Raised('ValueError', node=node)
        else:
            yield q, items


def iterate(ex, p, v, node=None):
    """yield (path, [items] | Raised) for an iterable of concrete length"""
    if isinstance(v, VTuple):
        yield p, list(v.items)
    elif isinstance(v, VRange):
        if not v.conc():
            # symbolic bounds: fork over the (small) possible lengths; beyond the limit an invariant is needed
            if not (v.step.conc() and v.step.t == 1):
                raise EngineError('range with symbolic step')
            limit = ex.ctx.opts.get('range_fork_limit', 8)
            n = v.hi.z() - v.lo.z()
            rest = p
            for k in range(limit + 1):
                if rest is None:
                    break
                cond = (n <= 0) if k == 0 else (n == k)
                got = list(ex.branch(rest, cond, f'range{k}'))
                rest = None
                for q2, cc in got:
                    if cc:
                        yield q2, [VInt(z3.simplify(v.lo.z() + i)) for i in range(k)]
                    else:
                        rest = q2
            if rest is not None:
                raise EngineError(f'range with symbolic bounds may exceed {limit} iterations: needs a loop invariant '
                                  f'(line {getattr(node, "lineno", "?")})')
            return
        yield p, v.items()
    elif isinstance(v, VRef):
        h = p.heap[v.ref]
        if isinstance(h, (HList, HSet)):
            yield p, list(h.items)
        elif isinstance(h, HDict):
            out = []
            for k in h.items:
                out.append(VInt(k) if isinstance(k, int) else S(k))
            yield p, out
        else:
            yield p, Raised('TypeError', node=node)
    elif isinstance(v, VStr):
        from . import strops
        yield from strops.iterate(ex, p, v, node)
    elif isinstance(v, (VNone, VInt, VFloat, VBool)):
        yield p, Raised('TypeError', node=node)
    elif hasattr(v, 'iterate'):
        yield from v.iterate(ex, p, node)
    else:
        raise EngineError(f'iteration over {v!r} line {getattr(node, "lineno", "?")}')


def listcomp(ex, p, e):
    if len(e.generators) != 1:
        raise EngineError('nested comprehension')
    gen = e.generators[0]
    for q, it in ex.ev(gen.iter, p):
        if isinstance(it, Raised):
            yield q, it
            continue
        hook = ex.ctx.opts.get('listcomp_hook')
        if hook is not None:
            r = hook(ex, q, e, it)          # contract-supplied abstract value for a comprehension (e.g. over a symbolic range)
            if r is not None:
                yield q, r
                continue
        if hasattr(it, 'listcomp'):
            yield from it.listcomp(ex, q, e)
            continue
        for q1, items in iterate(ex, q, it, e):
            if isinstance(items, Raised):
                yield q1, items
                continue
            saved = dict(q1.env)

            def rec(q, i, acc):
                if i == len(items):
                    # comprehension variables do not leak
                    for name in _target_names(gen.target):
                        if name in saved:
                            q.env[name] = saved[name]
                        else:
                            q.env.pop(name, None)
                    yield q, q.alloc(HList(acc), 'list')
                    return
                for q2, out in ex.assign(q, gen.target, items[i]):
                    if out is not NORMAL:
                        yield q2, out
                        continue

                    def conds(q, j):
                        if j == len(gen.ifs):
                            yield q, True
                            return
                        for q3, t in ex.ev(gen.ifs[j], q):
                            if isinstance(t, Raised):
                                yield q3, t
                                continue
                            for q4, c in ex.branch(q3, ex.truth(q3, t), 'lc'):
                                if c:
                                    yield from conds(q4, j + 1)
                                else:
                                    yield q4, False
                    for q3, keep in conds(q2, 0):
                        if isinstance(keep, Raised):
                            yield q3, keep
                        elif keep:
                            for q4, v in ex.ev(e.elt, q3):
                                if isinstance(v, Raised):
                                    yield q4, v
                                else:
                                    yield from rec(q4, i + 1, acc + [v])
                        else:
                            yield from rec(q3, i + 1, acc)
            yield from rec(q1, 0, [])


def _target_names(t):
    if isinstance(t, ast.Name):
        return [t.id]
    out = []
    for x in getattr(t, 'elts', []):
        out.extend(_target_names(x))
    return out


def for_with_invariant(ex, s, p, it, spec, key):
    """for-loop over a symbolic sequence / range with an inductive invariant (spec supplies binding)."""
    def bind(h):
        # spec.bind yields (path, has_next) and assigns the loop target on the has_next path
        yield from spec.bind(ex, h, s, it)
    yield from ex.loop_with_invariant(s, p, spec, key, bind=bind)


# ------------------------------------------------------------------------------ methods on heap containers
def method(ex, p, base, name, args, kwargs, node):
    h = p.heap[base.ref]
    from .absseq import HAbsSet, set_add
    if isinstance(h, HAbsSet):
        if name == 'add':
            set_add(ex, p, base, args[0])
            yield p, NONE
            return
        raise EngineError(f'abstract set method {name}')
    if base.ref in p.ghost.get('shared_refs', ()) and name in ('append', 'extend', 'insert', 'pop', 'remove', 'reverse',
                                                                'add', 'clear', 'sort', 'update'):
        # a class-level (shared) container is being mutated through an instance: state leaks between instances
        ex.oblige(p, 'frame', False, f'mutates-shared-class-attribute-via-{name}@L{getattr(node, "lineno", "?")}')
        yield p, NONE
        return
    if isinstance(h, HList):
        if name == 'append':
            h.items.append(args[0])
            yield p, NONE
        elif name == 'extend':
            for q, items in iterate(ex, p, args[0], node):
                if isinstance(items, Raised):
                    yield q, items
                else:
                    q.heap[base.ref].items.extend(items)
                    yield q, NONE
        elif name == 'copy':
            yield p, p.alloc(HList(h.items), 'list')
        elif name == 'pop':
            if not h.items:
                yield p, Raised('IndexError', node=node)
                return
            if args:
                for q, i in norm_index(ex, p, args[0], len(h.items), node):
                    if isinstance(i, Raised):
                        yield q, i
                    else:
                        yield q, q.heap[base.ref].items.pop(i)
            else:
                yield p, h.items.pop()
        elif name == 'remove':
            # first occurrence
            def rec(q, i):
                items = q.heap[base.ref].items
                if i == len(items):
                    yield q, Raised('ValueError', node=node)
                    return
                for q2, c in ex.branch(q, ex.eq(q, items[i], args[0]), f'rm{i}'):
                    if c:
                        del q2.heap[base.ref].items[i]
                        yield q2, NONE
                    else:
                        yield from rec(q2, i + 1)
            yield from rec(p, 0)
        elif name == 'insert':
            i = to_int_val(args[0])
            if not i.conc():
                raise EngineError('insert at symbolic index')
            h.items.insert(i.t, args[1])
            yield p, NONE
        elif name == 'index':
            if len(args) != 1 or kwargs:
                raise EngineError('list.index with start / stop')
            def rec(q, i):
                items = q.heap[base.ref].items
                if i == len(items):
                    yield q, Raised('ValueError', node=node)
                    return
                for q2, c in ex.branch(q, ex.eq(q, items[i], args[0]), f'ix{i}'):
                    if c:
                        yield q2, VInt(i)
                    else:
                        yield from rec(q2, i + 1)
            yield from rec(p, 0)
        elif name == 'reverse':
            h.items.reverse()
            yield p, NONE
        else:
            raise EngineError(f'list method {name}')
        return
    if isinstance(h, HSet):
        if name == 'add':
            h.items.append(args[0])
            yield p, NONE
        else:
            raise EngineError(f'set method {name}')
        return
    if isinstance(h, HDict):
        if name == 'get':
            k = ex.hashable(args[0])
            yield p, h.items.get(k, args[1] if len(args) > 1 else NONE)
        else:
            raise EngineError(f'dict method {name}')
        return
    raise EngineError(f'method {name} on {h!r}')


# ------------------------------------------------------------------------------ int <-> bytes (assumed contracts)
def int_to_bytes(ex, p, v, args, kwargs, node):
    """int.to_bytes(n, byteorder=..., signed=...) -> bytes of n symbolic byte values (as a tuple-like VBytesN)"""
    n = args[0] if args else kwargs['length']
    order = args[1] if len(args) > 1 else kwargs.get('byteorder', S('big'))
    signed = kwargs.get('signed', FALSE)
    if not (n.conc() and order.is_lit() and signed.conc()):
        raise EngineError('to_bytes with symbolic parameters')
    n, order, signed = n.t, order.lit(), signed.b
    t = v.z()
    lo, hi = (-(1 << (8 * n - 1)), (1 << (8 * n - 1)) - 1) if signed else (0, (1 << (8 * n)) - 1)
    ex.ctx.assume_note('int.to_bytes / int.from_bytes follow the two\'s-complement reference semantics (assumed contract)')
    for q, r in ex.raise_unless(p, z3.And(t >= lo, t <= hi), 'OverflowError', node):
        if r is not None:
            yield q, r
            continue
        u = t % (1 << (8 * n))
        bs = [VInt(z3.simplify((u / (256 ** (n - 1 - j))) % 256)) for j in range(n)]
        if order == 'little':
            bs.reverse()
        yield q, VBytesN(bs)


class VBytesN(Val):
    """bytes object of concrete length whose elements are (symbolic) ints 0..255"""
    pytype = 'bytes'

    def __init__(self, items):
        self.items = list(items)

    def iterate(self, ex, p, node=None):
        yield p, list(self.items)

    def getitem(self, ex, p, idx, node=None):
        for q, i in norm_index(ex, p, idx, len(self.items), node):
            yield q, (i if isinstance(i, Raised) else self.items[i])

    def length(self, ex, p):
        return VInt(len(self.items))


def int_from_bytes(ex, p, args, kwargs, node):
    src = args[0]
    order = args[1] if len(args) > 1 else kwargs.get('byteorder', S('big'))
    signed = kwargs.get('signed', FALSE)
    if not (order.is_lit() and signed.conc()):
        raise EngineError('from_bytes with symbolic parameters')
    for q, items in iterate(ex, p, src, node):
        if isinstance(items, Raised):
            yield q, items
            continue
        vals = []
        bad = False
        for it in items:
            it = to_int_val(it)
            if not isinstance(it, VInt):
                bad = True
                break
            vals.append(it)
        if bad:
            yield q, Raised('TypeError', node=node)
            continue
        n = len(vals)
        rng = ex.z_and([z3.And(v.z() >= 0, v.z() <= 255) if not v.conc() else (0 <= v.t <= 255) for v in vals])
        for q2, r in ex.raise_unless(q, rng, 'ValueError', node):
            if r is not None:
                yield q2, r
                continue
            seq = vals if order.lit() == 'big' else list(reversed(vals))
            u = z3.IntVal(0)
            for v in seq:
                u = u * 256 + v.z()
            if signed.b:
                u = z3.If(u >= (1 << (8 * n - 1)), u - (1 << (8 * n)), u)
            ex.ctx.assume_note('int.to_bytes / int.from_bytes follow the two\'s-complement reference semantics (assumed contract)')
            yield q2, VInt(z3.simplify(u))
