"""Discharge obligations: z3 (in-process quick attempt, then a process per obligation with a hard
deadline), cvc5 binary for what z3 leaves unknown (or for every obligation in cross-check mode)."""
import hashlib
import multiprocessing as mp
import os
import subprocess
import tempfile
import time

import z3

CVC5 = '/usr/bin/cvc5'


class Result:
    def __init__(self, ob, verdict, backend, seconds, model=None, note=''):
        self.ob = ob
        self.verdict = verdict      # 'unsat' (discharged) | 'sat' (refuted) | 'unknown'
        self.backend = backend
        self.seconds = seconds
        self.model = model or {}
        self.note = note


def _val_str(m, d):
    v = m[d]
    try:
        if z3.is_fp(v) or (hasattr(z3, 'is_fprm') and False):
            import struct
            bv = m.eval(z3.fpToIEEEBV(d()), model_completion=True)
            return repr(struct.unpack('<d', struct.pack('<Q', bv.as_long()))[0])
        if z3.is_int_value(v):
            return str(v.as_long())
        if z3.is_rational_value(v):
            return f'{v.numerator_as_long()}/{v.denominator_as_long()}'
        if z3.is_algebraic_value(v):
            return v.approx(30).as_decimal(30).rstrip('?')
        if z3.is_string_value(v):
            return v.as_string()
        if z3.is_true(v):
            return 'True'
        if z3.is_false(v):
            return 'False'
    except Exception:
        pass
    return str(v)


def _model_dict(m):
    out = {}
    for d in m.decls():
        if d.arity() == 0:
            try:
                out[d.name()] = _val_str(m, d)
            except Exception:      # pragma: no cover
                pass
        else:
            try:
                out[d.name()] = str(m[d])[:400]
            except Exception:
                pass
    return out


def _z3_worker(smt2, timeout_ms, conn, tactic):
    try:
        ctx = z3.Context()
        s = z3.Solver(ctx=ctx) if not tactic else z3.Then(*tactic, ctx=ctx).solver()
        s.set('timeout', timeout_ms)
        s.from_string(smt2)
        t0 = time.time()
        r = s.check()
        dt = time.time() - t0
        if r == z3.sat:
            conn.send(('sat', dt, _model_dict(s.model())))
        elif r == z3.unsat:
            conn.send(('unsat', dt, {}))
        else:
            conn.send(('unknown', dt, {'reason': s.reason_unknown()}))
    except Exception as e:     # pragma: no cover
        conn.send(('unknown', 0.0, {'reason': f'worker error {e!r}'}))
    finally:
        conn.close()


def run_cvc5(smt2, timeout_s, extra=()):
    text = smt2
    if '(set-logic' not in text:
        text = '(set-logic ALL)\n' + text
    text = text.replace('(check-sat)', '(check-sat)\n')
    with tempfile.NamedTemporaryFile('w', suffix='.smt2', delete=False) as fh:
        fh.write(text)
        path = fh.name
    try:
        t0 = time.time()
        cmd = [CVC5, '--lang=smt2', f'--tlimit={int(timeout_s * 1000)}', '--strings-exp', '--nl-ext-tplanes'] + list(extra) + [path]
        try:
            out = subprocess.run(cmd, capture_output=True, text=True, timeout=timeout_s + 5)
            first = (out.stdout.strip().splitlines() or ['unknown'])[0].strip()
        except subprocess.TimeoutExpired:
            first = 'unknown'
        dt = time.time() - t0
        if first not in ('sat', 'unsat'):
            first = 'unknown'
        return first, dt
    finally:
        os.unlink(path)


def discharge(obligs, timeout_s=30, jobs=None, quick_ms=400, use_cvc5=True, cvc5_all=False, progress=None,
              tactic=None):
    """returns list[Result] aligned with obligs"""
    jobs = jobs or min(16, os.cpu_count() or 4)
    results = [None] * len(obligs)
    texts = [None] * len(obligs)
    pending = []
    seen = {}
    # 1. trivial + quick in-process attempt
    for i, ob in enumerate(obligs):
        g = z3.simplify(ob.goal)
        if z3.is_true(g):
            results[i] = Result(ob, 'unsat', 'simplify', 0.0)
            continue
        smt2 = ob.smt2()
        texts[i] = smt2
        h = hashlib.sha1(smt2.encode()).hexdigest()
        if h in seen:
            results[i] = ('dup', seen[h])
            continue
        seen[h] = i
        s = z3.Solver()
        s.set('timeout', quick_ms)
        for hyp in ob.hyps:
            s.add(hyp)
        s.add(z3.Not(ob.goal))
        t0 = time.time()
        r = s.check()
        dt = time.time() - t0
        if r == z3.unsat:
            results[i] = Result(ob, 'unsat', 'z3', dt)
        elif r == z3.sat:
            results[i] = Result(ob, 'sat', 'z3', dt, _model_dict(s.model()))
        else:
            pending.append(i)
    # 2. process per obligation, hard deadline
    running = []
    queue = list(pending)
    ctxm = mp.get_context('fork')
    hard = timeout_s * 1.5 + 5
    while queue or running:
        while queue and len(running) < jobs:
            i = queue.pop(0)
            parent, child = ctxm.Pipe(duplex=False)
            pr = ctxm.Process(target=_z3_worker, args=(texts[i], int(timeout_s * 1000), child, tactic))
            pr.start()
            child.close()
            running.append((i, pr, parent, time.time()))
        still = []
        for (i, pr, conn, t0) in running:
            if conn.poll(0.005):
                try:
                    verdict, dt, model = conn.recv()
                except EOFError:
                    verdict, dt, model = 'unknown', time.time() - t0, {'reason': 'worker died'}
                pr.join()
                results[i] = Result(obligs[i], verdict, 'z3', dt, model if verdict == 'sat' else {}, note=model.get('reason', '') if verdict == 'unknown' else '')
                if progress:
                    progress(results[i])
            elif time.time() - t0 > hard:
                pr.kill()
                pr.join()
                results[i] = Result(obligs[i], 'unknown', 'z3', time.time() - t0, note='hard timeout')
            elif not pr.is_alive() and not conn.poll(0.01):
                pr.join()
                results[i] = Result(obligs[i], 'unknown', 'z3', time.time() - t0, note='worker exited')
            else:
                still.append((i, pr, conn, t0))
        running = still
        if running and not queue:
            time.sleep(0.01)
    # 3. cvc5 for unknowns (or everything)
    if use_cvc5 and os.path.exists(CVC5):
        todo = [i for i, r in enumerate(results) if isinstance(r, Result) and (r.verdict == 'unknown' or (cvc5_all and r.backend != 'simplify'))]
        if todo:
            from concurrent.futures import ThreadPoolExecutor
            with ThreadPoolExecutor(max_workers=jobs) as tp:
                futs = {i: tp.submit(run_cvc5, texts[i], timeout_s) for i in todo}
                for i, f in futs.items():
                    v, dt = f.result()
                    r = results[i]
                    if r.verdict == 'unknown':
                        if v != 'unknown':
                            results[i] = Result(obligs[i], v, 'cvc5', dt, note='z3 unknown: ' + r.note)
                    else:
                        if v != 'unknown' and v != r.verdict:
                            results[i] = Result(obligs[i], 'unknown', 'z3+cvc5', r.seconds + dt,
                                                note=f'SOLVER DISAGREEMENT z3={r.verdict} cvc5={v}')
                            results[i].disagree = True
                        else:
                            r.note = (r.note + f' cvc5={v}').strip()
                            r.cvc5 = v
    for i, r in enumerate(results):
        if isinstance(r, tuple):
            src = results[r[1]]
            results[i] = Result(obligs[i], src.verdict, src.backend + '(dup)', 0.0, src.model, src.note)
    return results
