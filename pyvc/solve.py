"""Discharge obligations: z3 (in-process quick attempt, then a process per obligation with a hard
deadline), cvc5 binary for what z3 leaves unknown (or for every obligation in cross-check mode)."""
import hashlib
import multiprocessing as mp
import os
import subprocess
import tempfile
import time

import z3

CVC5 = '/usr/bin/cvc5'


class Result:
    def __init__(self, ob, verdict, backend, seconds, model=None, note=''):
        self.ob = ob
        self.verdict = verdict      # 'unsat' (discharged) | 'sat' (refuted) | 'unknown'
        self.backend = backend
        self.seconds = seconds
        self.model = model or {}
        self.note = note


def _val_str(m, d):
    v = m[d]
    try:
        if z3.is_fp(v) or (hasattr(z3, 'is_fprm') and False):
            import struct
            bv = m.eval(z3.fpToIEEEBV(d()), model_completion=True)
            return repr(struct.unpack('<d', struct.pack('<Q', bv.as_long()))[0])
        if z3.is_int_value(v):
            return str(v.as_long())
        if z3.is_rational_value(v):
            return f'{v.numerator_as_long()}/{v.denominator_as_long()}'
        if z3.is_algebraic_value(v):
            return v.approx(30).as_decimal(30).rstrip('?')
        if z3.is_string_value(v):
            return v.as_string()
        if z3.is_true(v):
            return 'True'
        if z3.is_false(v):
            return 'False'
    except Exception:
        pass
    return str(v)


def _model_dict(m):
    out = {}
    for d in m.decls():
        if d.arity() == 0:
            try:
                out[d.name()] = _val_str(m, d)
            except Exception:      # pragma: no cover
                pass
        else:
            try:
                out[d.name()] = str(m[d])[:400]
            except Exception:
                pass
    return out


def _z3_worker(smt2, timeout_ms, conn, tactic, seed=0):
    try:
        if seed:
            # portfolio member: same query, different search order (z3 is not run-to-run stable on hard non-linear queries)
            z3.set_param('smt.random_seed', seed)
            z3.set_param('sat.random_seed', seed)
            z3.set_param('nlsat.seed', seed)
            z3.set_param('smt.arith.random_initial_value', True)
        ctx = z3.Context()
        s = z3.Solver(ctx=ctx) if not tactic else z3.Then(*tactic, ctx=ctx).solver()
        s.set('timeout', timeout_ms)
        if seed and not tactic:
            s.set('random_seed', seed)
        s.from_string(smt2)
        t0 = time.time()
        r = s.check()
        dt = time.time() - t0
        if r == z3.sat:
            conn.send(('sat', dt, _model_dict(s.model())))
        elif r == z3.unsat:
            conn.send(('unsat', dt, {}))
        else:
            conn.send(('unknown', dt, {'reason': s.reason_unknown()}))
    except Exception as e:     # pragma: no cover
        conn.send(('unknown', 0.0, {'reason': f'worker error {e!r}'}))
    finally:
        conn.close()


def _cvc5_worker(smt2, timeout_ms, conn, tactic=None, seed=None):
    try:
        v, dt = run_cvc5(smt2, timeout_ms / 1000.0)
        conn.send((v, dt, {'reason': 'cvc5 unknown/timeout'} if v == 'unknown' else {}))
    except Exception as e:     # pragma: no cover
        conn.send(('unknown', 0.0, {'reason': f'cvc5 worker error {e!r}'}))
    finally:
        conn.close()


def run_cvc5(smt2, timeout_s, extra=()):
    text = smt2
    if '(set-logic' not in text:
        text = '(set-logic ALL)\n' + text
    text = text.replace('(check-sat)', '(check-sat)\n')
    with tempfile.NamedTemporaryFile('w', suffix='.smt2', delete=False) as fh:
        fh.write(text)
        path = fh.name
    try:
        t0 = time.time()
        cmd = [CVC5, '--lang=smt2', f'--tlimit={int(timeout_s * 1000)}', '--strings-exp', '--nl-ext-tplanes'] + list(extra) + [path]
        try:
            out = subprocess.run(cmd, capture_output=True, text=True, timeout=timeout_s + 5)
            first = (out.stdout.strip().splitlines() or ['unknown'])[0].strip()
        except subprocess.TimeoutExpired:
            first = 'unknown'
        dt = time.time() - t0
        if first not in ('sat', 'unsat'):
            first = 'unknown'
        return first, dt
    finally:
        os.unlink(path)


def relax_int_to_real(e, cache=None):
    """Translate a formula over Int/Real into one over Real only, reading every Int constant as a Real one (name suffixed ~r).
    Integers are reals and + - * < <= = mean the same on them, so a formula valid over the reals is valid over the integers:
    proving the relaxation proves the original.  Returns None when e uses an operation with no such reading (div, mod, ToInt, UFs)."""
    cache = {} if cache is None else cache

    def tr(x):
        k = x.get_id()
        if k in cache:
            return cache[k]
        r = None
        if z3.is_int_value(x):
            r = z3.RealVal(x.as_long())
        elif z3.is_rational_value(x) or z3.is_true(x) or z3.is_false(x):
            r = x
        elif z3.is_const(x) and x.decl().kind() == z3.Z3_OP_UNINTERPRETED:
            if x.sort() == z3.IntSort():
                r = z3.Real(str(x) + '~r')
            elif x.sort() in (z3.RealSort(), z3.BoolSort()):
                r = x
        elif z3.is_app(x):
            kd = x.decl().kind()
            ch = [tr(c) for c in x.children()]
            if all(c is not None for c in ch):
                if kd == z3.Z3_OP_TO_REAL:
                    r = ch[0]
                elif kd == z3.Z3_OP_ADD:
                    r = z3.Sum(ch)
                elif kd == z3.Z3_OP_SUB:
                    r = ch[0] - ch[1] if len(ch) == 2 else None
                elif kd == z3.Z3_OP_UMINUS:
                    r = -ch[0]
                elif kd == z3.Z3_OP_MUL:
                    r = z3.Product(ch)
                elif kd == z3.Z3_OP_DIV and x.sort() == z3.RealSort():
                    r = ch[0] / ch[1]
                elif kd == z3.Z3_OP_LE:
                    r = ch[0] <= ch[1]
                elif kd == z3.Z3_OP_LT:
                    r = ch[0] < ch[1]
                elif kd == z3.Z3_OP_GE:
                    r = ch[0] >= ch[1]
                elif kd == z3.Z3_OP_GT:
                    r = ch[0] > ch[1]
                elif kd == z3.Z3_OP_EQ:
                    r = ch[0] == ch[1]
                elif kd == z3.Z3_OP_DISTINCT and len(ch) == 2:
                    r = ch[0] != ch[1]
                elif kd == z3.Z3_OP_ITE:
                    r = z3.If(ch[0], ch[1], ch[2])
                elif kd == z3.Z3_OP_AND:
                    r = z3.And(*ch)
                elif kd == z3.Z3_OP_OR:
                    r = z3.Or(*ch)
                elif kd == z3.Z3_OP_NOT:
                    r = z3.Not(ch[0])
                elif kd == z3.Z3_OP_IMPLIES:
                    r = z3.Implies(ch[0], ch[1])
        cache[k] = r
        return r
    return tr(e)


def relaxed(hyps, goal):
    """(hyps', goal') over the reals, hypotheses without a real reading dropped; None if the goal has none"""
    cache = {}
    g = relax_int_to_real(goal, cache)
    if g is None:
        return None
    hs = [h for h in (relax_int_to_real(h, cache) for h in hyps) if h is not None]
    return hs, g


def real_core(ob):
    """A WEAKER variant of an obligation that lives in pure real arithmetic: every application of an uninterpreted function is replaced by
    a fresh constant (congruence is forgotten) and every hypothesis that still mentions a non-real, non-boolean symbol is dropped.
    Forgetting congruence and dropping hypotheses only weakens what is assumed, so `unsat` (valid) carries over to the original obligation;
    `sat` means nothing.  Returns SMT-LIB text or None when the goal itself is not expressible."""
    cache = {}

    def ab(e):
        if not z3.is_app(e):
            return e
        k = e.get_id()
        if k in cache:
            return cache[k]
        if e.decl().kind() == z3.Z3_OP_UNINTERPRETED and e.num_args() > 0:
            r = z3.Const('uf!' + hashlib.sha1(z3.simplify(e).sexpr().encode()).hexdigest()[:12], e.sort())
        elif e.num_args() == 0:
            r = e
        else:
            args = [ab(c) for c in e.children()]
            r = e.decl()(*args)
        cache[k] = r
        return r

    def pure(e):
        return all(v.sort().kind() in (z3.Z3_REAL_SORT, z3.Z3_BOOL_SORT) for v in z3.z3util.get_vars(e))
    try:
        g = ab(ob.goal)
        if not pure(g):
            return None
        hyps = [h for h in (ab(h) for h in ob.hyps) if pure(h)]
    except Exception:
        return None
    sol = z3.Solver()
    for h in hyps:
        sol.add(h)
    sol.add(z3.Not(g))
    return sol.to_smt2()


def run_z3_text(text, timeout_s, tactic=None):
    ctxm = mp.get_context('fork')
    parent, child = ctxm.Pipe(duplex=False)
    pr = ctxm.Process(target=_z3_worker, args=(text, int(timeout_s * 1000), child, tactic))
    pr.start()
    child.close()
    t0 = time.time()
    verdict, dt = 'unknown', 0.0
    if parent.poll(timeout_s * 1.5 + 5):
        try:
            verdict, dt, _ = parent.recv()
        except EOFError:
            pass
    if pr.is_alive():
        pr.kill()
    pr.join()
    return verdict, (dt or time.time() - t0)


def discharge(obligs, timeout_s=30, jobs=None, quick_ms=400, use_cvc5=True, cvc5_all=False, progress=None,
              tactic=None):
    """returns list[Result] aligned with obligs"""
    jobs = jobs or min(16, os.cpu_count() or 4)
    results = [None] * len(obligs)
    texts = [None] * len(obligs)
    pending = []
    seen = {}
    # 1. trivial + quick in-process attempt
    for i, ob in enumerate(obligs):
        g = z3.simplify(ob.goal)
        if z3.is_true(g):
            results[i] = Result(ob, 'unsat', 'simplify', 0.0)
            continue
        smt2 = ob.smt2()
        texts[i] = smt2
        h = hashlib.sha1(smt2.encode()).hexdigest()
        if h in seen:
            results[i] = ('dup', seen[h])
            continue
        seen[h] = i
        s = z3.Solver()
        s.set('timeout', quick_ms)
        for hyp in ob.hyps:
            s.add(hyp)
        s.add(z3.Not(ob.goal))
        t0 = time.time()
        r = s.check()
        dt = time.time() - t0
        if r == z3.unsat:
            results[i] = Result(ob, 'unsat', 'z3', dt)
        elif r == z3.sat:
            results[i] = Result(ob, 'sat', 'z3', dt, _model_dict(s.model()))
        else:
            pending.append(i)
    # 2. one process per (obligation, portfolio member), hard deadline.  Member 0 is the default configuration; members 1.. re-seed the
    #    search.  The first definite verdict wins and stops the obligation's other members.  All default members are queued first, so the
    #    re-seeded ones only use cores that would otherwise idle while stragglers run.
    running = []
    seeds = (0, 7, 13, 101) if not tactic else (0,)
    if use_cvc5 and os.path.exists(CVC5) and not tactic:
        seeds = (0, 'cvc5', 7, 13, 101)        # cvc5 races z3 from the start (strings, sequences: often the only one that answers)
    queue = [(i, sd) for sd in seeds for i in pending]
    ctxm = mp.get_context('fork')
    hard = timeout_s * 1.5 + 5
    decided = set()
    unknown_notes = {}
    left = {i: len(seeds) for i in pending}
    t_first = {}

    def member_done(i, note, dt):
        left[i] -= 1
        unknown_notes.setdefault(i, note)
        if left[i] == 0 and i not in decided:
            results[i] = Result(obligs[i], 'unknown', 'z3', time.time() - t_first.get(i, time.time()), note=unknown_notes[i] + f' (portfolio of {len(seeds)})')
            if progress:
                progress(results[i])

    while queue or running:
        while queue and len(running) < jobs:
            i, sd = queue.pop(0)
            if i in decided:
                continue
            parent, child = ctxm.Pipe(duplex=False)
            pr = ctxm.Process(target=(_cvc5_worker if sd == 'cvc5' else _z3_worker), args=(texts[i], int(timeout_s * 1000), child, tactic, sd))
            pr.start()
            child.close()
            t_first.setdefault(i, time.time())
            running.append((i, pr, parent, time.time(), sd))
        still = []
        for (i, pr, conn, t0, sd) in running:
            if i in decided:
                pr.kill()
                pr.join()
                continue
            if conn.poll(0.005):
                try:
                    verdict, dt, model = conn.recv()
                except EOFError:
                    verdict, dt, model = 'unknown', time.time() - t0, {'reason': 'worker died'}
                pr.join()
                if verdict in ('sat', 'unsat'):
                    decided.add(i)
                    results[i] = Result(obligs[i], verdict, 'cvc5' if sd == 'cvc5' else ('z3' if sd == 0 else f'z3(seed={sd})'), dt,
                                        model if verdict == 'sat' else {})
                    if sd == 'cvc5':
                        results[i].cvc5 = verdict
                    if progress:
                        progress(results[i])
                else:
                    member_done(i, model.get('reason', ''), dt)
            elif time.time() - t0 > hard:
                pr.kill()
                pr.join()
                member_done(i, 'hard timeout', time.time() - t0)
            elif not pr.is_alive() and not conn.poll(0.01):
                pr.join()
                member_done(i, 'worker exited', time.time() - t0)
            else:
                still.append((i, pr, conn, t0, sd))
        running = still
        if running and not queue:
            time.sleep(0.01)
    # 3. cvc5 for unknowns (or everything)
    if use_cvc5 and os.path.exists(CVC5):
        raced = set(pending) if 'cvc5' in seeds else set()
        todo = [i for i, r in enumerate(results) if isinstance(r, Result) and ((r.verdict == 'unknown' and i not in raced)
                                                                               or (cvc5_all and r.backend not in ('simplify', 'cvc5')))]
        if todo:
            from concurrent.futures import ThreadPoolExecutor
            with ThreadPoolExecutor(max_workers=jobs) as tp:
                # second opinion on an already decided obligation: short budget (its 'unknown' changes nothing, only a definite
                # contrary verdict matters); full budget where z3 left the obligation open
                futs = {i: tp.submit(run_cvc5, texts[i], timeout_s if results[i].verdict == 'unknown' else min(timeout_s, 15)) for i in todo}
                for i, f in futs.items():
                    v, dt = f.result()
                    r = results[i]
                    if r.verdict == 'unknown':
                        if v != 'unknown':
                            results[i] = Result(obligs[i], v, 'cvc5', dt, note='z3 unknown: ' + r.note)
                    else:
                        if v != 'unknown' and v != r.verdict:
                            results[i] = Result(obligs[i], 'unknown', 'z3+cvc5', r.seconds + dt,
                                                note=f'SOLVER DISAGREEMENT z3={r.verdict} cvc5={v}')
                            results[i].disagree = True
                        else:
                            r.note = (r.note + f' cvc5={v}').strip()
                            r.cvc5 = v
    # 4. still unknown: the pure-real core of the obligation (weaker hypotheses, nlsat is complete there)
    todo = [i for i, r in enumerate(results) if isinstance(r, Result) and r.verdict == 'unknown' and not getattr(r, 'disagree', False)]
    if todo:
        cores = {i: real_core(obligs[i]) for i in todo}
        cores = {i: t for i, t in cores.items() if t}
        if cores:
            from concurrent.futures import ThreadPoolExecutor
            with ThreadPoolExecutor(max_workers=jobs) as tp:
                futs = {i: tp.submit(run_z3_text, t, timeout_s, ('simplify', 'qfnra-nlsat')) for i, t in cores.items()}
                for i, f in futs.items():
                    v, dt = f.result()
                    if v == 'unsat':
                        results[i] = Result(obligs[i], 'unsat', 'z3-nlsat(real-core)', dt, note='pure-real weakening; ' + results[i].note)
    for i, r in enumerate(results):
        if isinstance(r, tuple):
            src = results[r[1]]
            results[i] = Result(obligs[i], src.verdict, src.backend + '(dup)', 0.0, src.model, src.note)
    return results
