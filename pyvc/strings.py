"""Structured strings: a str/bytes value is a concatenation of literal chunks and atoms.

An Atom wraps a z3 String term together with what is known about its characters, so that
most operations of the serial-protocol code (strip, startswith, split on ',', int()) are
decided structurally, and only the rest becomes an SMT string query.
"""
import z3
from .values import Val, VInt, VBool

WS = frozenset(' \t\n\r\x0b\x0c\x1c\x1d\x1e\x1f')
DIGITS = frozenset('0123456789')
INTCHARS = frozenset('-0123456789')


class Atom:
    def __init__(self, term, incl=None, excl=frozenset(), nonempty=False, origin=None):
        self.term = term            # z3 String
        self.incl = incl            # frozenset: every char is in it (None: unknown)
        self.excl = frozenset(excl)  # no char of the atom is in it
        self.nonempty = nonempty
        self.origin = origin        # ('str_of', intterm) | ('sym', name) | ...

    def may_contain(self, ch):
        if self.incl is not None:
            return ch in self.incl
        return ch not in self.excl

    def may_contain_any(self, chars):
        return any(self.may_contain(c) for c in chars)

    def same(self, other):
        return isinstance(other, Atom) and self.term.eq(other.term)

    def __repr__(self):
        return f'Atom({self.term})'


class VStr(Val):
    def __init__(self, chunks, kind='str'):
        self.kind = kind            # 'str' | 'bytes'
        self.pytype = kind
        out = []
        for c in chunks:
            if isinstance(c, str):
                if not c:
                    continue
                if out and isinstance(out[-1], str):
                    out[-1] = out[-1] + c
                else:
                    out.append(c)
            else:
                out.append(c)
        self.chunks = tuple(out)

    # ------------------------------------------------------------ basic structure
    def is_lit(self):
        return all(isinstance(c, str) for c in self.chunks)

    def lit(self):
        assert self.is_lit()
        return ''.join(self.chunks)

    def z(self):
        if not self.chunks:
            return z3.StringVal('')
        parts = [z3.StringVal(c) if isinstance(c, str) else c.term for c in self.chunks]
        if len(parts) == 1:
            return parts[0]
        return z3.Concat(*parts)

    def length(self):
        n = 0
        terms = []
        for c in self.chunks:
            if isinstance(c, str):
                n += len(c)
            else:
                terms.append(z3.Length(c.term))
        if not terms:
            return VInt(n)
        return VInt(z3.simplify(z3.Sum([z3.IntVal(n)] + terms)))

    def min_len(self):
        n = 0
        for c in self.chunks:
            if isinstance(c, str):
                n += len(c)
            elif c.nonempty:
                n += 1
        return n

    def with_kind(self, kind):
        return VStr(self.chunks, kind)

    def struct_eq(self, other):
        """True / False when decided structurally, None otherwise."""
        if self.is_lit() and other.is_lit():
            return self.lit() == other.lit()
        if len(self.chunks) == len(other.chunks):
            same = True
            for a, b in zip(self.chunks, other.chunks):
                if isinstance(a, str) and isinstance(b, str):
                    if a != b:
                        same = False
                        break
                elif isinstance(a, Atom) and isinstance(b, Atom):
                    if not a.same(b):
                        same = False
                        break
                else:
                    same = False
                    break
            if same:
                return True
        return None

    def __repr__(self):
        return f'V{self.kind}({list(self.chunks)})'


def S(text, kind='str'):
    return VStr([text], kind)


def concat(a, b):
    assert a.kind == b.kind
    return VStr(a.chunks + b.chunks, a.kind)


_STR_OF = z3.Function('str_of', z3.IntSort(), z3.StringSort())


def str_of_int(v):
    """str(int) / '{}'.format(int)"""
    if v.conc():
        return VStr([str(v.t)])
    return VStr([Atom(_STR_OF(v.z()), incl=INTCHARS, nonempty=True, origin=('str_of', v.z()))])


def sym_str(name, kind='str', incl=None, excl=frozenset(), nonempty=False):
    return VStr([Atom(z3.String(name), incl=incl, excl=excl, nonempty=nonempty, origin=('sym', name))], kind)
