"""Numeric tower of the executor: int (Z), float (R or Float64), bool, mpf.

binary64 exactness (only when ctx.opts['track_float']): a float that comes from integer
arithmetic carries provenance; when it flows back into integer code (int(), round(), floor,
ceil) or is combined further, a side obligation 'float-exact' states that the real-number
model coincides with the binary64 computation.
"""
from fractions import Fraction
import z3

from .values import VInt, VFloat, VBool, VMpf, PINF, NINF, Inf
from .engine import Raised, EngineError, zreal, to_int_val, z_abs, py_floordiv, is_num

TWO53 = 2 ** 53


def is_pow2(n):
    return n > 0 and (n & (n - 1)) == 0


def neg(ex, p, v):
    v = to_int_val(v)
    if isinstance(v, VInt):
        return VInt(-v.t)
    if isinstance(v, VFloat):
        if v.is_inf():
            return VFloat(NINF if v.t.sign > 0 else PINF)
        if v.is_fp():
            return VFloat(z3.fpNeg(v.t))
        return VFloat(-v.t, v.prov)
    if isinstance(v, VMpf):
        if v.rational():
            return VMpf(-v.num, v.den, err=v.err)
        return VMpf(None, 1, t=-v.t, err=v.err, mag=v.mag)
    raise EngineError(f'negation of {v!r}')


def bitop(ex, p, opn, a, b):
    a, b = to_int_val(a), to_int_val(b)
    if isinstance(a, VInt) and isinstance(b, VInt):
        if a.conc() and b.conc():
            return VInt({'BitAnd': a.t & b.t, 'BitOr': a.t | b.t, 'BitXor': a.t ^ b.t}[opn])
        # small non-negative ints (region codes): 4-bit vectors
        ex.ctx.assume_note('bit operations are evaluated on 8-bit vectors (operands proved to lie in 0..255)')
        for v in (a, b):
            if not v.conc():
                ex.oblige(p, 'bit-range', z3.And(v.z() >= 0, v.z() < 256))
        xa, xb = z3.Int2BV(a.z(), 8), z3.Int2BV(b.z(), 8)
        r = {'BitAnd': xa & xb, 'BitOr': xa | xb, 'BitXor': xa ^ xb}[opn]
        return VInt(z3.BV2Int(r, False))
    raise EngineError('bit operation on non-int')


def _float_of(ex, p, v):
    """int/bool/float operand -> (real term or Fraction, prov)"""
    if isinstance(v, VFloat):
        return v
    v = to_int_val(v)
    if v.conc():
        return VFloat(Fraction(v.t), prov=('dy', 0, ))
    return VFloat(z3.ToReal(v.z()), prov=('int', v.z()))


def _dy(prov):
    """denominator exponent k (value in 2^-k Z) if known"""
    if prov is None:
        return None
    if prov[0] == 'dy':
        return prov[1]
    if prov[0] == 'int':
        return 0
    if prov[0] == 'idiv' and z3.is_int_value(prov[2]) and is_pow2(abs(prov[2].as_long())):
        return abs(prov[2].as_long()).bit_length() - 1
    return None


def _exact_ob(ex, p, val_term, k, what):
    """side obligation: |val| * 2^k <= 2^53  (value exactly representable, so the float op was exact)"""
    if not ex.ctx.opts['track_float']:
        return
    if isinstance(val_term, Fraction):
        if abs(val_term) * 2 ** k > TWO53:
            ex.oblige(p, 'float-exact', False, what)
        return
    ex.oblige(p, 'float-exact', z_abs(val_term) * (2 ** k) <= TWO53, what)


def _lit_dy(fr):
    """Fraction literal -> k if it is dyadic with small denominator else None"""
    d = fr.denominator
    if is_pow2(d):
        return d.bit_length() - 1
    return None


def float_prov(v):
    if v.prov is not None and v.prov[0] == 'lit':
        k = _lit_dy(v.t) if v.conc() else None
        return ('dy', k) if k is not None else None
    return v.prov


def binop(ex, p, opn, a, b, node=None):
    a, b = to_int_val(a), to_int_val(b)
    if isinstance(a, VMpf) or isinstance(b, VMpf):
        from . import mpmodel
        yield from mpmodel.binop(ex, p, opn, a, b, node)
        return
    both_int = isinstance(a, VInt) and isinstance(b, VInt)
    if both_int and opn in ('Add', 'Sub', 'Mult'):
        if a.conc() and b.conc():
            yield p, VInt({'Add': a.t + b.t, 'Sub': a.t - b.t, 'Mult': a.t * b.t}[opn])
        else:
            x, y = a.z(), b.z()
            yield p, VInt({'Add': x + y, 'Sub': x - y, 'Mult': x * y}[opn])
        return
    if both_int and opn in ('FloorDiv', 'Mod'):
        nz = (b.t != 0)
        for q, r in ex.raise_unless(p, nz, 'ZeroDivisionError', node):
            if r is not None:
                yield q, r
                continue
            if a.conc() and b.conc():
                yield q, VInt(a.t // b.t if opn == 'FloorDiv' else a.t % b.t)
            else:
                x, y = a.z(), b.z()
                if b.conc() and b.t > 0:
                    yield q, VInt(x / y if opn == 'FloorDiv' else x % y)
                else:
                    fd = py_floordiv(x, y)
                    yield q, VInt(fd if opn == 'FloorDiv' else x - y * fd)
        return
    if both_int and opn == 'Pow':
        if b.conc() and b.t >= 0:
            if a.conc():
                yield p, VInt(a.t ** b.t)
            else:
                r = z3.IntVal(1)
                for _ in range(b.t):
                    r = r * a.z()
                yield p, VInt(r)
            return
        raise EngineError('pow with symbolic / negative exponent')
    # ---- float arithmetic
    fp = ex.ctx.opts['float_mode'] == 'fp' or (isinstance(a, VFloat) and a.is_fp()) or (isinstance(b, VFloat) and b.is_fp())
    if fp:
        x, y = ex.to_fp(a), ex.to_fp(b)
        rm = z3.RNE()
        if opn == 'Add':
            yield p, VFloat(z3.fpAdd(rm, x, y))
        elif opn == 'Sub':
            yield p, VFloat(z3.fpSub(rm, x, y))
        elif opn == 'Mult':
            yield p, VFloat(z3.fpMul(rm, x, y))
        elif opn == 'Div':
            for q, r in ex.raise_unless(p, z3.Not(z3.fpIsZero(y)), 'ZeroDivisionError', node):
                yield q, (r if r is not None else VFloat(z3.fpDiv(rm, x, y)))
        else:
            raise EngineError(f'fp op {opn}')
        return
    fa, fb = _float_of(ex, p, a), _float_of(ex, p, b)
    if fa.is_inf() or fb.is_inf():
        raise EngineError('arithmetic on infinity')
    conc = fa.conc() and fb.conc()
    x = fa.t if conc else fa.z()
    y = fb.t if conc else fb.z()
    pa, pb = float_prov(fa), float_prov(fb)
    ka, kb = _dy(pa), _dy(pb)
    track = ex.ctx.opts['track_float']
    if opn in ('Add', 'Sub', 'Mult'):
        r = {'Add': x + y, 'Sub': x - y, 'Mult': x * y}[opn] if conc else \
            {'Add': x + y, 'Sub': x - y, 'Mult': x * y}[opn]
        prov = None
        if ka is not None and kb is not None:
            k = max(ka, kb) if opn != 'Mult' else ka + kb
            prov = ('dy', k)
            if track:
                # int operands must themselves be representable
                for v, pv in ((fa, pa), (fb, pb)):
                    if pv is not None and pv[0] == 'int':
                        _exact_ob(ex, p, v.z(), 0, 'int->float')
                _exact_ob(ex, p, r, k, f'{opn}@L{getattr(node, "lineno", "?")}')
        elif track:
            ex.ctx.assume_note('a float operation whose operands are not tracked dyadic values is treated as exact real arithmetic')
        yield p, VFloat(r, prov)
        return
    if opn == 'Div':
        nz = (y != 0)
        for q, r in ex.raise_unless(p, nz, 'ZeroDivisionError', node):
            if r is not None:
                yield q, r
                continue
            val = x / y
            prov = None
            b_int = b if isinstance(b, VInt) else (VInt(int(fb.t)) if fb.conc() and fb.t.denominator == 1 else None)
            a_int = a if isinstance(a, VInt) else (VInt(pa[1]) if pa is not None and pa[0] == 'int' else None)
            if a_int is not None and b_int is not None:
                prov = ('idiv', a_int.z(), b_int.z())
                if track and b_int.conc() and is_pow2(abs(b_int.t)):
                    _exact_ob(ex, q, fa.z(), 0, 'int->float')
            elif fb.conc() and is_pow2(fb.t.numerator) and fb.t.denominator == 1 and ka is not None:
                prov = ('dy', ka + fb.t.numerator.bit_length() - 1)
                if track:
                    if pa is not None and pa[0] == 'int':
                        _exact_ob(ex, q, fa.z(), 0, 'int->float')
                    _exact_ob(ex, q, val, prov[1], f'Div@L{getattr(node, "lineno", "?")}')
            yield q, VFloat(val, prov)
        return
    if opn in ('FloorDiv', 'Mod'):
        nz = (y != 0)
        for q, r in ex.raise_unless(p, nz, 'ZeroDivisionError', node):
            if r is not None:
                yield q, r
                continue
            if conc:
                fd = Fraction((x / y).__floor__())
                yield q, VFloat(fd if opn == 'FloorDiv' else x - y * fd)
            else:
                fd = z3.ToReal(z3.ToInt(x / y))
                yield q, VFloat(fd if opn == 'FloorDiv' else x - y * fd)
        return
    if opn == 'Pow':
        if fb.conc() and fb.t.denominator == 1 and fb.t >= 0:
            r = Fraction(1) if conc else z3.RealVal(1)
            for _ in range(int(fb.t)):
                r = r * x
            yield p, VFloat(r)
            return
    raise EngineError(f'arith op {opn} on {a!r}, {b!r}')


# ------------------------------------------------------------------ conversions used by lib
def float_to_int(ex, p, v, mode, node=None):
    """mode in trunc / floor / ceil / round ; v VFloat -> VInt, with the binary64 side condition"""
    if v.is_inf():
        raise EngineError('int of infinity')
    if v.is_fp():
        raise EngineError('float->int in fp mode')
    prov = float_prov(v)
    if ex.ctx.opts['track_float']:
        if prov is not None and prov[0] == 'idiv':
            # int(a/b): the correctly rounded quotient of two exactly representable ints has the same
            # floor/trunc/ceil/round-half-even as the exact quotient when |a| < 2^53 and 0 < |b| <= 2^10
            # (a non-integer quotient is >= 1/|b| away from every integer; the rounding error is
            #  <= |a/b| * 2^-53 < 1/|b|;  an integer quotient is exact).  round(): ties need |b|==2.
            a_t, b_t = prov[1], prov[2]
            ex.oblige(p, 'float-exact', z3.And(z_abs(a_t) < TWO53, z_abs(b_t) <= 1024, b_t != 0), f'{mode}(int/int)')
            ex.ctx.assume_note('lemma (not mechanised): for ints |a| < 2^53, 0 < |b| <= 1024, trunc/floor/ceil of the binary64 quotient a/b equal those of the exact quotient')
        elif _dy(prov) is not None:
            pass    # exactness obligations were emitted when the value was built
        elif v.conc():
            pass
        else:
            ex.ctx.assume_note('float->int conversion of an untracked float treated over the reals')
    if v.conc():
        import math
        f = v.t
        r = {'trunc': math.trunc(f), 'floor': math.floor(f), 'ceil': math.ceil(f), 'round': round(f)}[mode]
        return VInt(int(r))
    if prov is not None and prov[0] == 'idiv' and z3.is_int_value(prov[2]) and prov[2].as_long() > 0 and mode != 'round':
        # integer formula for trunc/floor/ceil of a/b, b a positive literal (no ToReal/ToInt round trip)
        a_t, b_c = prov[1], prov[2].as_long()
        if mode == 'floor':
            return VInt(a_t / b_c)
        if mode == 'ceil':
            return VInt(-((-a_t) / b_c))
        return VInt(z3.If(a_t >= 0, a_t / b_c, -((-a_t) / b_c)))
    from .engine import z_trunc, z_floor, z_ceil, z_round_half_even
    t = v.z()
    return VInt({'trunc': z_trunc, 'floor': z_floor, 'ceil': z_ceil, 'round': z_round_half_even}[mode](t))


def num_abs(ex, p, v):
    v = to_int_val(v)
    if isinstance(v, VInt):
        return VInt(abs(v.t) if v.conc() else z_abs(v.z()))
    if isinstance(v, VFloat):
        if v.is_inf():
            return VFloat(PINF)
        if v.is_fp():
            return VFloat(z3.fpAbs(v.t))
        return VFloat(abs(v.t) if v.conc() else z_abs(v.z()), v.prov)
    if isinstance(v, VMpf):
        if v.rational():
            return VMpf(abs(v.num) if v.conc() else z_abs(v.num), v.den, err=v.err)
        return VMpf(None, 1, t=(abs(v.t) if v.conc() else z_abs(v.z())), err=v.err, mag=v.mag)
    raise EngineError(f'abs of {v!r}')


def pick(ex, p, cond, a, b):
    """value-level If(cond, a, b) for numeric a, b of compatible type"""
    if isinstance(cond, bool):
        return a if cond else b
    a, b = to_int_val(a), to_int_val(b)
    if isinstance(a, VInt) and isinstance(b, VInt):
        return VInt(z3.If(cond, a.z(), b.z()))
    if isinstance(a, VFloat) and a.is_fp() or isinstance(b, VFloat) and b.is_fp():
        return VFloat(z3.If(cond, ex.to_fp(a), ex.to_fp(b)))
    if isinstance(a, VMpf) or isinstance(b, VMpf):
        raise EngineError('pick on mpf')
    if isinstance(a, VFloat) and isinstance(b, VFloat):
        ka, kb = _dy(float_prov(a)), _dy(float_prov(b))
        prov = ('dy', max(ka, kb)) if ka is not None and kb is not None else None
        return VFloat(z3.If(cond, a.z(), b.z()), prov)
    return None   # mixed int/float: caller must fork


def minmax(ex, p, which, vals):
    """Python min/max over numeric values: yields (path, value). First extremal element wins."""
    cur = vals[0]
    paths = [(p, cur)]
    for v in vals[1:]:
        nxt = []
        for q, c in paths:
            # python: max keeps c unless v > c ; min keeps c unless v < c
            if isinstance(c, VFloat) and c.is_inf() or isinstance(v, VFloat) and v.is_inf():
                cond = ex.num_cmp('>' if which == 'max' else '<', v, c)
                assert isinstance(cond, bool)
                nxt.append((q, v if cond else c))
                continue
            cond = ex.num_cmp('>' if which == 'max' else '<', v, c)
            r = pick(ex, q, cond, v, c)
            if r is not None:
                nxt.append((q, r))
            else:
                for q2, cc in ex.branch(q, cond, which):
                    nxt.append((q2, v if cc else c))
        paths = nxt
    yield from paths
