"""Typed symbolic values for the pyvc executor.

Every value carries its Python type.  Numeric payloads are either native Python
numbers (int / Fraction: "concrete") or z3 terms ("symbolic").  Floats are modelled
as mathematical reals (Fraction / z3 Real) unless the run is in 'fp' mode, where the
payload is a z3 Float64 term.
"""
from fractions import Fraction
import z3


class Val:
    pytype = 'object'

    def __repr__(self):
        return f'<{self.__class__.__name__}>'


class VNone(Val):
    pytype = 'NoneType'

    def __repr__(self):
        return 'None'


NONE = VNone()


class VBool(Val):
    pytype = 'bool'

    def __init__(self, b):
        if isinstance(b, z3.BoolRef):
            b = z3.simplify(b)
            if z3.is_true(b):
                b = True
            elif z3.is_false(b):
                b = False
        self.b = b

    def conc(self):
        return isinstance(self.b, bool)

    def z(self):
        return z3.BoolVal(self.b) if isinstance(self.b, bool) else self.b

    def __repr__(self):
        return f'VBool({self.b})'


TRUE = VBool(True)
FALSE = VBool(False)


class VInt(Val):
    pytype = 'int'

    def __init__(self, t):
        if isinstance(t, bool):
            t = int(t)
        if isinstance(t, z3.ArithRef):
            if z3.is_int_value(t):
                t = t.as_long()
        self.t = t

    def conc(self):
        return isinstance(self.t, int)

    def z(self):
        return z3.IntVal(self.t) if isinstance(self.t, int) else self.t

    def __repr__(self):
        return f'VInt({self.t})'


class Inf:
    """+inf / -inf sentinel payload for VFloat (only min/max/compare/neg support it)."""
    def __init__(self, sign):
        self.sign = sign

    def __repr__(self):
        return 'inf' if self.sign > 0 else '-inf'


PINF = Inf(1)
NINF = Inf(-1)


class VFloat(Val):
    """float.  t: Fraction | z3 Real | z3 FP | Inf.
    prov: optional provenance used by the binary64 exactness side conditions:
       ('idiv', a_int_z3, b_int_z3)   value is int a / int b
       ('dy', k)                      value is an integer multiple of 2**-k
    """
    pytype = 'float'

    def __init__(self, t, prov=None):
        if isinstance(t, (int, float)) and not isinstance(t, bool):
            t = Fraction(str(t)) if isinstance(t, float) else Fraction(t)
        if isinstance(t, z3.ArithRef) and z3.is_rational_value(t):
            t = Fraction(t.numerator_as_long(), t.denominator_as_long())
        self.t = t
        self.prov = prov

    def conc(self):
        return isinstance(self.t, Fraction)

    def is_inf(self):
        return isinstance(self.t, Inf)

    def is_fp(self):
        return isinstance(self.t, z3.FPRef)

    def z(self):
        if isinstance(self.t, Fraction):
            return z3.RealVal(str(self.t))
        if isinstance(self.t, Inf):
            raise ValueError('inf has no real term')
        return self.t

    def __repr__(self):
        return f'VFloat({self.t})'


class VMpf(Val):
    """mpmath.mpf at working precision PREC bits.

    rational form: ideal value == num / den with num an integer term (python int | z3 Int) and den a positive
                   python int; arithmetic is integer arithmetic on numerators.  The value is *exact* (the mpf
                   object holds exactly num/den) when den is a power of two and err == 0.
    real form    : num is None; t is the ideal real value.
    err          : Fraction bound on |computed - ideal| (0 for exact values); None = not tracked
                   ("inexact operations treated as real arithmetic", reported as an assumption).
    """
    pytype = 'mpf'

    def __init__(self, num=None, den=1, t=None, err=Fraction(0), mag=None):
        if isinstance(num, z3.ArithRef) and z3.is_int_value(num):
            num = num.as_long()
        self.num = num
        self.den = den
        self._t = t
        self.err = err
        self.mag = mag

    def rational(self):
        return self.num is not None

    def exact(self):
        return self.num is not None and self.err == 0 and self.den & (self.den - 1) == 0

    @property
    def t(self):
        if self._t is not None:
            return self._t
        if isinstance(self.num, int):
            return Fraction(self.num, self.den)
        return z3.ToReal(self.num) / self.den if self.den != 1 else z3.ToReal(self.num)

    def conc(self):
        return isinstance(self.num, int) if self.rational() else isinstance(self._t, Fraction)

    def z(self):
        t = self.t
        if isinstance(t, Fraction):
            return z3.RealVal(str(t))
        return t

    def __repr__(self):
        return f'VMpf(num={self.num}, den={self.den}, err={self.err})'


class VTuple(Val):
    pytype = 'tuple'

    def __init__(self, items):
        self.items = tuple(items)

    def __repr__(self):
        return f'VTuple{self.items}'


class VRef(Val):
    """Reference to a mutable heap object (list / dict / set / instance)."""
    def __init__(self, ref, pytype):
        self.ref = ref
        self.pytype = pytype

    def __repr__(self):
        return f'VRef({self.pytype}#{self.ref})'


class VHandle(Val):
    """Opaque external object (serial port, lxml document, ...). Methods by external model."""
    def __init__(self, kind, name, data=None):
        self.kind = kind
        self.name = name
        self.data = data or {}
        self.pytype = kind

    def __repr__(self):
        return f'VHandle({self.kind}:{self.name})'


class VModule(Val):
    pytype = 'module'

    def __init__(self, name):
        self.name = name

    def __repr__(self):
        return f'VModule({self.name})'


class VFunc(Val):
    """Callable: kind in {'builtin','repo','method','ext','class','lambda'}"""
    pytype = 'function'

    def __init__(self, kind, name, data=None):
        self.kind = kind
        self.name = name
        self.data = data

    def __repr__(self):
        return f'VFunc({self.kind}:{self.name})'


class VExcClass(Val):
    pytype = 'type'

    def __init__(self, name):
        self.name = name

    def __repr__(self):
        return f'VExcClass({self.name})'


class VVersion(Val):
    """packaging.version.Version of the form a.b.c (assumed contract of packaging.parse)."""
    pytype = 'Version'

    def __init__(self, a, b, c):
        self.a, self.b, self.c = a, b, c

    def getattr(self, ex, p, attr, node=None):
        """Version.major / .minor / .micro of an a.b.c release (part of the assumed contract of packaging)"""
        comp = {'major': self.a, 'minor': self.b, 'micro': self.c}.get(attr)
        if comp is None:
            from .engine import EngineError
            raise EngineError(f'attribute {attr} of a packaging Version')
        yield p, VInt(comp)


class VOpaque(Val):
    """A value the executor only carries around (e.g. a port-tuple element)."""
    def __init__(self, pytype, name, term=None):
        self.pytype = pytype
        self.name = name
        self.term = term


# ----------------------------------------------------------------------------- heap objects

class HList:
    def __init__(self, items):
        self.items = list(items)

    def copy(self):
        return HList(self.items)


class HDict:
    def __init__(self, items):
        self.items = dict(items)   # key: python hashable (int/str) -> Val

    def copy(self):
        return HDict(self.items)


class HSet:
    def __init__(self, items):
        self.items = list(items)   # list of Val (concrete small sets), or symbolic membership

    def copy(self):
        return HSet(self.items)


class HObj:
    def __init__(self, cls, fields):
        self.cls = cls
        self.fields = dict(fields)

    def copy(self):
        return HObj(self.cls, self.fields)
