"""String / bytes operations on structured strings (strings.py), with SMT-string fallback."""
import itertools
import string as _string
from fractions import Fraction
import z3

from .values import (NONE, VNone, VBool, TRUE, FALSE, VInt, VFloat, VMpf, VTuple, VRef, VHandle, VFunc, Val,
                     HList, HDict, HSet, HObj)
from .strings import VStr, S, concat, str_of_int, Atom, WS, DIGITS, INTCHARS
from .engine import Raised, EngineError, NORMAL, to_int_val, fresh_name

StrS = z3.StringSort()
PY_STRIP = z3.Function('py_strip', StrS, StrS)
PY_LOWER = z3.Function('py_lower', StrS, StrS)
PY_UPPER = z3.Function('py_upper', StrS, StrS)
PY_ISSPACE = z3.Function('py_isspace', StrS, z3.BoolSort())
INT_OF = z3.Function('int_of', StrS, z3.IntSort())
IS_INT_TEXT = z3.Function('is_int_text', StrS, z3.BoolSort())
HEX_OF = z3.Function('hex_of', StrS, z3.IntSort())
IS_HEX_TEXT = z3.Function('is_hex_text', StrS, z3.BoolSort())
NUM_OF = z3.Function('num_of', StrS, z3.RealSort())
IS_NUM_TEXT = z3.Function('is_num_text', StrS, z3.BoolSort())
IS_ASCII = z3.Function('is_ascii', StrS, z3.BoolSort())
FMT = {}   # format spec -> UF Int/Real -> String
REPL = {}  # one-character replacement -> UF String -> String


def fmt_fn(spec, sort):
    key = (spec, str(sort))
    if key not in FMT:
        FMT[key] = z3.Function(f'fmt[{spec}]', sort, StrS)
    return FMT[key]


LETTERS = frozenset(_string.ascii_letters)


# ------------------------------------------------------------------------------ formatting
def format_value(ex, p, v, spec, conversion=-1):
    if isinstance(v, VStr):
        if spec:
            raise EngineError('format spec on str')
        if v.kind == 'bytes':
            return VStr([Atom(z3.String(fresh_name('bytes_repr')), nonempty=True)])
        return v
    if isinstance(v, VBool):
        if v.conc():
            return S('True' if v.b else 'False')
        return VStr([Atom(z3.If(v.b, z3.StringVal('True'), z3.StringVal('False')), incl=LETTERS, nonempty=True)])
    if isinstance(v, VInt):
        if not spec:
            return str_of_int(v)
        if v.conc():
            return S(format(v.t, spec))
        return VStr([Atom(fmt_fn(spec, z3.IntSort())(v.z()), incl=INTCHARS | {' ', '+'}, nonempty=True,
                          origin=('fmt', spec, v.z()))])
    if isinstance(v, VNone):
        return S('None')
    if isinstance(v, (VFloat, VMpf)):
        if v.conc() and isinstance(v, VFloat):
            return S(format(float(v.t), spec or ''))
        if isinstance(v, VFloat) and v.is_inf():
            return S('inf' if v.t.sign > 0 else '-inf')
        return VStr([Atom(fmt_fn(spec or 'repr', z3.RealSort())(v.z()), incl=frozenset('-+0123456789.einfa'),
                          nonempty=True, origin=('fmt', spec or 'repr', v.z()))])
    if hasattr(v, 'format'):
        return v.format(ex, p, spec)
    # anything else: an opaque non-empty text
    return VStr([Atom(z3.String(fresh_name('repr')), nonempty=True)])


def str_format(ex, p, fmt, args, kwargs, node):
    if not fmt.is_lit():
        raise EngineError('format on a non-literal template')
    out = VStr([])
    auto = 0
    for lit, field, spec, conv in _string.Formatter().parse(fmt.lit()):
        if lit:
            out = concat(out, S(lit))
        if field is None:
            continue
        if field == '':
            idx = auto
            auto += 1
            v = args[idx] if idx < len(args) else None
        elif field.isdigit():
            v = args[int(field)] if int(field) < len(args) else None
        else:
            v = kwargs.get(field)
        if v is None:
            return Raised('IndexError', node=node)
        out = concat(out, format_value(ex, p, v, spec or None))
    return out


# ------------------------------------------------------------------------------ binary operators
def binop(ex, p, opn, a, b, node=None):
    if opn == 'Add':
        if isinstance(a, VStr) and isinstance(b, VStr):
            if a.kind != b.kind:
                yield p, Raised('TypeError', node=node)
            else:
                yield p, concat(a, b)
            return
        yield p, Raised('TypeError', node=node)
        return
    if opn == 'Mult':
        s, n = (a, b) if isinstance(a, VStr) else (b, a)
        n = to_int_val(n)
        if isinstance(n, VInt) and n.conc():
            yield p, VStr(s.chunks * max(n.t, 0), s.kind)
            return
    if opn == 'Mod' and isinstance(a, VStr):
        raise EngineError('%-formatting is not modelled')
    raise EngineError(f'string operator {opn}')


def contains(ex, p, a, b, node=None):
    """a in b -> yields (path, bool | z3 Bool | Raised)"""
    if isinstance(b, VStr):
        if not isinstance(a, VStr) or a.kind != b.kind:
            yield p, Raised('TypeError', node=node)
            return
        yield p, str_contains(b, a)
        return
    if isinstance(b, VTuple):
        yield p, ex.z_or([ex.eq(p, a, x) for x in b.items])
        return
    if isinstance(b, VRef):
        h = p.heap[b.ref]
        if isinstance(h, (HList, HSet)):
            yield p, ex.z_or([ex.eq(p, a, x) for x in h.items])
            return
        if isinstance(h, HDict):
            if isinstance(a, (VInt, VBool)) and not to_int_val(a).conc():
                t = to_int_val(a).z()
                yield p, ex.z_or([t == k for k in h.items if isinstance(k, int)])
            else:
                yield p, ex.hashable(a) in h.items
            return
    if hasattr(b, 'contains'):
        yield from b.contains(ex, p, a, node)
        return
    if isinstance(b, (VNone, VInt, VFloat, VBool)):
        yield p, Raised('TypeError', node=node)
        return
    raise EngineError(f'membership in {b!r}')


def _skeletons(v):
    """literal skeletons of a structured string: atoms become \\x00 (kept) or vanish (if possibly empty)"""
    opts = [[]]
    for c in v.chunks:
        if isinstance(c, str):
            opts = [o + [c] for o in opts]
        elif c.nonempty:
            opts = [o + ['\x00'] for o in opts]
        else:
            opts = [o + ['\x00'] for o in opts] + [o + [''] for o in opts]
        if len(opts) > 64:
            return None
    return [''.join(o) for o in opts]


def str_contains(hay, needle):
    if needle.is_lit():
        n = needle.lit()
        if n == '':
            return True
        if hay.is_lit():
            return n in hay.lit()
        if any(isinstance(c, str) and n in c for c in hay.chunks):
            return True
        if not any(isinstance(c, Atom) and c.may_contain_any(n) for c in hay.chunks):
            sk = _skeletons(hay)
            if sk is not None and not any(n in s for s in sk):
                return False
    else:
        # structural: needle chunk list appears contiguously in hay chunk list
        nc, hc = needle.chunks, hay.chunks
        for i in range(len(hc) - len(nc) + 1):
            ok = True
            for x, y in zip(nc, hc[i:i + len(nc)]):
                if isinstance(x, str) and isinstance(y, str):
                    ok = ok and x == y
                elif isinstance(x, Atom) and isinstance(y, Atom):
                    ok = ok and x.same(y)
                else:
                    ok = False
            if ok:
                return True
    return z3.Contains(hay.z(), needle.z())


def starts_with(ex, p, s, pre):
    if isinstance(pre, VTuple):
        return ex.z_or([starts_with(ex, p, s, x) for x in pre.items])
    if not isinstance(pre, VStr) or pre.kind != s.kind:
        return Raised('TypeError')
    if pre.is_lit():
        t = pre.lit()
        if t == '':
            return True
        if s.is_lit():
            return s.lit().startswith(t)
        if s.chunks and isinstance(s.chunks[0], str):
            lead = s.chunks[0]
            if len(lead) >= len(t):
                return lead.startswith(t)
            if not t.startswith(lead):
                return False
            # lead matches a proper prefix of t; the rest must come from the next chunk
            nxt = s.chunks[1] if len(s.chunks) > 1 else None
            if isinstance(nxt, Atom) and nxt.nonempty and not nxt.may_contain(t[len(lead)]):
                return False
        elif s.chunks and isinstance(s.chunks[0], Atom):
            a0 = s.chunks[0]
            if a0.nonempty and not a0.may_contain(t[0]):
                return False
        elif not s.chunks:
            return False
    else:
        if len(pre.chunks) <= len(s.chunks) and VStr(s.chunks[:len(pre.chunks)], s.kind).struct_eq(pre):
            return True
    return z3.PrefixOf(pre.z(), s.z())


def ends_with(ex, p, s, suf):
    if isinstance(suf, VTuple):
        return ex.z_or([ends_with(ex, p, s, x) for x in suf.items])
    if suf.is_lit() and s.is_lit():
        return s.lit().endswith(suf.lit())
    if suf.is_lit() and s.chunks and isinstance(s.chunks[-1], str) and len(s.chunks[-1]) >= len(suf.lit()):
        return s.chunks[-1].endswith(suf.lit())
    return z3.SuffixOf(suf.z(), s.z())


# ------------------------------------------------------------------------------ strip / lower / ...
def _edge_clean(chunks, chars):
    """True if nothing can be stripped from the left edge of the chunk list"""
    for c in chunks:
        if isinstance(c, str):
            return c[0] not in chars
        if getattr(c, 'edges_clean', False):
            if c.nonempty:
                return True
            continue      # stripped but possibly empty: clean if non-empty, otherwise the next chunk decides
        if c.may_contain_any(chars):
            return False
        if c.nonempty:
            return True
        # possibly empty, ws-free atom: look at the next chunk
    return True


def strip(ex, p, s, chars=None, left=True, right=True):
    cs = WS if chars is None else frozenset(chars)
    if s.is_lit():
        t = s.lit()
        arg = None if chars is None else chars
        if left and right:
            return S(t.strip(arg), s.kind)
        return S(t.lstrip(arg) if left else t.rstrip(arg), s.kind)
    chunks = list(s.chunks)
    if chars is None and left and right and len(chunks) == 1 and isinstance(chunks[0], Atom) \
            and chunks[0].origin and chunks[0].origin[0] == 'strip':
        return s        # strip is idempotent
    if chars is None and left and right:
        # reply lines produced by the port model are pre-classified: a blank line (only whitespace) or a
        # text line that carries its own stripped core
        if len(chunks) == 1 and isinstance(chunks[0], Atom) and getattr(chunks[0], 'stripped', None) is not None:
            return VStr([chunks[0].stripped], s.kind)
        if chunks and all((isinstance(c, str) and not c.strip()) or
                          (isinstance(c, Atom) and c.incl is not None and c.incl <= WS) for c in chunks):
            return S('', s.kind)
    # peel whitespace at the edges: literal edge chunks are trimmed, atoms made only of stripped characters vanish
    def only_ws(c):
        return isinstance(c, Atom) and c.incl is not None and c.incl <= cs
    if left:
        while chunks and (isinstance(chunks[0], str) or only_ws(chunks[0])):
            if only_ws(chunks[0]):
                chunks.pop(0)
                continue
            t = chunks[0].lstrip(''.join(cs))
            if t:
                chunks[0] = t
                break
            chunks.pop(0)
    if right:
        while chunks and (isinstance(chunks[-1], str) or only_ws(chunks[-1])):
            if only_ws(chunks[-1]):
                chunks.pop()
                continue
            t = chunks[-1].rstrip(''.join(cs))
            if t:
                chunks[-1] = t
                break
            chunks.pop()
    lclean = (not left) or _edge_clean(chunks, cs)
    rclean = (not right) or _edge_clean([c if not isinstance(c, str) else c[::-1] for c in reversed(chunks)], cs)
    if lclean and rclean:
        return VStr(chunks, s.kind)
    if chars is not None and chars != '':
        # explicit character set on a symbolic edge: the result is the text without its longest prefix / suffix made of those
        # characters (sequence theory + a regular-expression constraint on the removed part)
        from .engine import fresh_name
        v = VStr(chunks, s.kind).z()
        cls = z3.Union(*[z3.Re(z3.StringVal(c)) for c in sorted(cs)]) if len(cs) > 1 else z3.Re(z3.StringVal(next(iter(cs))))
        a0, b0 = z3.IntVal(0), z3.Length(v)
        if left:
            a0 = z3.Int(fresh_name('lstrip_n'))
            p.assume(z3.And(a0 >= 0, a0 <= z3.Length(v), z3.InRe(z3.SubString(v, 0, a0), z3.Star(cls))))
        if right:
            b0 = z3.Int(fresh_name('rstrip_end'))
            p.assume(z3.And(b0 >= a0, b0 <= z3.Length(v), z3.InRe(z3.SubString(v, b0, z3.Length(v) - b0), z3.Star(cls))))
        r = z3.SubString(v, a0, b0 - a0)
        if left:
            p.assume(z3.Or(z3.Length(r) == 0, z3.Not(z3.InRe(z3.SubString(r, 0, 1), cls))))
        if right:
            p.assume(z3.Or(z3.Length(r) == 0, z3.Not(z3.InRe(z3.SubString(r, z3.Length(r) - 1, 1), cls))))
        return VStr([Atom(r)], s.kind)
    if chars is not None or not (left and right):
        raise EngineError('lstrip/rstrip/strip(chars) on a symbolic edge')
    v = VStr(chunks, s.kind)
    term = PY_STRIP(v.z())
    # inherit the character knowledge of the atoms
    incl = None
    excl = None
    for c in v.chunks:
        if isinstance(c, Atom):
            excl = c.excl if excl is None else (excl & c.excl)
        else:
            excl = (excl or frozenset()) - frozenset(c) if excl is not None else frozenset()
    a = Atom(term, incl=incl, excl=excl or frozenset(), origin=('strip', v.z()))
    a.edges_clean = True
    return VStr([a], s.kind)


def lower(ex, p, s, upper=False):
    out = []
    for c in s.chunks:
        if isinstance(c, str):
            out.append(c.upper() if upper else c.lower())
        elif c.incl is not None and not (c.incl & LETTERS):
            out.append(c)
        elif c.origin and c.origin[0] == ('upper' if upper else 'lower'):
            out.append(c)
        else:
            fn = PY_UPPER if upper else PY_LOWER
            a = Atom(fn(c.term), incl=None if c.incl is None else frozenset(x.upper() if upper else x.lower() for x in c.incl),
                     excl=frozenset(x for x in c.excl if not x.isalpha()),
                     nonempty=c.nonempty, origin=('upper' if upper else 'lower', c.term))
            a.edges_clean = getattr(c, 'edges_clean', False)
            ex.ctx.assume_note('str.lower()/upper() on symbolic text is an uninterpreted length-preserving function (ASCII assumption)')
            out.append(a)
    return VStr(out, s.kind)


def isspace(ex, p, s):
    if s.is_lit():
        return s.lit().isspace()
    for c in s.chunks:
        if isinstance(c, str):
            if not c.isspace():
                return False
        elif c.nonempty and not c.may_contain_any(WS):
            return False
        elif getattr(c, 'edges_clean', False) and c.nonempty:
            return False
    if len(s.chunks) == 1 and getattr(s.chunks[0], 'edges_clean', False):
        # a stripped text is never all-whitespace (it is empty or has a non-space edge)
        return False
    return PY_ISSPACE(s.z())


def replace(ex, p, s, old, new):
    if not (old.is_lit() and new.is_lit()):
        raise EngineError('replace with symbolic pattern')
    o, n = old.lit(), new.lit()
    if s.is_lit():
        return S(s.lit().replace(o, n), s.kind)
    if len(o) != 1:
        # only a one-character pattern acts chunk by chunk (monoid homomorphism); longer ones could span chunks
        raise EngineError('str.replace with a multi-character pattern on symbolic text is not modelled')
    out = []
    for c in s.chunks:
        if isinstance(c, str):
            out.append(c.replace(o, n))
        elif not c.may_contain_any(o):
            out.append(c)
        else:
            # uninterpreted image of the atom under the one-character replacement (axiom: replace distributes over
            # concatenation for a one-character pattern, so it can be applied to each chunk separately)
            key = f'replace[{o!r}->{n!r}]'
            fn = REPL.setdefault(key, z3.Function(key, StrS, StrS))
            excl = set(c.excl) - set(n)
            if o not in n:
                excl.add(o)
            a = Atom(fn(c.term), incl=None if c.incl is None else frozenset((set(c.incl) - {o}) | set(n)), excl=frozenset(excl),
                     origin=('replace', o, n, c))
            ex.ctx.assume_note('str.replace(c, s) with a one-character pattern c is a monoid homomorphism (acts chunk by chunk)')
            out.append(a)
    return VStr(out, s.kind)


# ------------------------------------------------------------------------------ indexing
def _zlen(s):
    return s.length().z()


def get_item(ex, p, s, idx, node=None):
    if s.kind == 'bytes':
        raise EngineError('indexing bytes')
    idx = to_int_val(idx)
    if not isinstance(idx, VInt):
        yield p, Raised('TypeError', node=node)
        return
    if idx.conc():
        i = idx.t
        if s.is_lit():
            t = s.lit()
            if -len(t) <= i < len(t):
                yield p, S(t[i])
            else:
                yield p, Raised('IndexError', node=node)
            return
        if i >= 0 and s.chunks and isinstance(s.chunks[0], str) and len(s.chunks[0]) > i:
            yield p, S(s.chunks[0][i])
            return
        if i < 0 and s.chunks and isinstance(s.chunks[-1], str) and len(s.chunks[-1]) >= -i:
            yield p, S(s.chunks[-1][i])
            return
    n = _zlen(s)
    t = idx.z()
    ok = z3.And(t >= -n, t < n)
    if idx.conc() and idx.t >= 0 and s.min_len() > idx.t:
        ok = True
    for q, r in ex.raise_unless(p, ok, 'IndexError', node):
        if r is not None:
            yield q, r
            continue
        pos = t if (idx.conc() and idx.t >= 0) else z3.If(t < 0, t + n, t)
        incl, excl = _char_info(s)
        yield q, VStr([Atom(z3.SubString(s.z(), pos, 1), incl=incl, excl=excl, nonempty=True)], s.kind)


def _char_info(s):
    incl = frozenset()
    excl = None
    for c in s.chunks:
        if isinstance(c, str):
            if incl is not None:
                incl = incl | frozenset(c)
            excl = (excl - frozenset(c)) if excl is not None else frozenset()
        else:
            if c.incl is None:
                incl = None
            elif incl is not None:
                incl = incl | c.incl
            excl = c.excl if excl is None else (excl & c.excl)
    return incl, (excl or frozenset())


def get_slice(ex, p, s, lo, hi, node=None):
    lo = None if lo is None or isinstance(lo, VNone) else to_int_val(lo)
    hi = None if hi is None or isinstance(hi, VNone) else to_int_val(hi)
    conc = (lo is None or lo.conc()) and (hi is None or hi.conc())
    if s.is_lit() and conc:
        t = s.lit()
        yield p, S(t[(lo.t if lo else None):(hi.t if hi else None)], s.kind)
        return
    if conc and hi is None and lo is not None and lo.t >= 0:
        # drop lo characters from the front when literal chunks cover them
        k = lo.t
        chunks = list(s.chunks)
        while k > 0 and chunks and isinstance(chunks[0], str):
            if len(chunks[0]) > k:
                chunks[0] = chunks[0][k:]
                k = 0
            else:
                k -= len(chunks[0])
                chunks.pop(0)
        if k == 0:
            yield p, VStr(chunks, s.kind)
            return
    if conc and lo is None and hi is not None and hi.t < 0:
        k = -hi.t
        chunks = list(s.chunks)
        while k > 0 and chunks and isinstance(chunks[-1], str):
            if len(chunks[-1]) > k:
                chunks[-1] = chunks[-1][:-k]
                k = 0
            else:
                k -= len(chunks[-1])
                chunks.pop()
        if k == 0:
            yield p, VStr(chunks, s.kind)
            return
    if conc and (lo is None or lo.t == 0) and hi is not None and hi.t >= 0 and s.chunks and isinstance(s.chunks[0], str) \
            and len(s.chunks[0]) >= hi.t:
        yield p, S(s.chunks[0][:hi.t], s.kind)
        return
    if conc and lo is not None and lo.t < 0 and hi is None and s.chunks and isinstance(s.chunks[-1], str) \
            and len(s.chunks[-1]) >= -lo.t:
        yield p, S(s.chunks[-1][lo.t:], s.kind)
        return
    n = _zlen(s)

    def norm(v, default):
        if v is None:
            return default
        if v.conc():
            if v.t < 0:
                return z3.If(n + v.t < 0, 0, n + v.t)
            return z3.If(n < v.t, n, z3.IntVal(v.t))
        t = v.z()
        return z3.If(t < 0, z3.If(t + n < 0, 0, t + n), z3.If(t > n, n, t))
    start = norm(lo, z3.IntVal(0))
    stop = norm(hi, n)
    ln = z3.If(stop - start < 0, 0, stop - start)
    incl, excl = _char_info(s)
    a = Atom(z3.SubString(s.z(), z3.simplify(start), z3.simplify(ln)), incl=incl, excl=excl)
    yield p, VStr([a], s.kind)


def iterate(ex, p, s, node=None):
    if s.is_lit():
        if s.kind == 'bytes':
            yield p, [VInt(ord(c)) for c in s.lit()]
        else:
            yield p, [S(c) for c in s.lit()]
        return
    raise EngineError('iteration over a symbolic string')


# ------------------------------------------------------------------------------ parsing numbers
def _strip_lit_ws(s):
    return strip(None, None, s) if s.is_lit() else s


def parse_int(ex, p, v, base, node=None):
    if not isinstance(v, VStr):
        if isinstance(v, VNone):
            yield p, Raised('TypeError', node=node)
            return
        raise EngineError(f'int() of {v!r}')
    b = 10
    if base is not None:
        if not base.conc():
            raise EngineError('symbolic base')
        b = base.t
    if v.is_lit():
        try:
            yield p, VInt(int(v.lit(), b) if v.kind == 'str' else int(v.lit().encode('latin-1'), b))
        except ValueError:
            yield p, Raised('ValueError', node=node)
        return
    # peel literal whitespace
    chunks = list(v.chunks)
    while chunks and isinstance(chunks[0], str) and not chunks[0].strip():
        chunks.pop(0)
    while chunks and isinstance(chunks[-1], str) and not chunks[-1].strip():
        chunks.pop()
    if isinstance(chunks[0], str):
        chunks[0] = chunks[0].lstrip()
    if isinstance(chunks[-1], str):
        chunks[-1] = chunks[-1].rstrip()
    if b == 10 and len(chunks) == 1 and isinstance(chunks[0], Atom):
        a = chunks[0]
        if a.origin and a.origin[0] == 'str_of':
            yield p, VInt(a.origin[1])
            return
    w = VStr(chunks, v.kind)
    z = w.z()
    if b == 10:
        okf, valf = IS_INT_TEXT, INT_OF
    elif b == 16:
        okf, valf = IS_HEX_TEXT, HEX_OF
    else:
        raise EngineError('int() base')
    ex.ctx.assume_note('int(text) on symbolic text: uninterpreted value when the text is a numeral, ValueError otherwise')
    ok = okf(z)
    if getattr(chunks[0], 'is_int_text', False) and len(chunks) == 1:
        ok = True
    for q, r in ex.raise_unless(p, ok, 'ValueError', node):
        yield q, (r if r is not None else VInt(valf(z)))


def parse_float(ex, p, v, node=None):
    if v.is_lit():
        t = v.lit().strip()
        try:
            float(t)
        except ValueError:
            yield p, Raised('ValueError', node=node)
            return
        try:
            yield p, VFloat(Fraction(t))
        except (ValueError, ZeroDivisionError):
            raise EngineError(f'float literal {t!r} outside the real model')
        return
    if hasattr(v, 'parse_float'):
        yield from v.parse_float(ex, p, node)
        return
    # a literal chunk with a character that no Python float literal contains: never a numeral
    FLOATCHARS = set('0123456789+-.eE_infatyINFATY \t\n\r\x0b\x0c')
    if any(isinstance(c, str) and any(ch not in FLOATCHARS for ch in c) for c in v.chunks):
        yield p, Raised('ValueError', node=node)
        return
    z = v.z()
    ok = IS_NUM_TEXT(z)
    if len(v.chunks) == 1 and getattr(v.chunks[0], 'is_num_text', None) is not None:
        ok = v.chunks[0].is_num_text
    ex.ctx.assume_note('float(text) on symbolic text: num_of(text) when the text is a numeral, ValueError otherwise')
    for q, r in ex.raise_unless(p, ok, 'ValueError', node):
        yield q, (r if r is not None else VFloat(NUM_OF(z)))


# ------------------------------------------------------------------------------ split
class VSplit(Val):
    """Lazy result of text.split(sep[, maxsplit]) on symbolic text (sep literal, non-empty)."""
    pytype = 'list'

    def __init__(self, s, sep, maxsplit):
        self.s, self.sep, self.maxsplit = s, sep, maxsplit

    def _piece(self, ex, p, k, node):
        """yield (path, VStr | Raised IndexError) for piece k"""
        s, sep = self.s, self.sep
        z = s.z()
        zs = z3.StringVal(sep)
        incl, excl = _char_info(s)
        start = z3.IntVal(0)
        q = p
        for j in range(k + 1):
            last_allowed = (self.maxsplit is not None and j >= self.maxsplit)
            idx = z3.IndexOf(z, zs, start)
            if j == k:
                if last_allowed:
                    yield q, VStr([Atom(z3.SubString(z, start, z3.Length(z) - start), incl=incl, excl=excl)], s.kind)
                    return
                for q2, c in ex.branch(q, idx >= 0, f'sp{j}'):
                    if c:
                        a = Atom(z3.SubString(z, start, idx - start), incl=incl, excl=excl | (frozenset(sep) if len(sep) == 1 else frozenset()))
                        yield q2, VStr([a], s.kind)
                    else:
                        a = Atom(z3.SubString(z, start, z3.Length(z) - start), incl=incl, excl=excl | (frozenset(sep) if len(sep) == 1 else frozenset()))
                        yield q2, VStr([a], s.kind)
                return
            if last_allowed:
                yield q, Raised('IndexError', node=node)
                return
            got = list(ex.branch(q, idx >= 0, f'sp{j}'))
            q = None
            for q2, c in got:
                if c:
                    q = q2
                else:
                    yield q2, Raised('IndexError', node=node)
            if q is None:
                return
            start = idx + len(sep)

    def getitem(self, ex, p, idx, node=None):
        idx = to_int_val(idx)
        if not (isinstance(idx, VInt) and idx.conc() and idx.t >= 0):
            raise EngineError('split()[i] with symbolic / negative i')
        yield from self._piece(ex, p, idx.t, node)

    def length(self, ex, p):
        if self.maxsplit == 1:
            return VInt(z3.If(z3.Contains(self.s.z(), z3.StringVal(self.sep)), 2, 1))
        n = z3.Int(fresh_name('nsplit'))
        p.assume(n >= 1)
        return VInt(n)

    def truth(self, ex, p):
        return True


def split(ex, p, s, sep, maxsplit, node=None):
    if sep is not None and not sep.is_lit():
        raise EngineError('split on symbolic separator')
    sp = None if sep is None else sep.lit()
    ms = None
    if maxsplit is not None:
        maxsplit = to_int_val(maxsplit)
        if not maxsplit.conc():
            raise EngineError('symbolic maxsplit')
        ms = maxsplit.t if maxsplit.t >= 0 else None
    if s.is_lit():
        parts = s.lit().split(sp, -1 if ms is None else ms)
        yield p, p.alloc(HList([S(x, s.kind) for x in parts]), 'list')
        return
    if sp is None:
        if hasattr(s, 'split_ws'):
            yield from s.split_ws(ex, p, node)
            return
        raise EngineError('whitespace split of symbolic text')
    if sp == '':
        yield p, Raised('ValueError', node=node)
        return
    # structural split when no atom can contain any character of the separator
    if not any(isinstance(c, Atom) and c.may_contain_any(sp) for c in s.chunks):
        sk = _skeletons(s)
        single = len(sp) == 1
        if single or (sk is not None and all(x.count(sp) == sk[0].count(sp) for x in sk)):
            pieces = [[]]
            count = 0
            for c in s.chunks:
                if isinstance(c, str):
                    rest = c
                    while True:
                        if ms is not None and count >= ms:
                            pieces[-1].append(rest)
                            break
                        i = rest.find(sp)
                        if i < 0:
                            pieces[-1].append(rest)
                            break
                        pieces[-1].append(rest[:i])
                        pieces.append([])
                        count += 1
                        rest = rest[i + len(sp):]
                else:
                    pieces[-1].append(c)
            if single or True:
                yield p, p.alloc(HList([VStr(x, s.kind) for x in pieces]), 'list')
                return
    yield p, VSplit(s, sp, ms)


# ------------------------------------------------------------------------------ method dispatch
def method(ex, p, s, name, args, kwargs, node):
    if hasattr(s, 'str_method'):
        r = s.str_method(ex, p, name, args, kwargs, node)
        if r is not None:
            yield from r
            return
    lim = {'strip': 1, 'lstrip': 1, 'rstrip': 1, 'lower': 0, 'upper': 0, 'startswith': 1, 'endswith': 1, 'isspace': 0, 'replace': 2,
           'join': 1, 'find': 2, 'isdigit': 0, 'copy': 0, 'split': 2, 'encode': 2, 'decode': 2}.get(name)
    if lim is not None and (len(args) > lim or (kwargs and name not in ('split', 'encode', 'decode'))):
        # an argument the model does not read (startswith(p, start), replace(a, b, count), find(s, a, b) ...) must not be dropped silently
        raise EngineError(f'str.{name} called with arguments its model does not cover ({len(args)} positional, keywords {sorted(kwargs)})')
    if name == 'strip':
        if args and not args[0].is_lit():
            raise EngineError('strip(chars)')
        yield p, strip(ex, p, s, args[0].lit() if args else None)
    elif name in ('lstrip', 'rstrip'):
        yield p, strip(ex, p, s, args[0].lit() if args else None, left=(name == 'lstrip'), right=(name == 'rstrip'))
    elif name == 'lower':
        yield p, lower(ex, p, s)
    elif name == 'upper':
        yield p, lower(ex, p, s, upper=True)
    elif name == 'startswith':
        r = starts_with(ex, p, s, args[0])
        yield p, (r if isinstance(r, Raised) else VBool(r))
    elif name == 'endswith':
        r = ends_with(ex, p, s, args[0])
        yield p, (r if isinstance(r, Raised) else VBool(r))
    elif name == 'isspace':
        yield p, VBool(isspace(ex, p, s))
    elif name in ('encode', 'decode') and (len(args) > 1 or 'errors' in kwargs):
        raise EngineError(f'str.{name} with an error handler is not modelled')
    elif name == 'encode':
        if s.kind != 'str':
            yield p, Raised('AttributeError', node=node)
            return
        ok = True
        for c in s.chunks:
            if isinstance(c, str):
                if not c.isascii():
                    ok = False
            elif not getattr(c, 'ascii', True):
                ok = z3.And(ok, IS_ASCII(c.term)) if not isinstance(ok, bool) or ok else ok
        for q, r in ex.raise_unless(p, ok, 'UnicodeEncodeError', node):
            yield q, (r if r is not None else s.with_kind('bytes'))
    elif name == 'decode':
        if s.kind != 'bytes':
            yield p, Raised('AttributeError', node=node)
            return
        conds = []
        for c in s.chunks:
            if isinstance(c, str):
                if not c.isascii():
                    conds.append(False)
            elif not getattr(c, 'ascii', True):
                conds.append(IS_ASCII(c.term))
        ok = ex.z_and(conds)
        for q, r in ex.raise_unless(p, ok, 'UnicodeDecodeError', node):
            yield q, (r if r is not None else s.with_kind('str'))
    elif name == 'format':
        r = str_format(ex, p, s, args, kwargs, node)
        yield p, r
    elif name == 'split':
        sep = args[0] if args else kwargs.get('sep')
        if isinstance(sep, VNone):
            sep = None
        ms = args[1] if len(args) > 1 else kwargs.get('maxsplit')
        yield from split(ex, p, s, sep, ms, node)
    elif name == 'replace':
        yield p, replace(ex, p, s, args[0], args[1])
    elif name == 'join':
        from . import seqops
        for q, items in seqops.iterate(ex, p, args[0], node):
            if isinstance(items, Raised):
                yield q, items
                continue
            out = VStr([], s.kind)
            for i, it in enumerate(items):
                if not isinstance(it, VStr) or it.kind != s.kind:
                    out = Raised('TypeError', node=node)
                    break
                if i:
                    out = concat(out, s)
                out = concat(out, it)
            yield q, out
    elif name == 'find':
        sub = args[0]
        start = to_int_val(args[1]).z() if len(args) > 1 else z3.IntVal(0)
        if s.is_lit() and sub.is_lit() and len(args) == 1:
            yield p, VInt(s.lit().find(sub.lit()))
        else:
            # z3 IndexOf agrees with str.find for 0 <= start <= len; python clips other starts
            n = _zlen(s)
            st = z3.If(start < 0, z3.If(start + n < 0, 0, start + n), start)
            yield p, VInt(z3.If(st > n, -1, z3.IndexOf(s.z(), sub.z(), st)))
    elif name == 'isdigit':
        if s.is_lit():
            yield p, VBool(s.lit().isdigit())
        else:
            raise EngineError('isdigit on symbolic text')
    elif name == 'copy':
        yield p, s
    elif name == 'get':
        yield p, Raised('AttributeError', node=node)
    else:
        if name in ('append', 'items', 'keys', 'close', 'write', 'readline'):
            yield p, Raised('AttributeError', node=node)
            return
        raise EngineError(f'str method {name}')
