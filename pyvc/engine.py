"""pyvc symbolic executor: real Python AST in, named proof obligations out.

Forward symbolic execution with path splitting.  Values are typed (values.py).  Calls to
functions that have a contract are modular (contract applied, body not entered); loops are
either unrolled completely (their own exit test is the unwinding assertion) or handled with
an inductive invariant supplied by the sidecar contract.
"""
import ast
import hashlib
import itertools
from fractions import Fraction

import z3

from .values import (Val, VNone, NONE, VBool, TRUE, FALSE, VInt, VFloat, VMpf, VTuple, VRef, VHandle,
                     VModule, VFunc, VExcClass, VVersion, VOpaque, HList, HDict, HSet, HObj, PINF, NINF, Inf)
from .strings import VStr, S, concat, str_of_int, Atom
from . import front


class EngineError(Exception):
    """The executor cannot process the code (unsupported construct, missing contract, ...)."""


# ------------------------------------------------------------------------------ outcomes
class Raised:
    def __init__(self, cls, msg=None, node=None):
        self.cls = cls
        self.msg = msg
        self.node = node

    def __repr__(self):
        return f'Raised({self.cls})'


class Ret:
    def __init__(self, val):
        self.val = val


class _Tok:
    def __init__(self, n):
        self.n = n

    def __repr__(self):
        return self.n


NORMAL = _Tok('NORMAL')
BRK = _Tok('BREAK')
CONT = _Tok('CONTINUE')

EXC_PARENT = {
    'BaseException': None, 'Exception': 'BaseException',
    'ArithmeticError': 'Exception', 'ZeroDivisionError': 'ArithmeticError', 'OverflowError': 'ArithmeticError',
    'LookupError': 'Exception', 'IndexError': 'LookupError', 'KeyError': 'LookupError',
    'ValueError': 'Exception', 'UnicodeError': 'ValueError', 'UnicodeDecodeError': 'UnicodeError',
    'UnicodeEncodeError': 'UnicodeError',
    'TypeError': 'Exception', 'AttributeError': 'Exception', 'AssertionError': 'Exception',
    'RuntimeError': 'Exception', 'NameError': 'Exception', 'UnboundLocalError': 'NameError',
    'OSError': 'Exception', 'IOError': 'OSError',
    'SerialException': 'OSError', 'SerialTimeoutException': 'SerialException',
    'PortNotOpenError': 'SerialException',
    'InvalidVersion': 'ValueError', 'StopIteration': 'Exception',
}


def exc_matches(raised, handler):
    if handler in ('IOError', 'EnvironmentError'):
        handler = 'OSError'
    c = raised
    if c in ('IOError',):
        c = 'OSError'
    while c is not None:
        if c == handler:
            return True
        c = EXC_PARENT.get(c)
    return False


# ------------------------------------------------------------------------------ obligations
class Oblig:
    def __init__(self, name, func, kind, hyps, goal, info=None):
        self.name = name
        self.func = func
        self.kind = kind
        self.hyps = list(hyps)
        self.goal = goal
        self.info = info or {}

    def smt2(self):
        s = z3.Solver()
        for h in self.hyps:
            s.add(h)
        s.add(z3.Not(self.goal))
        return s.to_smt2()


# ------------------------------------------------------------------------------ path state
_ref_counter = itertools.count(1)
_sym_counter = itertools.count(1)


def fresh_name(base):
    return f'{base}!{next(_sym_counter)}'


class Frame:
    def __init__(self, env, module, qualname, cls=None):
        self.env = env
        self.module = module
        self.qualname = qualname
        self.cls = cls
        self.loop_ord = 0


class Path:
    def __init__(self):
        self.frames = []
        self.heap = {}
        self.pc = []
        self.ghost = {}
        self.trail = []
        self.events = []      # ghost event trace (writes etc.)

    def fork(self):
        q = Path()
        q.frames = []
        for f in self.frames:
            g = Frame(dict(f.env), f.module, f.qualname, f.cls)
            g.loop_ord = f.loop_ord
            q.frames.append(g)
        q.heap = {r: o.copy() for r, o in self.heap.items()}
        q.pc = list(self.pc)
        q.ghost = dict(self.ghost)
        q.trail = list(self.trail)
        q.events = list(self.events)
        return q

    @property
    def env(self):
        return self.frames[-1].env

    def assume(self, c):
        if isinstance(c, bool):
            if not c:
                self.pc.append(z3.BoolVal(False))
            return
        c = z3.simplify(c)
        if z3.is_true(c):
            return
        self.pc.append(c)

    def alloc(self, hobj, pytype):
        r = next(_ref_counter)
        self.heap[r] = hobj
        return VRef(r, pytype)

    def sig(self):
        return hashlib.sha1('|'.join(self.trail).encode()).hexdigest()[:8]


# ------------------------------------------------------------------------------ context
class Ctx:
    def __init__(self, prop):
        self.prop = prop
        self.contracts = {}       # qualified name 'plotink.mod.func' / 'plotink.mod.Class.meth' -> contract object
        self.inline = set()       # qualified names executed inline (verified as part of the caller)
        self.externals = {}       # handle kind -> handler(ex, p, handle, method, args, kwargs) generator
        self.ext_funcs = {}       # dotted external function name -> handler(ex, p, args, kwargs) generator
        self.loop_specs = {}      # (qualified function name, ordinal) -> LoopSpec
        self.obligations = []
        self.opts = {
            'prune': True, 'prune_timeout_ms': 2000, 'float_mode': 'real', 'track_float': False,
            'unroll_limit': 256, 'mp_prec': 103,
            # exploration budget of one context (wall clock): beyond it the executor gives up with an engine limit (-> bounded
            # fallback) instead of exploring for hours; the slowest context on the unchanged tree needs about 100 s
            'explore_budget_s': 600,
        }
        self.t0 = None
        self.n_stmts = 0
        self.assumptions = set()
        self.functions = {}       # qualified name -> {'file','sha256','ast_hash'}
        self.stats = {'paths': 0, 'prune_calls': 0, 'prune_s': 0.0}

    def note_function(self, modname, qualname):
        mi = front.load(modname)
        self.functions[f'{modname}.{qualname}'] = {
            'file': mi.path, 'sha256': mi.sha256, 'ast_hash': mi.func_hash(qualname),
            'line': mi.func(qualname).lineno}

    def assume_note(self, text):
        self.assumptions.add(text)


class VPoison(Val):
    """value of a loop-assigned variable / self attribute that the loop's invariant says nothing about: any use is an engine limit
    (never a verdict).  Installed at the loop head by the frame guard (loop_with_invariant)."""
    pytype = 'poison'

    def __init__(self, what):
        self.what = what


class LoopSpec:
    """Inductive invariant for one loop (sidecar).  Override the hooks.
    Frame guard: every local name and self.attribute the loop body can store to must be given a fresh value by head() (or be
    listed in `modifies` when head() re-installs an identical object); anything else is poisoned for the rest of the function."""
    modifies = frozenset()

    def establish(self, ex, p):
        """obligations that must hold on entry: list of (name, z3 Bool)"""
        return []

    def head(self, ex, p):
        """havoc the loop's write set on p and assume the invariant (mutates p)"""
        raise NotImplementedError

    def preserve(self, ex, p):
        """obligations at the end of an arbitrary iteration: list of (name, z3 Bool)"""
        return []

    def after(self, ex, p):
        """called on the exit path (invariant and negated test already assumed)"""
        return None


# ------------------------------------------------------------------------------ helpers
def zreal(v):
    """z3 Real term of a numeric value"""
    if isinstance(v, VInt):
        return z3.ToReal(v.z()) if not v.conc() else z3.RealVal(v.t)
    if isinstance(v, VBool):
        return z3.If(v.z(), z3.RealVal(1), z3.RealVal(0))
    return v.z()


def is_num(v):
    return isinstance(v, (VInt, VFloat, VBool, VMpf))


def to_int_val(v):
    if isinstance(v, VBool):
        if v.conc():
            return VInt(int(v.b))
        return VInt(z3.If(v.b, 1, 0))
    return v


def z_floor(t):
    return z3.ToInt(t)


def z_ceil(t):
    return -z3.ToInt(-t)


def z_trunc(t):
    return z3.If(t >= 0, z3.ToInt(t), -z3.ToInt(-t))


def z_round_half_even(t):
    f = z3.ToInt(t + z3.RealVal('1/2'))
    tie = z3.ToReal(f) == t + z3.RealVal('1/2')
    return z3.If(z3.And(tie, f % 2 == 1), f - 1, f)


def z_abs(t):
    return z3.If(t >= 0, t, -t)


def py_floordiv(a, b):
    """Python // on z3 Ints (b != 0)"""
    return z3.If(b > 0, a / b, (-a) / (-b))


class Exec:
    def __init__(self, ctx):
        self.ctx = ctx
        self._solver = None

    # ------------------------------------------------------------------ obligations
    def oblige(self, p, kind, goal, detail='', info=None, extra_hyps=()):
        if isinstance(goal, bool):
            goal = z3.BoolVal(goal)
        fn = p.frames[0].qualname if p.frames else '?'
        cur = p.frames[-1].qualname if p.frames else '?'
        name = f'{self.ctx.prop}/{fn}/{kind}'
        if detail:
            name += f'/{detail}'
        name += f'#{p.sig()}'
        ob = Oblig(name, cur, kind, list(p.pc) + list(extra_hyps), goal, dict(info or {}, trail=list(p.trail)))
        self.ctx.obligations.append(ob)
        return ob

    # ------------------------------------------------------------------ feasibility
    def feasible(self, p, cond=None):
        if not self.ctx.opts['prune']:
            return True
        import time
        t0 = time.time()
        s = z3.Solver()
        s.set('timeout', self.ctx.opts['prune_timeout_ms'])
        for c in p.pc:
            s.add(c)
        if cond is not None:
            s.add(cond)
        r = s.check()
        self.ctx.stats['prune_calls'] += 1
        self.ctx.stats['prune_s'] += time.time() - t0
        return r != z3.unsat

    def branch(self, p, cond, label=''):
        """yield (path, bool) for the feasible truth values of cond"""
        if isinstance(cond, VBool):
            cond = cond.b
        if isinstance(cond, bool):
            yield p, cond
            return
        cond = z3.simplify(cond)
        if z3.is_true(cond):
            yield p, True
            return
        if z3.is_false(cond):
            yield p, False
            return
        t_ok = self.feasible(p, cond)
        f_ok = self.feasible(p, z3.Not(cond)) if t_ok else True
        if t_ok and f_ok:
            q = p.fork()
            p.assume(cond)
            p.trail.append(f'{label}T')
            q.assume(z3.Not(cond))
            q.trail.append(f'{label}F')
            yield p, True
            yield q, False
        elif t_ok:
            p.assume(cond)
            yield p, True
        elif f_ok:
            p.assume(z3.Not(cond))
            yield p, False

    def raise_unless(self, p, ok, exc, node=None, label=''):
        """fork: on ok continue (yield (p, None)); otherwise yield (p', Raised(exc))"""
        for q, c in self.branch(p, ok, label or exc):
            if c:
                yield q, None
            else:
                yield q, Raised(exc, node=node)

    # ------------------------------------------------------------------ truthiness / equality
    def truth(self, p, v):
        if isinstance(v, VBool):
            return v.b
        if isinstance(v, VInt):
            return (v.t != 0)
        if isinstance(v, (VFloat, VMpf)):
            if isinstance(v.t, Inf):
                return True
            if v.conc():
                return v.t != 0
            if isinstance(v.t, z3.FPRef):
                return z3.Not(z3.fpIsZero(v.t))
            return v.t != 0
        if isinstance(v, VNone):
            return False
        if isinstance(v, VStr):
            if v.min_len() > 0:
                return True
            if v.is_lit():
                return len(v.lit()) > 0
            return z3.Length(v.z()) > 0
        if isinstance(v, VTuple):
            return len(v.items) > 0
        if isinstance(v, VRef):
            h = p.heap[v.ref]
            if isinstance(h, HList):
                return len(h.items) > 0
            if isinstance(h, HDict):
                return len(h.items) > 0
            if isinstance(h, HSet):
                return len(h.items) > 0
            return True
        if isinstance(v, (VHandle, VFunc, VModule, VVersion, VExcClass)):
            return True
        if hasattr(v, 'truth'):
            return v.truth(self, p)
        raise EngineError(f'truthiness of {v!r}')

    def eq(self, p, a, b):
        """Python == as bool | z3 Bool (no exceptions)"""
        if isinstance(a, VNone) or isinstance(b, VNone):
            return isinstance(a, VNone) and isinstance(b, VNone)
        if is_num(a) and is_num(b):
            return self.num_cmp('==', a, b)
        if isinstance(a, VStr) and isinstance(b, VStr):
            if a.kind != b.kind:
                return False
            se = a.struct_eq(b)
            if se is not None:
                return se
            # a literal containing a character the other side cannot contain
            for lit, oth in ((a, b), (b, a)):
                if lit.is_lit() and lit.lit() and all(isinstance(c, str) or c.incl is not None or c.excl for c in oth.chunks):
                    if any(not any((ch in c) if isinstance(c, str) else c.may_contain(ch) for c in oth.chunks) for ch in lit.lit()):
                        return False
            return a.z() == b.z()
        if isinstance(a, VTuple) and isinstance(b, VTuple):
            if len(a.items) != len(b.items):
                return False
            return self.z_and([self.eq(p, x, y) for x, y in zip(a.items, b.items)])
        if isinstance(a, VRef) and isinstance(b, VRef):
            ha, hb = p.heap[a.ref], p.heap[b.ref]
            if isinstance(ha, HList) and isinstance(hb, HList):
                if len(ha.items) != len(hb.items):
                    return False
                return self.z_and([self.eq(p, x, y) for x, y in zip(ha.items, hb.items)])
            return a.ref == b.ref
        if isinstance(a, VVersion) and isinstance(b, VVersion):
            return z3.And(a.a == b.a, a.b == b.b, a.c == b.c)
        if hasattr(a, 'eq_to'):
            return a.eq_to(self, p, b)
        if hasattr(b, 'eq_to'):
            return b.eq_to(self, p, a)
        if type(a) is not type(b):
            return False
        if isinstance(a, VHandle):
            return a.name == b.name
        raise EngineError(f'== between {a!r} and {b!r}')

    @staticmethod
    def z_and(cs):
        out = []
        for c in cs:
            if isinstance(c, bool):
                if not c:
                    return False
                continue
            out.append(c)
        if not out:
            return True
        return z3.And(*out) if len(out) > 1 else out[0]

    @staticmethod
    def z_or(cs):
        out = []
        for c in cs:
            if isinstance(c, bool):
                if c:
                    return True
                continue
            out.append(c)
        if not out:
            return False
        return z3.Or(*out) if len(out) > 1 else out[0]

    @staticmethod
    def z_not(c):
        if isinstance(c, bool):
            return not c
        return z3.Not(c)

    # ------------------------------------------------------------------ numerics
    def num_cmp(self, op, a, b):
        a, b = to_int_val(a), to_int_val(b)
        # infinities
        if isinstance(a, VFloat) and a.is_inf() or isinstance(b, VFloat) and b.is_inf():
            def rank(v):
                if isinstance(v, VFloat) and v.is_inf():
                    return v.t.sign * 2
                return 0
            ra, rb = rank(a), rank(b)
            if ra == rb and ra != 0:
                return op in ('==', '<=', '>=')
            return {'<': ra < rb, '<=': ra <= rb, '>': ra > rb, '>=': ra >= rb, '==': False, '!=': True}[op]
        fp = (isinstance(a, VFloat) and a.is_fp()) or (isinstance(b, VFloat) and b.is_fp())
        if fp:
            ta, tb = self.to_fp(a), self.to_fp(b)
            return {'<': z3.fpLT, '<=': z3.fpLEQ, '>': z3.fpGT, '>=': z3.fpGEQ, '==': z3.fpEQ,
                    '!=': lambda x, y: z3.Not(z3.fpEQ(x, y))}[op](ta, tb)
        if a.conc() and b.conc():
            x, y = a.t, b.t
            return {'<': x < y, '<=': x <= y, '>': x > y, '>=': x >= y, '==': x == y, '!=': x != y}[op]
        if isinstance(a, VInt) and isinstance(b, VInt):
            x, y = a.z(), b.z()
        else:
            x, y = zreal(a), zreal(b)
        return {'<': x < y, '<=': x <= y, '>': x > y, '>=': x >= y, '==': x == y, '!=': x != y}[op]

    def to_fp(self, v):
        if isinstance(v, VFloat) and v.is_fp():
            return v.t
        if isinstance(v, VFloat) and v.is_inf():
            return z3.fpPlusInfinity(z3.Float64()) if v.t.sign > 0 else z3.fpMinusInfinity(z3.Float64())
        if v.conc():
            return z3.FPVal(float(v.t), z3.Float64())
        raise EngineError('symbolic int/real mixed into fp arithmetic')

    def arith(self, p, op, a, b, node=None):
        """generator: yields (path, value | Raised) for a <op> b with numeric operands"""
        from . import arith
        yield from arith.binop(self, p, op, a, b, node)

    # ------------------------------------------------------------------ evaluation
    def ev(self, e, p):
        m = getattr(self, 'ev_' + e.__class__.__name__, None)
        if m is None:
            raise EngineError(f'unsupported expression {e.__class__.__name__} at line {getattr(e, "lineno", "?")}')
        yield from m(e, p)

    def ev_list(self, es, p):
        if not es:
            yield p, []
            return
        for p1, v in self.ev(es[0], p):
            if isinstance(v, Raised):
                yield p1, v
                continue
            for p2, rest in self.ev_list(es[1:], p1):
                if isinstance(rest, Raised):
                    yield p2, rest
                else:
                    yield p2, [v] + rest

    def ev_Constant(self, e, p):
        v = e.value
        if v is None:
            yield p, NONE
        elif isinstance(v, bool):
            yield p, VBool(v)
        elif isinstance(v, int):
            yield p, VInt(v)
        elif isinstance(v, float):
            if self.ctx.opts['float_mode'] == 'fp':
                yield p, VFloat(z3.FPVal(v, z3.Float64()))
            else:
                yield p, VFloat(Fraction(repr(v)), prov=('lit',))
        elif isinstance(v, str):
            yield p, S(v)
        elif isinstance(v, bytes):
            yield p, S(v.decode('latin-1'), 'bytes')
        else:
            raise EngineError(f'constant {v!r}')

    def lookup(self, p, name, node=None):
        fr = p.frames[-1]
        if name in fr.env:
            v = fr.env[name]
            if isinstance(v, VPoison):
                raise EngineError(v.what + f' (read at line {getattr(node, "lineno", "?")})')
            return v
        from . import lib
        v = lib.module_global(self, fr.module, name)
        if v is not None:
            return v
        v = lib.builtin(name)
        if v is not None:
            return v
        raise EngineError(f'unbound name {name} in {fr.qualname} line {getattr(node, "lineno", "?")}')

    _locals_cache = {}

    def local_names(self, fr):
        key = (fr.module, fr.qualname)
        try:
            fn = front.load(fr.module).func(fr.qualname)
        except Exception:
            return frozenset()
        c = self._locals_cache.get(key)
        if c is None or c[0] is not fn:
            names = {a.arg for a in fn.args.args}
            for n in ast.walk(fn):
                if isinstance(n, ast.Name) and isinstance(n.ctx, (ast.Store, ast.Del)):
                    names.add(n.id)
                elif isinstance(n, ast.ExceptHandler) and n.name:
                    names.add(n.name)
            c = (fn, frozenset(names))
            self._locals_cache[key] = c
        return c[1]

    def ev_Name(self, e, p):
        fr = p.frames[-1]
        if e.id not in fr.env and e.id in self.local_names(fr):
            # a local variable read before any assignment on this path
            yield p, Raised('UnboundLocalError', node=e)
            return
        yield p, self.lookup(p, e.id, e)

    def ev_Tuple(self, e, p):
        for q, vs in self.ev_list(e.elts, p):
            yield q, (vs if isinstance(vs, Raised) else VTuple(vs))

    def ev_List(self, e, p):
        for q, vs in self.ev_list(e.elts, p):
            yield q, (vs if isinstance(vs, Raised) else q.alloc(HList(vs), 'list'))

    def ev_Set(self, e, p):
        for q, vs in self.ev_list(e.elts, p):
            yield q, (vs if isinstance(vs, Raised) else q.alloc(HSet(vs), 'set'))

    def ev_Dict(self, e, p):
        for q, ks in self.ev_list(e.keys, p):
            if isinstance(ks, Raised):
                yield q, ks
                continue
            for q2, vs in self.ev_list(e.values, q):
                if isinstance(vs, Raised):
                    yield q2, vs
                    continue
                d = {}
                for k, v in zip(ks, vs):
                    d[self.hashable(k)] = v
                yield q2, q2.alloc(HDict(d), 'dict')

    @staticmethod
    def hashable(k):
        if isinstance(k, VInt) and k.conc():
            return k.t
        if isinstance(k, VStr) and k.is_lit():
            return k.lit()
        if isinstance(k, VBool) and k.conc():
            return int(k.b)
        raise EngineError(f'symbolic dict key {k!r}')

    def ev_UnaryOp(self, e, p):
        for q, v in self.ev(e.operand, p):
            if isinstance(v, Raised):
                yield q, v
                continue
            if isinstance(e.op, ast.Not):
                t = self.truth(q, v)
                yield q, VBool(self.z_not(t))
            elif isinstance(e.op, ast.USub):
                from . import arith
                yield q, arith.neg(self, q, v)
            elif isinstance(e.op, ast.UAdd):
                yield q, v
            else:
                raise EngineError('unary op')

    def ev_BinOp(self, e, p):
        for q, vs in self.ev_list([e.left, e.right], p):
            if isinstance(vs, Raised):
                yield q, vs
                continue
            yield from self.binop(q, e.op, vs[0], vs[1], e)

    def binop(self, p, op, a, b, node=None):
        opn = op.__class__.__name__
        # strings
        if isinstance(a, VStr) or isinstance(b, VStr):
            from . import strops
            yield from strops.binop(self, p, opn, a, b, node)
            return
        if isinstance(a, VRef) and isinstance(b, VRef) and opn == 'Add':
            ha, hb = p.heap[a.ref], p.heap[b.ref]
            if isinstance(ha, HList) and isinstance(hb, HList):
                yield p, p.alloc(HList(ha.items + hb.items), 'list')
                return
        if isinstance(a, VTuple) and isinstance(b, VTuple) and opn == 'Add':
            yield p, VTuple(a.items + b.items)
            return
        if opn in ('BitAnd', 'BitOr', 'BitXor'):
            from . import arith
            yield p, arith.bitop(self, p, opn, a, b)
            return
        if hasattr(a, 'binop'):
            yield from a.binop(self, p, opn, b, False, node)
            return
        if hasattr(b, 'binop'):
            yield from b.binop(self, p, opn, a, True, node)
            return
        if isinstance(a, VRef) and p.heap[a.ref].__class__ is HSet and opn == 'BitOr':
            raise EngineError('set union')
        if is_num(a) and is_num(b):
            yield from self.arith(p, opn, a, b, node)
            return
        if isinstance(a, VNone) or isinstance(b, VNone):
            yield p, Raised('TypeError', node=node)
            return
        raise EngineError(f'binop {opn} on {a!r}, {b!r} line {getattr(node, "lineno", "?")}')

    def ev_BoolOp(self, e, p):
        is_and = isinstance(e.op, ast.And)

        def rec(i, p):
            for q, v in self.ev(e.values[i], p):
                if isinstance(v, Raised) or i == len(e.values) - 1:
                    yield q, v
                    continue
                t = self.truth(q, v)
                # no calls to the right: attribute reads / subscripts / divisions are tried on a fork and merged
                # into one boolean when they neither fork nor raise (no side effects are possible without a call)
                rest_pure = not any(isinstance(n, (ast.Call, ast.NamedExpr, ast.Await, ast.Yield))
                                    for x in e.values[i + 1:] for n in ast.walk(x))
                if isinstance(t, bool):
                    if t == is_and:
                        yield from rec(i + 1, q)
                    else:
                        yield q, v
                    continue
                if rest_pure and isinstance(v, VBool):
                    # no side effects to the right: combine without forking when the rest is boolean too
                    res = list(rec(i + 1, q.fork()))
                    if len(res) == 1 and isinstance(res[0][1], VBool) and not isinstance(res[0][1], Raised) \
                            and len(res[0][0].pc) == len(q.pc):
                        r = res[0][1]
                        comb = z3.And(t, r.z()) if is_and else z3.Or(t, r.z())
                        yield q, VBool(comb)
                        continue
                for q2, c in self.branch(q, t, 'bo'):
                    if c == is_and:
                        yield from rec(i + 1, q2)
                    else:
                        yield q2, v
        yield from rec(0, p)

    def is_pure(self, e):
        for n in ast.walk(e):
            if isinstance(n, (ast.Call, ast.Subscript, ast.Attribute, ast.BinOp)):
                # calls may have effects; subscripts/attributes/division may raise
                if isinstance(n, ast.BinOp) and not isinstance(n.op, (ast.Div, ast.FloorDiv, ast.Mod)):
                    continue
                return False
        return True

    def ev_Compare(self, e, p):
        operands = [e.left] + list(e.comparators)

        def rec(i, p, left, acc):
            if i == len(e.ops):
                yield p, VBool(self.z_and(acc))
                return
            for q, right in self.ev(operands[i + 1], p):
                if isinstance(right, Raised):
                    yield q, right
                    continue
                for q2, c in self.compare(q, e.ops[i], left, right, e):
                    if isinstance(c, Raised):
                        yield q2, c
                        continue
                    if isinstance(c, bool) and not c:
                        yield q2, FALSE
                        continue
                    if i + 1 < len(e.ops) and not isinstance(c, bool) and not self.is_pure(operands[i + 2]):
                        for q3, cc in self.branch(q2, c, 'cmp'):
                            if cc:
                                yield from rec(i + 1, q3, right, acc)
                            else:
                                yield q3, FALSE
                    else:
                        yield from rec(i + 1, q2, right, acc + [c])
        for q, left in self.ev(operands[0], p):
            if isinstance(left, Raised):
                yield q, left
                continue
            yield from rec(0, q, left, [])

    def compare(self, p, op, a, b, node=None):
        """yield (path, bool | z3 Bool | Raised)"""
        opn = op.__class__.__name__
        if opn in ('Is', 'IsNot'):
            if isinstance(a, VNone) or isinstance(b, VNone):
                r = isinstance(a, VNone) and isinstance(b, VNone)
            elif isinstance(a, VBool) and isinstance(b, VBool):
                r = self.eq(p, a, b)
            elif isinstance(a, VRef) and isinstance(b, VRef):
                r = a.ref == b.ref
            elif type(a) is not type(b):
                r = False
            else:
                raise EngineError(f'is between {a!r} and {b!r}')
            yield p, (r if opn == 'Is' else self.z_not(r))
            return
        if opn in ('Eq', 'NotEq'):
            r = self.eq(p, a, b)
            yield p, (r if opn == 'Eq' else self.z_not(r))
            return
        if opn in ('In', 'NotIn'):
            from . import strops
            for q, r in strops.contains(self, p, a, b, node):
                if isinstance(r, Raised):
                    yield q, r
                else:
                    yield q, (r if opn == 'In' else self.z_not(r))
            return
        sym = {'Lt': '<', 'LtE': '<=', 'Gt': '>', 'GtE': '>='}[opn]
        if is_num(a) and is_num(b):
            # a comparison involving a ROUNDED mpf value is decided on the ideal values; that is the computed decision as long as
            # the two ideal values are further apart than the accumulated rounding error: obligation
            errs = [v.err for v in (a, b) if isinstance(v, VMpf) and v.err]
            if errs and all(e is not None for e in errs):
                tot = sum(errs)
                da, db = zreal(a), zreal(b)
                from fractions import Fraction as _F
                tz_ = z3.RealVal(str(_F(tot)))
                self.oblige(p, 'mpf-compare-robust', z3.Or(da - db > tz_, db - da > tz_), f'comparison-decided-beyond-rounding-error@L{getattr(node, "lineno", "?")}')
            yield p, self.num_cmp(sym, a, b)
            return
        if isinstance(a, VVersion) and isinstance(b, VVersion):
            ge = z3.Or(a.a > b.a, z3.And(a.a == b.a, z3.Or(a.b > b.b, z3.And(a.b == b.b, a.c >= b.c))))
            gt = z3.Or(a.a > b.a, z3.And(a.a == b.a, z3.Or(a.b > b.b, z3.And(a.b == b.b, a.c > b.c))))
            yield p, {'>=': ge, '>': gt, '<': z3.Not(ge), '<=': z3.Not(gt)}[sym]
            return
        if hasattr(a, 'order_cmp'):
            yield from a.order_cmp(self, p, sym, b, False, node)
            return
        if hasattr(b, 'order_cmp'):
            yield from b.order_cmp(self, p, sym, a, True, node)
            return
        if isinstance(a, VStr) and isinstance(b, VStr) and a.kind == b.kind:
            if a.is_lit() and b.is_lit():
                x, y = a.lit(), b.lit()
                yield p, {'<': x < y, '<=': x <= y, '>': x > y, '>=': x >= y}[sym]
                return
            za, zb = a.z(), b.z()
            yield p, {'<': za < zb, '<=': za <= zb, '>': zb < za, '>=': zb <= za}[sym]
            return
        # ordering between unrelated types raises TypeError in Python 3
        yield p, Raised('TypeError', node=node)

    def ev_IfExp(self, e, p):
        for q, t in self.ev(e.test, p):
            if isinstance(t, Raised):
                yield q, t
                continue
            for q2, c in self.branch(q, self.truth(q, t), 'ife'):
                yield from self.ev(e.body if c else e.orelse, q2)

    def ev_JoinedStr(self, e, p):
        from . import strops
        parts = []
        exprs = []
        for v in e.values:
            if isinstance(v, ast.Constant):
                parts.append(v.value)
            else:
                parts.append(v)
                exprs.append(v.value)
        for q, vals in self.ev_list(exprs, p):
            if isinstance(vals, Raised):
                yield q, vals
                continue
            it = iter(vals)
            out = VStr([])
            for part in parts:
                if isinstance(part, str):
                    out = concat(out, S(part))
                else:
                    spec = None
                    if part.format_spec is not None:
                        spec = ''.join(c.value for c in part.format_spec.values if isinstance(c, ast.Constant))
                    out = concat(out, strops.format_value(self, q, next(it), spec, part.conversion))
            yield q, out

    def ev_Attribute(self, e, p):
        for q, base in self.ev(e.value, p):
            if isinstance(base, Raised):
                yield q, base
                continue
            yield from self.getattr(q, base, e.attr, e)

    def getattr(self, p, base, attr, node=None):
        from . import lib
        if isinstance(base, VModule):
            v = lib.module_attr(self, base.name, attr)
            if v is None:
                raise EngineError(f'module attribute {base.name}.{attr}')
            yield p, v
            return
        if isinstance(base, VRef):
            h = p.heap[base.ref]
            if isinstance(h, HObj):
                if attr in h.fields:
                    if isinstance(h.fields[attr], VPoison):
                        raise EngineError(h.fields[attr].what + f' (read at line {getattr(node, "lineno", "?")})')
                    yield p, h.fields[attr]
                    return
                m = lib.find_method(self, h.cls, attr)
                if m is not None:
                    yield p, VFunc('method', attr, (base, m))
                    return
                shared = p.ghost.get('classattrs', {})
                if (h.cls, attr) in shared:
                    yield p, shared[(h.cls, attr)]
                    return
                node_c = lib.class_const_node(self, h.cls, attr)
                if node_c is not None:
                    # evaluate on this path (so that a mutable default lives in this path's heap) and share it:
                    # every instance of the class sees the same object, as in Python
                    p.frames.append(Frame({}, node_c[0], '<class>'))
                    res = list(self.ev(node_c[1], p))
                    p.frames.pop()
                    if len(res) != 1 or isinstance(res[0][1], Raised):
                        raise EngineError(f'class attribute {attr}')
                    c = res[0][1]
                    shared = dict(shared)
                    shared[(h.cls, attr)] = c
                    p.ghost['classattrs'] = shared
                    if isinstance(c, VRef):
                        p.ghost['shared_refs'] = set(p.ghost.get('shared_refs', ())) | {c.ref}
                    yield p, c
                    return
                raise EngineError(f'attribute {attr} of instance {h.cls}')
            yield p, VFunc('valmethod', attr, base)
            return
        if isinstance(base, VNone):
            yield p, Raised('AttributeError', node=node)
            return
        if isinstance(base, VHandle):
            if attr in base.data:
                yield p, base.data[attr]
                return
            yield p, VFunc('ext', attr, base)
            return
        if hasattr(base, 'getattr'):
            yield from base.getattr(self, p, attr, node)
            return
        if isinstance(base, (VStr, VInt, VFloat, VMpf, VTuple, VBool)) or isinstance(base, VFunc) and base.kind in ('class', 'builtin') \
                or hasattr(base, 'method'):
            yield p, VFunc('valmethod', attr, base)
            return
        raise EngineError(f'attribute {attr} of {base!r}')

    def ev_Subscript(self, e, p):
        from . import seqops
        for q, base in self.ev(e.value, p):
            if isinstance(base, Raised):
                yield q, base
                continue
            if isinstance(e.slice, ast.Slice):
                parts = [e.slice.lower, e.slice.upper, e.slice.step]
                exprs = [x for x in parts if x is not None]
                for q2, vals in self.ev_list(exprs, q):
                    if isinstance(vals, Raised):
                        yield q2, vals
                        continue
                    it = iter(vals)
                    lo, hi, st = [next(it) if x is not None else None for x in parts]
                    yield from seqops.get_slice(self, q2, base, lo, hi, st, e)
            else:
                for q2, idx in self.ev(e.slice, q):
                    if isinstance(idx, Raised):
                        yield q2, idx
                        continue
                    yield from seqops.get_item(self, q2, base, idx, e)

    def ev_ListComp(self, e, p):
        from . import seqops
        yield from seqops.listcomp(self, p, e)

    def ev_GeneratorExp(self, e, p):
        from . import seqops
        yield from seqops.listcomp(self, p, e)

    def ev_Lambda(self, e, p):
        yield p, VFunc('lambda', '<lambda>', (e, dict(p.env)))

    def ev_Call(self, e, p):
        from . import lib
        for q, f in self.ev(e.func, p):
            if isinstance(f, Raised):
                yield q, f
                continue
            if any(isinstance(a, ast.Starred) for a in e.args) or any(k.arg is None for k in e.keywords):
                raise EngineError('star-args call')
            for q2, vals in self.ev_list(list(e.args) + [k.value for k in e.keywords], q):
                if isinstance(vals, Raised):
                    yield q2, vals
                    continue
                args = vals[:len(e.args)]
                kwargs = {k.arg: v for k, v in zip(e.keywords, vals[len(e.args):])}
                yield from lib.call(self, q2, f, args, kwargs, e)

    # ------------------------------------------------------------------ statements
    def exec_block(self, stmts, p):
        """yield (path, outcome) with outcome in NORMAL / BRK / CONT / Ret / Raised"""
        if not stmts:
            yield p, NORMAL
            return
        for q, out in self.exec_stmt(stmts[0], p):
            if out is NORMAL:
                yield from self.exec_block(stmts[1:], q)
            else:
                yield q, out

    def exec_stmt(self, s, p):
        c = self.ctx
        c.n_stmts += 1
        if c.t0 is None:
            import time as _t
            c.t0 = _t.time()
        elif c.n_stmts % 64 == 0:
            import time as _t
            if _t.time() - c.t0 > c.opts['explore_budget_s']:
                raise EngineError(f'exploration budget of {c.opts["explore_budget_s"]} s exceeded after {c.n_stmts} statements '
                                  f'(path explosion: the code no longer fits the contracts\' invariants / unrolling bounds)')
        m = getattr(self, 'st_' + s.__class__.__name__, None)
        if m is None:
            raise EngineError(f'unsupported statement {s.__class__.__name__} at line {s.lineno}')
        yield from m(s, p)

    def st_Pass(self, s, p):
        yield p, NORMAL

    def st_Global(self, s, p):
        # writes to module-level state would be bound locally and lost (the model has no mutable module state)
        raise EngineError(f'global statement ({", ".join(s.names)}) at line {s.lineno}: module-level state is not modelled')
        yield   # pragma: no cover

    def st_Nonlocal(self, s, p):
        raise EngineError(f'nonlocal statement at line {s.lineno}')
        yield   # pragma: no cover

    def st_Expr(self, s, p):
        if isinstance(s.value, ast.Constant):
            yield p, NORMAL
            return
        for q, v in self.ev(s.value, p):
            yield q, (v if isinstance(v, Raised) else NORMAL)

    def st_Return(self, s, p):
        if s.value is None:
            yield p, Ret(NONE)
            return
        for q, v in self.ev(s.value, p):
            yield q, (v if isinstance(v, Raised) else Ret(v))

    def st_Break(self, s, p):
        yield p, BRK

    def st_Continue(self, s, p):
        yield p, CONT

    def st_Assert(self, s, p):
        for q, v in self.ev(s.test, p):
            if isinstance(v, Raised):
                yield q, v
                continue
            for q2, c in self.branch(q, self.truth(q, v), 'assert'):
                yield q2, (NORMAL if c else Raised('AssertionError', node=s))

    def st_Raise(self, s, p):
        if s.exc is None:
            yield p, Raised('Exception', node=s)
            return
        for q, v in self.ev(s.exc, p):
            if isinstance(v, Raised):
                yield q, v
            elif isinstance(v, VExcClass):
                yield q, Raised(v.name, node=s)
            elif isinstance(v, VHandle) and v.kind == 'exception':
                yield q, Raised(v.name, node=s)
            else:
                raise EngineError('raise of non-exception')

    def st_Assign(self, s, p):
        for q, v in self.ev(s.value, p):
            if isinstance(v, Raised):
                yield q, v
                continue
            paths = [(q, NORMAL)]
            for tgt in s.targets:
                nxt = []
                for q2, out in paths:
                    if out is not NORMAL:
                        nxt.append((q2, out))
                        continue
                    nxt.extend(self.assign(q2, tgt, v))
                paths = nxt
            yield from paths

    def st_AnnAssign(self, s, p):
        if s.value is None:
            yield p, NORMAL
            return
        for q, v in self.ev(s.value, p):
            if isinstance(v, Raised):
                yield q, v
                continue
            yield from self.assign(q, s.target, v)

    def st_AugAssign(self, s, p):
        load = ast.copy_location(self._as_load(s.target), s.target)
        for q, cur in self.ev(load, p):
            if isinstance(cur, Raised):
                yield q, cur
                continue
            for q2, rhs in self.ev(s.value, q):
                if isinstance(rhs, Raised):
                    yield q2, rhs
                    continue
                # in-place list extension / set union
                if isinstance(cur, VRef) and isinstance(s.op, ast.Add) and isinstance(q2.heap[cur.ref], HList) \
                        and isinstance(rhs, VRef):
                    q2.heap[cur.ref].items.extend(q2.heap[rhs.ref].items)
                    yield q2, NORMAL
                    continue
                if isinstance(cur, VRef) and isinstance(s.op, ast.BitOr) and isinstance(rhs, VRef) \
                        and isinstance(q2.heap[cur.ref], HSet) and isinstance(q2.heap[rhs.ref], HSet):
                    q2.heap[cur.ref].items.extend(q2.heap[rhs.ref].items)      # concrete sets: in-place union
                    yield q2, NORMAL
                    continue
                if isinstance(cur, VRef) and isinstance(s.op, ast.BitOr) and isinstance(rhs, VRef):
                    from .absseq import HAbsSet, set_union_inplace
                    if isinstance(q2.heap[cur.ref], HAbsSet):
                        set_union_inplace(self, q2, cur, rhs)
                        yield q2, NORMAL
                        continue
                if hasattr(cur, 'iop'):
                    yield from cur.iop(self, q2, s.op.__class__.__name__, rhs, s)
                    continue
                for q3, v in self.binop(q2, s.op, cur, rhs, s):
                    if isinstance(v, Raised):
                        yield q3, v
                        continue
                    yield from self.assign(q3, s.target, v)

    @staticmethod
    def _as_load(t):
        if isinstance(t, ast.Name):
            return ast.Name(id=t.id, ctx=ast.Load())
        if isinstance(t, ast.Attribute):
            return ast.Attribute(value=t.value, attr=t.attr, ctx=ast.Load())
        if isinstance(t, ast.Subscript):
            return ast.Subscript(value=t.value, slice=t.slice, ctx=ast.Load())
        raise EngineError('augassign target')

    def assign(self, p, tgt, v):
        """generator of (path, NORMAL | Raised)"""
        from . import seqops, lib
        if isinstance(tgt, ast.Name):
            p.env[tgt.id] = v
            yield p, NORMAL
        elif isinstance(tgt, (ast.Tuple, ast.List)):
            for q, items in seqops.unpack(self, p, v, len(tgt.elts), tgt):
                if isinstance(items, Raised):
                    yield q, items
                    continue
                paths = [(q, NORMAL)]
                for t, item in zip(tgt.elts, items):
                    nxt = []
                    for q2, out in paths:
                        if out is not NORMAL:
                            nxt.append((q2, out))
                        else:
                            nxt.extend(self.assign(q2, t, item))
                    paths = nxt
                yield from paths
        elif isinstance(tgt, ast.Attribute):
            for q, base in self.ev(tgt.value, p):
                if isinstance(base, Raised):
                    yield q, base
                    continue
                yield from lib.setattr_(self, q, base, tgt.attr, v, tgt)
        elif isinstance(tgt, ast.Subscript):
            for q, base in self.ev(tgt.value, p):
                if isinstance(base, Raised):
                    yield q, base
                    continue
                if isinstance(tgt.slice, ast.Slice):
                    parts = [tgt.slice.lower, tgt.slice.upper, tgt.slice.step]
                    exprs = [x for x in parts if x is not None]
                    for q2, vals in self.ev_list(exprs, q):
                        if isinstance(vals, Raised):
                            yield q2, vals
                            continue
                        it = iter(vals)
                        lo, hi, st = [next(it) if x is not None else None for x in parts]
                        yield from seqops.set_slice(self, q2, base, lo, hi, st, v, tgt)
                else:
                    for q2, idx in self.ev(tgt.slice, q):
                        if isinstance(idx, Raised):
                            yield q2, idx
                            continue
                        yield from seqops.set_item(self, q2, base, idx, v, tgt)
        else:
            raise EngineError(f'assignment target {tgt.__class__.__name__}')

    def st_If(self, s, p):
        for q, t in self.ev(s.test, p):
            if isinstance(t, Raised):
                yield q, t
                continue
            for q2, c in self.branch(q, self.truth(q, t), f'L{s.lineno}'):
                yield from self.exec_block(s.body if c else s.orelse, q2)

    def st_Delete(self, s, p):
        from . import seqops
        paths = [(p, NORMAL)]
        for tgt in s.targets:
            nxt = []
            for q, o in paths:
                if o is not NORMAL:
                    nxt.append((q, o))
                    continue
                if isinstance(tgt, ast.Name):
                    if tgt.id in q.env:
                        del q.env[tgt.id]
                        nxt.append((q, NORMAL))
                    else:
                        nxt.append((q, Raised('UnboundLocalError', node=s)))
                elif isinstance(tgt, ast.Subscript):
                    for q1, base in self.ev(tgt.value, q):
                        if isinstance(base, Raised):
                            nxt.append((q1, base))
                            continue
                        if isinstance(tgt.slice, ast.Slice):
                            parts = [tgt.slice.lower, tgt.slice.upper, tgt.slice.step]
                            exprs = [x for x in parts if x is not None]
                            for q2, vals in self.ev_list(exprs, q1):
                                if isinstance(vals, Raised):
                                    nxt.append((q2, vals))
                                    continue
                                it = iter(vals)
                                lo, hi, st = [next(it) if x is not None else None for x in parts]
                                empty = q2.alloc(HList([]), 'list')
                                nxt.extend(seqops.set_slice(self, q2, base, lo, hi, st, empty, tgt))
                        else:
                            for q2, idx in self.ev(tgt.slice, q1):
                                if isinstance(idx, Raised):
                                    nxt.append((q2, idx))
                                    continue
                                if isinstance(base, VRef) and isinstance(q2.heap[base.ref], HList):
                                    for q3, i in seqops.norm_index(self, q2, idx, len(q2.heap[base.ref].items), tgt):
                                        if isinstance(i, Raised):
                                            nxt.append((q3, i))
                                        else:
                                            del q3.heap[base.ref].items[i]
                                            nxt.append((q3, NORMAL))
                                else:
                                    raise EngineError('del of an item of a non-list')
                else:
                    raise EngineError('del target')
            paths = nxt
        yield from paths

    def st_With(self, s, p):
        if len(s.items) != 1:
            raise EngineError('with statement with several items')
        item = s.items[0]
        for q, cm in self.ev(item.context_expr, p):
            if isinstance(cm, Raised):
                yield q, cm
                continue
            if not hasattr(cm, 'cm_enter'):
                raise EngineError(f'with statement over {cm!r} is not modelled (line {s.lineno})')
            v = cm.cm_enter(self, q)
            if item.optional_vars is not None:
                paths = list(self.assign(q, item.optional_vars, v))
            else:
                paths = [(q, NORMAL)]
            for q1, o in paths:
                if o is not NORMAL:
                    yield q1, o
                    continue
                for q2, out in self.exec_block(s.body, q1):
                    cm.cm_exit(self, q2)
                    yield q2, out

    def st_Try(self, s, p):
        def handle(q, out):
            if isinstance(out, Raised):
                for h in s.handlers:
                    if self.handler_matches(q, h, out.cls):
                        if h.name:
                            q.env[h.name] = VHandle('exception', out.cls)
                        q.trail.append(f'exc:{out.cls}@L{h.lineno}')
                        yield from self.exec_block(h.body, q)
                        return
                yield q, out
            elif out is NORMAL and s.orelse:
                yield from self.exec_block(s.orelse, q)
            else:
                yield q, out
        for q, out in self.exec_block(s.body, p):
            for q2, out2 in handle(q, out):
                if s.finalbody:
                    for q3, out3 in self.exec_block(s.finalbody, q2):
                        yield q3, (out2 if out3 is NORMAL else out3)
                else:
                    yield q2, out2

    def handler_matches(self, p, h, cls):
        if h.type is None:
            return True
        names = []
        for q, v in self.ev(h.type, p):
            if isinstance(v, VExcClass):
                names.append(v.name)
            elif isinstance(v, VTuple):
                names.extend(x.name for x in v.items)
            else:
                raise EngineError('except clause type')
        return any(exc_matches(cls, n) for n in names)

    def st_While(self, s, p):
        fr = p.frames[-1]
        key = (f'{fr.module}.{fr.qualname}', self.loop_ordinal(fr, s))
        spec = self.ctx.loop_specs.get(key)
        if spec is not None:
            yield from self.loop_with_invariant(s, p, spec, key)
            return
        work = [(p, 0)]
        limit = self.ctx.opts['unroll_limit']
        while work:
            p0, k = work.pop()
            if k > limit:
                raise EngineError(f'loop {key} not unrollable within {limit} iterations: needs an invariant')
            for q, t in self.ev(s.test, p0):
                if isinstance(t, Raised):
                    yield q, t
                    continue
                for q2, c in self.branch(q, self.truth(q, t), f'W{s.lineno}.{k}'):
                    if not c:
                        if s.orelse:
                            yield from self.exec_block(s.orelse, q2)
                        else:
                            yield q2, NORMAL
                        continue
                    for q3, out in self.exec_block(s.body, q2):
                        if out is NORMAL or out is CONT:
                            work.append((q3, k + 1))
                        elif out is BRK:
                            yield q3, NORMAL
                        else:
                            yield q3, out

    _loop_ord_cache = {}

    def loop_ordinal(self, fr, node):
        key = (fr.module, fr.qualname)
        tab = self._loop_ord_cache.get(key)
        fn = front.load(fr.module).func(fr.qualname)
        if tab is None or tab[0] is not fn:
            loops = [n for n in ast.walk(fn) if isinstance(n, (ast.While, ast.For))]
            loops.sort(key=lambda n: (n.lineno, n.col_offset))
            tab = (fn, {id(n): k for k, n in enumerate(loops)})
            self._loop_ord_cache[key] = tab
        return tab[1][id(node)]

    def loop_with_invariant(self, s, p, spec, key, bind=None):
        for name, goal in spec.establish(self, p):
            self.oblige(p, 'loop-establish', goal, f'{key[0].split(".")[-1]}.{key[1]}.{name}')
        names, attrs = self.loop_write_set(s)
        sure_n, sure_a = set(), set()
        tops = ([s.target] if isinstance(s, ast.For) else []) + [t for st in s.body if isinstance(st, (ast.Assign, ast.AugAssign, ast.AnnAssign))
                                                               for t in (st.targets if isinstance(st, ast.Assign) else [st.target])]
        for t in tops:
            for n in ast.walk(t):
                if isinstance(n, ast.Name) and isinstance(n.ctx, ast.Store):
                    sure_n.add(n.id)
                elif isinstance(n, ast.Attribute) and isinstance(n.ctx, ast.Store) and isinstance(n.value, ast.Name) and n.value.id == 'self':
                    sure_a.add(n.attr)
        pre_env = dict(p.env)
        selfv = p.env.get('self')
        pre_fields = None
        if isinstance(selfv, VRef) and isinstance(p.heap.get(selfv.ref), HObj):
            pre_fields = dict(p.heap[selfv.ref].fields)
        heads = spec.head(self, p)
        if heads is None:
            heads = [p]
        for hk, h in enumerate(heads):
            h.trail.append(f'loop{key[1]}' + (f'.{hk}' if len(heads) > 1 else ''))
            # frame guard: a local / self attribute the body may store to and head() did not re-describe is WATCHED; if some
            # completed iteration leaves it changed, the loop is explored again with it poisoned from the head on
            watch_n = {n: h.env.get(n) for n in names
                       if n not in spec.modifies and (n not in h.env or (n in pre_env and h.env[n] is pre_env[n]))}
            watch_a = {}
            if pre_fields is not None and selfv.ref in h.heap:
                f = h.heap[selfv.ref].fields
                watch_a = {a: f.get(a) for a in attrs
                           if ('self.' + a) not in spec.modifies and (a not in f or (a in pre_fields and f[a] is pre_fields[a]))}
            # names stored unconditionally by every iteration certainly change: poison them at once (saves the second pass)
            for n in sure_n & set(watch_n):
                h.env[n] = VPoison(f'local {n} is assigned in loop {key} but not covered by its invariant')
                del watch_n[n]
            for a in sure_a & set(watch_a):
                h.heap[selfv.ref].fields[a] = VPoison(f'self.{a} is assigned in loop {key} but not covered by its invariant')
                del watch_a[a]
            while True:
                mark = len(self.ctx.obligations)
                changed = set()
                h0 = h.fork()
                outs = list(self._loop_from_head(s, h0, spec, key, bind, (watch_n, watch_a, selfv, changed)))
                if not changed:
                    break
                del self.ctx.obligations[mark:]
                for kind, n in changed:
                    what = f'{"local " if kind == "n" else "self."}{n} is assigned in loop {key} but not covered by its invariant'
                    if kind == 'n':
                        h.env[n] = VPoison(what)
                        watch_n.pop(n, None)
                    else:
                        h.heap[selfv.ref].fields[n] = VPoison(what)
                        watch_a.pop(n, None)
            yield from outs

    _loop_ws_cache = {}

    def loop_write_set(self, s):
        """(local names, self attributes) that the statements of loop s can store to"""
        c = self._loop_ws_cache.get(id(s))
        if c is not None and c[0] is s:
            return c[1], c[2]
        names, attrs = set(), set()
        for n in ast.walk(s):
            if isinstance(n, ast.Name) and isinstance(n.ctx, (ast.Store, ast.Del)):
                names.add(n.id)
            elif isinstance(n, ast.Attribute) and isinstance(n.ctx, (ast.Store, ast.Del)) and isinstance(n.value, ast.Name) and n.value.id == 'self':
                attrs.add(n.attr)
        self._loop_ws_cache[id(s)] = (s, names, attrs)
        return names, attrs

    def _loop_from_head(self, s, h, spec, key, bind, watch=None):
        if bind is not None:
            # for-loop: bind(h) yields (path, has_next: bool)
            tests = bind(h)
        else:
            def tests_gen():
                for q, t in self.ev(s.test, h):
                    if isinstance(t, Raised):
                        yield q, t
                        continue
                    yield from self.branch(q, self.truth(q, t), f'W{s.lineno}')
            tests = tests_gen()
        for q, c in tests:
            if isinstance(c, Raised):
                yield q, c
                continue
            if not c:
                spec.after(self, q)
                if s.orelse:
                    yield from self.exec_block(s.orelse, q)
                else:
                    yield q, NORMAL
                continue
            for q3, out in self.exec_block(s.body, q):
                if out is NORMAL or out is CONT:
                    if watch is not None:
                        watch_n, watch_a, selfv, changed = watch
                        for n, v0 in watch_n.items():
                            if q3.env.get(n) is not v0:
                                changed.add(('n', n))
                        if watch_a:
                            f = q3.heap[selfv.ref].fields
                            for a, v0 in watch_a.items():
                                if f.get(a) is not v0:
                                    changed.add(('a', a))
                    for name, goal in spec.preserve(self, q3):
                        self.oblige(q3, 'loop-preserve', goal, f'{key[0].split(".")[-1]}.{key[1]}.{name}')
                elif out is BRK:
                    if hasattr(spec, 'on_break'):
                        spec.on_break(self, q3)
                    yield q3, NORMAL
                else:
                    yield q3, out

    def st_For(self, s, p):
        from . import seqops
        fr = p.frames[-1]
        key = (f'{fr.module}.{fr.qualname}', self.loop_ordinal(fr, s))
        spec = self.ctx.loop_specs.get(key)
        for q, it in self.ev(s.iter, p):
            if isinstance(it, Raised):
                yield q, it
                continue
            if spec is not None and not (getattr(spec, 'abstract_only', False) and not hasattr(it, 'listcomp')):
                yield from seqops.for_with_invariant(self, s, q, it, spec, key)
                continue
            for q1, items in seqops.iterate(self, q, it, s):
                if isinstance(items, Raised):
                    yield q1, items
                    continue
                yield from self.for_unrolled(s, q1, items, 0)

    def for_unrolled(self, s, p, items, i):
        if i == len(items):
            if s.orelse:
                yield from self.exec_block(s.orelse, p)
            else:
                yield p, NORMAL
            return
        for q, out in self.assign(p, s.target, items[i]):
            if out is not NORMAL:
                yield q, out
                continue
            for q2, out2 in self.exec_block(s.body, q):
                if out2 is NORMAL or out2 is CONT:
                    yield from self.for_unrolled(s, q2, items, i + 1)
                elif out2 is BRK:
                    yield q2, NORMAL
                else:
                    yield q2, out2

    # ------------------------------------------------------------------ running a function
    def bind_args(self, p, fn, args, kwargs, module, qualname, cls=None):
        a = fn.args
        if a.vararg or a.kwarg or a.kwonlyargs or a.posonlyargs:
            raise EngineError('unsupported parameter kinds')
        names = [x.arg for x in a.args]
        env = {}
        if len(args) > len(names):
            raise EngineError(f'too many arguments to {qualname}')
        for n, v in zip(names, args):
            env[n] = v
        for k, v in kwargs.items():
            if k not in names or k in env:
                raise EngineError(f'bad keyword {k} for {qualname}')
            env[k] = v
        ndef = len(a.defaults)
        for i, n in enumerate(names):
            if n in env:
                continue
            j = i - (len(names) - ndef)
            if j < 0:
                raise EngineError(f'missing argument {n} for {qualname}')
            d = a.defaults[j]
            tmp = Path()
            tmp.frames = [Frame({}, module, qualname, cls)]
            res = list(self.ev(d, tmp))
            env[n] = res[0][1]
        p.frames.append(Frame(env, module, qualname, cls))

    def run_function(self, p, module, qualname, args, kwargs=None):
        """Execute a function body on path p (pushes a frame). yields (path, Ret | Raised)."""
        mi = front.load(module)
        fn = mi.func(qualname)
        for d in fn.decorator_list:
            # a decorator replaces the function by whatever it returns (a cache, a wrapper ...): running the bare body would verify
            # something other than what callers execute
            if not (isinstance(d, ast.Name) and d.id == 'staticmethod'):
                raise EngineError(f'decorated function {module}.{qualname} (@{ast.unparse(d)}) is not modelled')
        self.ctx.note_function(module, qualname)
        cls = qualname.split('.')[0] if '.' in qualname else None
        self.bind_args(p, fn, args, kwargs or {}, module, qualname, cls)
        depth = len(p.frames)
        for q, out in self.exec_block(fn.body, p):
            assert len(q.frames) == depth, 'frame imbalance'
            q.frames.pop()
            self.ctx.stats['paths'] += 1
            if out is NORMAL:
                yield q, Ret(NONE)
            elif isinstance(out, (Ret, Raised)):
                yield q, out
            else:
                raise EngineError('break/continue outside loop')
