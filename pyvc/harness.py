"""Helpers shared by the sidecar contracts."""
from fractions import Fraction
import z3

from .engine import Ctx, Exec, Path, Frame, Ret, Raised, EngineError
from .values import *      # noqa
from .strings import VStr, S


def run(ctx, module, qualname, args, kwargs=None, requires=(), setup=None):
    """symbolically execute module.qualname; returns (ex, [(path, outcome)])"""
    ex = Exec(ctx)
    p = Path()
    for r in requires:
        p.assume(r)
    if setup:
        setup(ex, p)
    outs = list(ex.run_function(p, module, qualname, args, kwargs or {}))
    return ex, outs


def no_raise(ex, q, out, what='raises-nothing'):
    """obligation: this path does not end in an exception"""
    if isinstance(out, Raised):
        q.frames.append(Frame({}, '?', what))
        ex.oblige(q, 'no-exception', False, f'{out.cls}@L{getattr(out.node, "lineno", "?")}')
        q.frames.pop()
        return False
    return True


def oblige_at(ex, q, func, kind, goal, detail='', info=None):
    q.frames.append(Frame({}, '?', func))
    ob = ex.oblige(q, kind, goal, detail, info)
    q.frames.pop()
    return ob


def num(s):
    """parse a model value string into Fraction / float"""
    s = s.strip()
    if s in ('inf', '-inf', 'nan'):
        return float(s)
    try:
        return Fraction(s)
    except (ValueError, ZeroDivisionError):
        return float(s)


def zb(x):
    """bool | z3 Bool -> z3 Bool"""
    return z3.BoolVal(x) if isinstance(x, bool) else x
