#!/bin/bash
# Offline setup: nothing is built or fetched; verify the interpreters the checks need.
set -e
cd "$(dirname "$0")"
mkdir -p evidence replays
python3-vt -c "import z3; assert z3.get_version_string().startswith('5.')"
/venv/bin/python -c "import plotink, mpmath, os; assert os.path.realpath(plotink.__file__).startswith('/repo/')"
echo setup ok
